/-
C20 specification side of `GluonModel.FindPos`: well-nested span trees and the innermost
terminal at a position, both defined by plain structural recursion — no `select_spanned`, no
visitor state.

`wn` ("well nested"): every span is well formed, the children a node searches among come in
source order, strictly disjoint, inside the parent (and inside the derived spans the visitor
uses: binding = name.start..expr.end, alternative = pattern.start..expr.end).

`spec pos n`: descend into the FIRST child whose span contains `pos` as long as there is one;
answer with the node's own match only where the node has no child containing `pos` and is one
of the things the editor reports (identifier / literal, empty array/tuple/block, unit pattern,
operator, argument, field name, the field part of a projection, the constructor name of a
pattern); `none` if `pos` is outside the node or in a gap between children.
-/
import GluonModel.FindPos

namespace GluonModel.FindPos

/-- `pos` is inside the span (both ends inclusive), as `containment` sees it. -/
def isAt (s : Span) (pos : Nat) : Bool := s.containment pos == .eq

/-- The spans are well formed, strictly increasing, disjoint, and lie in `lo ..= hi`. -/
def chain : Nat → Nat → List Span → Bool
  | _, _, [] => true
  | lo, hi, s :: rest =>
    decide (lo ≤ s.lo) && decide (s.lo ≤ s.hi) && decide (s.hi ≤ hi) && chain (s.hi + 1) hi rest

def Span.wf (s : Span) : Bool := decide (s.lo ≤ s.hi)

/-! ### Well-nested trees -/

def Pat.wn : Pat → Bool
  | .leaf sp _ => sp.wf
  | .tuple sp ps => sp.wf && chain sp.lo sp.hi (ps.map Pat.span) && wnList ps
  | .ctor sp len ps =>
    decide (sp.lo + len ≤ sp.hi) && chain (sp.lo + len + 1) sp.hi (ps.map Pat.span) && wnList ps
  | .as_ sp _ p => sp.wf && decide (sp.lo ≤ p.span.lo) && decide (p.span.hi ≤ sp.hi) && p.wn
  | .record sp fs => sp.wf && chain sp.lo sp.hi (fs.map Pat.span) && wnFields fs
  -- fields occur only directly below a record pattern
  | .fieldShort _ _ => false
  | .fieldVal _ _ => false
where
  wnList : List Pat → Bool
    | [] => true
    | p :: ps => p.wn && wnList ps
  wnFields : List Pat → Bool
    | [] => true
    | .fieldShort nsp _ :: ps => nsp.wf && wnFields ps
    | .fieldVal nsp v :: ps => nsp.wf && decide (nsp.hi < v.span.lo) && v.wn && wnFields ps
    | _ :: _ => false

mutual
def Expr.wn : Expr → Bool
  | .leaf sp => sp.wf
  | .emptyNode sp => sp.wf
  | .error sp => sp.wf
  | .one sp cs => sp.wf && chain sp.lo sp.hi (cs.map Expr.span) && wnExprs cs
  | .infix sp l op r => sp.wf && chain sp.lo sp.hi [l.span, op, r.span] && l.wn && r.wn
  | .proj sp e => sp.wf && decide (sp.lo ≤ e.span.lo) && decide (e.span.hi ≤ sp.hi) && e.wn
  | .annotated sp e => sp.wf && decide (e.span = sp) && e.wn
  | .lambda sp args b =>
    sp.wf && chain sp.lo sp.hi (args.map Arg.sp ++ [b.span]) && b.wn
  | .letb sp _ bs b =>
    sp.wf && chain sp.lo sp.hi (bs.map LBind.span ++ [b.span]) && wnBinds bs && b.wn
  | .matchE sp s alts =>
    sp.wf && chain sp.lo sp.hi (s.span :: alts.map Alt.span) && s.wn && wnAlts alts
  | .record sp fs base =>
    sp.wf && chain sp.lo sp.hi ((recordVariants fs base).map Variant.span) && wnFields fs
      && (match base with | none => true | some b => b.wn)
def wnExprs : List Expr → Bool
  | [] => true
  | e :: es => e.wn && wnExprs es
def wnBinds : List LBind → Bool
  | [] => true
  | .mk n args e :: bs =>
    chain n.span.lo e.span.hi (n.span :: (args.map Arg.sp ++ [e.span])) && n.wn && e.wn && wnBinds bs
def wnAlts : List Alt → Bool
  | [] => true
  | .mk p e :: as => chain p.span.lo e.span.hi [p.span, e.span] && p.wn && e.wn && wnAlts as
def wnFields : List Field → Bool
  | [] => true
  | .mk _ none :: fs => wnFields fs
  | .mk _ (some e) :: fs => e.wn && wnFields fs
end

/-! ### The innermost terminal at a position -/

def Pat.spec (pos : Nat) : Pat → Option M
  | .leaf sp _ => if isAt sp pos then some ⟨.pattern, sp, .plain⟩ else none
  | .tuple sp ps =>
    if isAt sp pos then
      (match ps with
        | [] => some ⟨.pattern, sp, .plain⟩      -- the unit pattern
        | _ => specList ps)
    else none
  | .ctor sp len ps =>
    if isAt sp pos then
      (if isAt ⟨sp.lo, sp.lo + len⟩ pos then some ⟨.pattern, sp, .plain⟩ else specList ps)
    else none
  | .as_ sp _ p => if isAt sp pos then p.spec pos else none
  | .record sp fs => if isAt sp pos then specFieldsP fs else none
  | .fieldShort _ _ => none
  | .fieldVal _ _ => none
where
  specList : List Pat → Option M
    | [] => none
    | p :: ps => if isAt p.span pos then p.spec pos else specList ps
  /-- the first field whose span (`name` or `name = pattern`) contains `pos`: its name, or what
      is at `pos` inside its pattern -/
  specFieldsP : List Pat → Option M
    | [] => none
    | .fieldShort nsp b :: ps =>
      if isAt nsp pos then some ⟨.ident, nsp, .plain⟩ else specFieldsP ps
    | .fieldVal nsp v :: ps =>
      if isAt ⟨nsp.lo, v.span.hi⟩ pos then
        (if isAt nsp pos then some ⟨.ident, nsp, .plain⟩
         else if isAt v.span pos then v.spec pos else none)
      else specFieldsP ps
    | _ :: ps => specFieldsP ps

/-- `o` if it says something, else `d` -/
def orElse (o : Option (Option M)) (d : Option M) : Option M :=
  match o with
  | some r => r
  | none => d

def optOr (o d : Option M) : Option M :=
  match o with
  | some m => some m
  | none => d

def specArgs (pos : Nat) (args : List Arg) : Option M :=
  match args.find? (fun a => isAt a.sp pos) with
  | some a => some ⟨.ident, a.sp, .plain⟩
  | none => none

mutual
def Expr.spec (pos : Nat) : Expr → Option M
  | .leaf sp => if isAt sp pos then some ⟨.expr, sp, .plain⟩ else none
  | .emptyNode sp => if isAt sp pos then some ⟨.expr, sp, .plain⟩ else none
  | .error _ => none
  | .one sp cs => if isAt sp pos then specExprs pos cs else none
  | .infix sp l op r =>
    if isAt sp pos then
      (if isAt l.span pos then l.spec pos
       else if isAt r.span pos then r.spec pos
       else if isAt op pos then some ⟨.ident, op, .plain⟩ else none)
    else none
  | .proj sp e =>
    if isAt sp pos then
      (if isAt e.span pos then e.spec pos
       else if e.span.containment pos == .gt then some ⟨.ident, sp, .plain⟩ else none)
    else none
  | .annotated sp e => if isAt sp pos then e.spec pos else none
  | .lambda sp args b =>
    if isAt sp pos then
      optOr (specArgs pos args) (if isAt b.span pos then b.spec pos else none)
    else none
  | .letb sp _ bs b =>
    if isAt sp pos then
      orElse (specBinds pos bs) (if isAt b.span pos then b.spec pos else none)
    else none
  | .matchE sp s alts =>
    if isAt sp pos then (if isAt s.span pos then s.spec pos else specAlts pos alts) else none
  | .record sp fs base =>
    if isAt sp pos then
      orElse (specFields pos fs)
        (match base with
          | some b => if isAt b.span pos then b.spec pos else none
          | none => none)
    else none
def specExprs (pos : Nat) : List Expr → Option M
  | [] => none
  | e :: es => if isAt e.span pos then e.spec pos else specExprs pos es
/-- `some r`: `pos` is inside the binding `name.start..expr.end`, `r` = what is there -/
def specBinds (pos : Nat) : List LBind → Option (Option M)
  | [] => none
  | .mk n args e :: bs =>
    if isAt ⟨n.span.lo, e.span.hi⟩ pos then
      some (if isAt n.span pos then n.spec pos
            else optOr (specArgs pos args) (if isAt e.span pos then e.spec pos else none))
    else specBinds pos bs
def specAlts (pos : Nat) : List Alt → Option M
  | [] => none
  | .mk p e :: as =>
    if isAt ⟨p.span.lo, e.span.hi⟩ pos then
      (if isAt p.span pos then p.spec pos else if isAt e.span pos then e.spec pos else none)
    else specAlts pos as
/-- `some r`: `pos` is on a field name or inside a field value -/
def specFields (pos : Nat) : List Field → Option (Option M)
  | [] => none
  | .mk fsp none :: fs =>
    if isAt fsp pos then some (some ⟨.ident, fsp, .plain⟩) else specFields pos fs
  | .mk fsp (some e) :: fs =>
    if isAt fsp pos then some (some ⟨.ident, fsp, .plain⟩)
    else if isAt e.span pos then some (e.spec pos) else specFields pos fs
end

def Variant.wn : Variant → Bool
  | .pat p => p.wn
  | .ident a => a.sp.wf
  | .field sp => sp.wf
  | .expr e => e.wn

def Variant.spec (pos : Nat) : Variant → Option M
  | .pat p => p.spec pos
  | .ident a => if isAt a.sp pos then some ⟨.ident, a.sp, .plain⟩ else none
  | .field sp => if isAt sp pos then some ⟨.ident, sp, .plain⟩ else none
  | .expr e => e.spec pos

def Node.wn : Node → Bool
  | .expr e => e.wn
  | .pat p => p.wn
  | .variant none => true
  | .variant (some v) => v.wn

def Node.spec (pos : Nat) : Node → Option M
  | .expr e => e.spec pos
  | .pat p => p.spec pos
  | .variant none => none
  | .variant (some v) => v.spec pos

/-- What the search reports AT the position: the match, if its span contains `pos`. -/
def hitOf (pos : Nat) (st : St) : Option M :=
  match st.found with
  | .found m => if isAt m.span pos then some m else none
  | _ => none

end GluonModel.FindPos
