/-
`Surf`: the reference semantics of the surface mini-Gluon used by the program-level checks
(C01, C02, C04 …): strict, call-by-value, left-to-right, checked 64-bit integers — our reading of
book/src/syntax-and-semantics.md. The generator in harness/src/surf.rs emits exactly this
fragment.

Values are type-erased the way the VM's host API shows them: records and tuples are `data 0`,
a constructor application is `data tag args`, `True`/`False` are `data 1 []`/`data 0 []`.
-/
namespace GluonModel.Surf

inductive Pat where
  | wild
  | var (x : String)
  | int (n : Int)
  | str (s : String)
  /-- constructor pattern: tag and argument patterns -/
  | ctor (tag : Nat) (args : List Pat)
  /-- record / tuple pattern: (field index in the scrutinee, sub-pattern) -/
  | record (fields : List (Nat × Pat))
  | as (x : String) (p : Pat)
  deriving Repr, Inhabited

/-- where a field of a record expression's result comes from -/
inductive Src where
  | field (i : Nat)   -- the i-th explicit field expression (source order)
  | base (j : Nat)    -- the j-th field of the base record
  deriving Repr, Inhabited

inductive Expr where
  | int (n : Int)
  | str (s : String)
  | var (x : String)
  | lam (xs : List String) (body : Expr)
  | app (f : Expr) (args : List Expr)
  | let_ (p : Pat) (e₁ e₂ : Expr)
  | letrec (binds : List (String × List String × Expr)) (body : Expr)
  | ite (c a b : Expr)
  | prim (op : String) (a b : Expr)
  | and_ (a b : Expr)
  | or_ (a b : Expr)
  | ctor (tag arity : Nat)
  | match_ (scrut : Expr) (alts : List (Pat × Expr))
  | record (fields : List Expr) (base : Option Expr) (layout : List Src)
  | proj (e : Expr) (idx : Nat)
  | array (es : List Expr)
  | error (msg : String)
  deriving Repr, Inhabited

inductive Val where
  | int (n : Int)
  | str (s : String)
  | data (tag : Nat) (fields : List Val)
  | arr (xs : List Val)
  | clos (params : List String) (body : Expr) (env : List (String × Val))
  /-- member `idx` of a recursive group defined in `env` -/
  | recclos (group : List (String × List String × Expr)) (idx : Nat) (env : List (String × Val))
  | ctorfn (tag arity : Nat)
  | pap (f : Val) (args : List Val)
  deriving Inhabited

abbrev Env := List (String × Val)

inductive Err where
  | arith                 -- integer overflow or division by zero
  | unmatched             -- no alternative matches
  | user (msg : String)   -- `error msg`
  | fuel                  -- the evaluator ran out of fuel (never for generated programs)
  | wrong (what : String) -- stuck: only ill-typed programs get here
  deriving Repr, Inhabited

abbrev Res := Except Err Val

def minInt : Int := -9223372036854775808
def maxInt : Int := 9223372036854775807

def checked (n : Int) : Res :=
  if minInt ≤ n ∧ n ≤ maxInt then .ok (.int n) else .error .arith

def boolVal (b : Bool) : Val := .data (if b then 1 else 0) []

/-- The built-in integer operators (`#Int+` …): checked arithmetic, truncating division. -/
def primOp (op : String) (a b : Int) : Res :=
  if op = "+" then checked (a + b)
  else if op = "-" then checked (a - b)
  else if op = "*" then checked (a * b)
  else if op = "/" then (if b = 0 then .error .arith else checked (Int.tdiv a b))
  else if op = "==" then .ok (boolVal (a = b))
  else if op = "<" then .ok (boolVal (a < b))
  else .error (.wrong "prim")

def lookup (env : Env) (x : String) : Option Val :=
  match env with
  | [] => none
  | (y, v) :: rest => if x = y then some v else lookup rest x

mutual
def matchPat : Pat → Val → Option Env
  | .wild, _ => some []
  | .var x, v => some [(x, v)]
  | .int n, .int m => if n = m then some [] else none
  | .int _, _ => none
  | .str s, .str t => if s = t then some [] else none
  | .str _, _ => none
  | .ctor tag ps, .data t vs => if tag = t then matchPats ps vs else none
  | .ctor _ _, _ => none
  | .record fs, .data _ vs => matchFields fs vs
  | .record _, _ => none
  | .as x p, v => match matchPat p v with
    | some b => some ((x, v) :: b)
    | none => none
def matchPats : List Pat → List Val → Option Env
  | [], _ => some []
  | p :: ps, v :: vs => match matchPat p v with
    | some b => match matchPats ps vs with
      | some b' => some (b' ++ b)
      | none => none
    | none => none
  | _ :: _, [] => none
def matchFields : List (Nat × Pat) → List Val → Option Env
  | [], _ => some []
  | (i, p) :: fs, vs => match vs[i]? with
    | some v => match matchPat p v with
      | some b => match matchFields fs vs with
        | some b' => some (b' ++ b)
        | none => none
      | none => none
    | none => none
end

def bindParams : List String → List Val → Env → Env
  | x :: xs, v :: vs, env => bindParams xs vs ((x, v) :: env)
  | _, _, env => env

def recEnv (group : List (String × List String × Expr)) (env : Env) : Env :=
  (group.zipIdx.map fun (b, i) => (b.1, Val.recclos group i env)).reverse ++ env

def buildRecord (layout : List Src) (fs : List Val) (base : List Val) : Option (List Val) :=
  layout.mapM fun
    | .field i => fs[i]?
    | .base j => base[j]?

mutual
def eval : Nat → Env → Expr → Res
  | 0, _, _ => .error .fuel
  | fuel + 1, env, e =>
    match e with
    | .int n => .ok (.int n)
    | .str s => .ok (.str s)
    | .var x => match lookup env x with
      | some v => .ok v
      | none => .error (.wrong "unbound")
    | .lam xs body => .ok (.clos xs body env)
    | .app f args =>
      match eval fuel env f with
      | .error e => .error e
      | .ok fv => match evalList fuel env args with
        | .error e => .error e
        | .ok vs => apply fuel fv vs
    | .let_ p e₁ e₂ =>
      match eval fuel env e₁ with
      | .error e => .error e
      | .ok v => match matchPat p v with
        | some b => eval fuel (b ++ env) e₂
        | none => .error .unmatched
    | .letrec binds body => eval fuel (recEnv binds env) body
    | .ite c a b =>
      match eval fuel env c with
      | .error e => .error e
      | .ok (.data 1 _) => eval fuel env a
      | .ok (.data 0 _) => eval fuel env b
      | .ok _ => .error (.wrong "if")
    | .prim op a b =>
      match eval fuel env a with
      | .error e => .error e
      | .ok (.int x) => match eval fuel env b with
        | .error e => .error e
        | .ok (.int y) => primOp op x y
        | .ok _ => .error (.wrong "prim")
      | .ok _ => .error (.wrong "prim")
    | .and_ a b =>
      match eval fuel env a with
      | .error e => .error e
      | .ok (.data 0 _) => .ok (boolVal false)
      | .ok (.data 1 _) => eval fuel env b
      | .ok _ => .error (.wrong "and")
    | .or_ a b =>
      match eval fuel env a with
      | .error e => .error e
      | .ok (.data 1 _) => .ok (boolVal true)
      | .ok (.data 0 _) => eval fuel env b
      | .ok _ => .error (.wrong "or")
    | .ctor tag arity => if arity = 0 then .ok (.data tag []) else .ok (.ctorfn tag arity)
    | .match_ s alts =>
      match eval fuel env s with
      | .error e => .error e
      | .ok v => evalAlts fuel env v alts
    | .record fields base layout =>
      match evalList fuel env fields with
      | .error e => .error e
      | .ok fs =>
        match base with
        | none => match buildRecord layout fs [] with
          | some vs => .ok (.data 0 vs)
          | none => .error (.wrong "record")
        | some be => match eval fuel env be with
          | .error e => .error e
          | .ok (.data _ bvs) => match buildRecord layout fs bvs with
            | some vs => .ok (.data 0 vs)
            | none => .error (.wrong "record")
          | .ok _ => .error (.wrong "record-base")
    | .proj e i =>
      match eval fuel env e with
      | .error e => .error e
      | .ok (.data _ vs) => match vs[i]? with
        | some v => .ok v
        | none => .error (.wrong "proj")
      | .ok _ => .error (.wrong "proj")
    | .array es =>
      match evalList fuel env es with
      | .error e => .error e
      | .ok vs => .ok (.arr vs)
    | .error msg => .error (.user msg)
def evalList : Nat → Env → List Expr → Except Err (List Val)
  | 0, _, _ => .error .fuel
  | _ + 1, _, [] => .ok []
  | fuel + 1, env, e :: es =>
    match eval fuel env e with
    | .error e => .error e
    | .ok v => match evalList fuel env es with
      | .error e => .error e
      | .ok vs => .ok (v :: vs)
def evalAlts : Nat → Env → Val → List (Pat × Expr) → Res
  | 0, _, _, _ => .error .fuel
  | _ + 1, _, _, [] => .error .unmatched
  | fuel + 1, env, v, (p, e) :: alts =>
    match matchPat p v with
    | some b => eval fuel (b ++ env) e
    | none => evalAlts fuel env v alts
def apply : Nat → Val → List Val → Res
  | 0, _, _ => .error .fuel
  | _ + 1, f, [] => .ok f
  | fuel + 1, f, args =>
    match f with
    | .clos params body env =>
      let n := params.length
      if args.length < n then .ok (.pap f args)
      else
        match eval fuel (bindParams params (args.take n) env) body with
        | .error e => .error e
        | .ok r => apply fuel r (args.drop n)
    | .recclos group idx env =>
      match group[idx]? with
      | none => .error (.wrong "recclos")
      | some (_, params, body) =>
        let n := params.length
        if n = 0 then
          -- a recursive *value*: evaluate it, then apply
          match eval fuel (recEnv group env) body with
          | .error e => .error e
          | .ok r => apply fuel r args
        else if args.length < n then .ok (.pap f args)
        else
          match eval fuel (bindParams params (args.take n) (recEnv group env)) body with
          | .error e => .error e
          | .ok r => apply fuel r (args.drop n)
    | .ctorfn tag arity =>
      if args.length < arity then .ok (.pap f args)
      else if args.length = arity then .ok (.data tag args)
      else .error (.wrong "ctor-overapplied")
    | .pap g args₀ => apply fuel g (args₀ ++ args)
    | _ => .error (.wrong "call")
end

end GluonModel.Surf
