/-
`SurfTyElab`: UNTRUSTED elaborator used by the C02 driver. It finds the binder annotations the
verified checker `inferA` needs (Hindley-Milner inference by unification with generalisation at
`let x = e` and instantiation at variables; projections from records of still unknown type are
deferred and the types they mention are not generalised). Nothing is proved about it and nothing needs to be: its output
is re-checked by `inferA` (sound by `inferA_sound`), and the program that is evaluated is the
erasure of that checked output.

Encoding tricks (local to this file):
  * meta variables are `STy.named (metaBase + n)`;
  * constructor expressions / patterns arrive with the declaration index folded into the tag:
    `tag' = decl * 1000 + tag` (see `encodeAnn`), because `Surf.Expr` has no slot for it.
-/
import GluonModel.Sexp
import GluonModel.Surf
import GluonModel.SurfTy
import GluonModel.SurfTyCheck
namespace GluonModel.SurfTy.Elab
open GluonModel GluonModel.Surf GluonModel.SurfTy

def metaBase : Nat := 1000000

/-- `(ctor D T N)` → `(ctor (D*1000+T) N)`, `(pc D T …)` → `(pc (D*1000+T) …)` -/
partial def encodeAnn : Sexp → Sexp
  | .list [.atom "ctor", d, t, n] =>
    match d.toNat?, t.toNat? with
    | some d, some t => .list [.atom "ctor", .atom (toString (d * 1000 + t)), n]
    | _, _ => .list [.atom "ctor", t, n]
  | .list (.atom "pc" :: d :: t :: rest) =>
    match d.toNat?, t.toNat? with
    | some d, some t => .list (.atom "pc" :: .atom (toString (d * 1000 + t)) :: rest.map encodeAnn)
    | _, _ => .list (.atom "pc" :: t :: rest.map encodeAnn)
  | .list xs => .list (xs.map encodeAnn)
  | s => s

structure St where
  subst : Array (Option STy) := #[]
  deferred : List (STy × Nat × STy) := []   -- (record type, field index, field type)
  /-- generalise at `let x = e`? (off = the monomorphic elaborator) -/
  gen : Bool := true

abbrev EM := StateT St (Except String)

def fresh : EM STy := do
  let s ← get
  set { s with subst := s.subst.push none }
  pure (.named (metaBase + s.subst.size))

partial def resolve (t : STy) : EM STy := do
  match t with
  | .named k =>
    if k ≥ metaBase then
      match (← get).subst[k - metaBase]? with
      | some (some u) => resolve u
      | _ => pure t
    else pure t
  | _ => pure t

partial def occurs (m : Nat) (t : STy) : EM Bool := do
  match ← resolve t with
  | .named k => pure (k == m)
  | .fn a b => do
    if ← occurs m a then pure true else occurs m b
  | .recd fs => fs.anyM (occurs m)
  | .arr a => occurs m a
  | _ => pure false

partial def unify (a b : STy) : EM Unit := do
  let a ← resolve a
  let b ← resolve b
  let bind (k : Nat) (t : STy) : EM Unit := do
    if ← occurs k t then throw "occurs check"
    modify fun s => { s with subst := s.subst.set! (k - metaBase) (some t) }
  match a, b with
  | .named k, .named j =>
    if k == j then pure ()
    else if k ≥ metaBase then bind k b
    else if j ≥ metaBase then bind j a
    else throw s!"type mismatch named {k} / named {j}"
  | .named k, t => if k ≥ metaBase then bind k t else throw "type mismatch (named)"
  | t, .named k => if k ≥ metaBase then bind k t else throw "type mismatch (named)"
  | .int, .int => pure ()
  | .str, .str => pure ()
  | .bool, .bool => pure ()
  | .fn a b, .fn c d => do unify a c; unify b d
  | .recd as, .recd bs =>
    if as.length != bs.length then throw "record arity mismatch"
    else for (x, y) in as.zip bs do unify x y
  | .arr a, .arr b => unify a b
  | .tvar a, .tvar b => if a == b then pure () else throw "type mismatch (rigid variables)"
  | _, _ => throw "type mismatch"

def field (r : STy) (i : Nat) : EM STy := do
  match ← resolve r with
  | .recd fs =>
    match fs[i]? with
    | some t => pure t
    | none => throw "no such field"
  | r' =>
    let t ← fresh
    modify fun s => { s with deferred := (r', i, t) :: s.deferred }
    pure t

def decodePatTag (t : Nat) : Nat × Nat := (t / 1000, t % 1000)

mutual
partial def patElab (D : Decls) : Pat → STy → EM (Pat × MCtx)
  | .wild, _ => pure (.wild, [])
  | .var x, τ => pure (.var x, [(x, τ)])
  | .int n, τ => do unify τ .int; pure (.int n, [])
  | .str s, τ => do unify τ .str; pure (.str s, [])
  | .ctor t ps, τ => do
    let (d, tag) := decodePatTag t
    unify τ (.named d)
    match D d tag with
    | none => throw "unknown constructor in pattern"
    | some τs =>
      if τs.length != ps.length then throw "constructor pattern arity"
      let mut out : List Pat := []
      let mut Δ : MCtx := []
      for (p, t) in ps.zip τs do
        let (p', Δ₁) ← patElab D p t
        out := out ++ [p']
        Δ := Δ₁ ++ Δ
      -- `PatsType` accumulates later bindings in front: Δ₂ ++ Δ₁ with Δ₂ from the tail
      pure (.ctor tag out, Δ)
  | .record fs, τ => do
    let mut out : List (Nat × Pat) := []
    let mut Δ : MCtx := []
    for (i, p) in fs do
      let t ← field τ i
      let (p', Δ₁) ← patElab D p t
      out := out ++ [(i, p')]
      Δ := Δ₁ ++ Δ
    pure (.record out, Δ)
  | .as x p, τ => do
    let (p', Δ) ← patElab D p τ
    pure (.as x p', (x, τ) :: Δ)
end

def appTy : STy → List STy → EM STy
  | φ, [] => pure φ
  | φ, s :: ss => do
    match ← resolve φ with
    | .fn a b => do unify a s; appTy b ss
    | φ' => do
      let r ← fresh
      unify φ' (.fn s r)
      appTy r ss

/-- fully resolved form of a type -/
partial def deep (t : STy) : EM STy := do
  match ← resolve t with
  | .fn a b => do pure (.fn (← deep a) (← deep b))
  | .recd fs => do pure (.recd (← fs.mapM deep))
  | .arr a => do pure (.arr (← deep a))
  | t => pure t

/-- the meta variables of a fully resolved type -/
partial def metasIn : STy → List Nat
  | .named k => if k ≥ metaBase then [k] else []
  | .fn a b => metasIn a ++ metasIn b
  | .recd fs => fs.foldl (fun acc t => acc ++ metasIn t) []
  | .arr a => metasIn a
  | _ => []

/-- the meta variables that must stay monomorphic: those of the context and those that pending
    field constraints mention (a deferred projection ties its field type to a record type that may
    belong to the context) -/
def envMetas (Γ : PCtx) : EM (List Nat) := do
  let mut out : List Nat := []
  for (_, (_, t)) in Γ do
    out := metasIn (← deep t) ++ out
  for (r, _, t) in (← get).deferred do
    out := metasIn (← deep r) ++ metasIn (← deep t) ++ out
  pure out

/-- HM generalisation: the unresolved meta variables of `σ` that are not reachable from the
    context become (rigid) type variables, numbered like the meta variable they were -/
def generalise (Γ : PCtx) (σ : STy) : EM (List Nat) := do
  if !(← get).gen then return []
  let ms := (metasIn (← deep σ)).eraseDups
  if ms.isEmpty then return []
  let env ← envMetas Γ
  let gs := ms.filter fun m => !env.contains m
  for m in gs do
    modify fun s => { s with subst := s.subst.set! (m - metaBase) (some (.tvar m)) }
  pure gs

def toAList : List AExpr → AList
  | [] => .nil
  | e :: es => .cons e (toAList es)

mutual
partial def elabE (D : Decls) (Γ : PCtx) : Expr → EM (AExpr × STy)
  | .int n => pure (.int n, .int)
  | .str s => pure (.str s, .str)
  | .var x =>
    match lookupCtx Γ x with
    | some ([], t) => pure (.var x [], t)
    | some (vs, t) => do
      -- instantiation with fresh meta variables
      let ms ← vs.mapM fun _ => fresh
      pure (.var x ms, (← deep t).subst (instSub vs ms))
    | none => throw s!"unbound {x}"
  | .lam xs body => do
    let ts ← xs.mapM fun _ => fresh
    let (b, ρ) ← elabE D (bindP xs ts Γ) body
    pure (.lam (xs.zip ts) b, funTy ts ρ)
  | .app f args => do
    let (f', φ) ← elabE D Γ f
    let as ← args.mapM (elabE D Γ)
    let τ ← appTy φ (as.map Prod.snd)
    pure (.app f' (toAList (as.map Prod.fst)), τ)
  | .let_ p e₁ e₂ => do
    let (a₁, σ) ← elabE D Γ e₁
    match p with
    | .var x => do
      let vs ← generalise Γ σ
      let (a₂, τ) ← elabE D ((x, (vs, σ)) :: Γ) e₂
      pure (.letp x vs a₁ a₂, τ)
    | _ => do
      let (p', Δ) ← patElab D p σ
      let (a₂, τ) ← elabE D (liftP Δ ++ Γ) e₂
      pure (.let_ p' a₁ a₂, τ)
  | .letrec binds body => do
    let sigs ← binds.mapM fun (_, xs, _) => do
      let ts ← xs.mapM fun _ => fresh
      let r ← fresh
      pure (ts, r)
    let τs := sigs.map fun (ts, r) => funTy ts r
    let Γ' := recP binds τs Γ
    let mut out : List (String × List (String × STy) × STy × AExpr) := []
    for ((f, xs, e), (ts, r)) in binds.zip sigs do
      let (b, ρ) ← elabE D (bindP xs ts Γ') e
      unify ρ r
      out := out ++ [(f, xs.zip ts, r, b)]
    let (b, τ) ← elabE D Γ' body
    let ab := out.foldr (fun (f, ps, r, e) acc => ABinds.cons f ps r e acc) ABinds.nil
    pure (.letrec ab b, τ)
  | .ite c a b => do
    let (c', tc) ← elabE D Γ c
    unify tc .bool
    let (a', ta) ← elabE D Γ a
    let (b', tb) ← elabE D Γ b
    unify ta tb
    pure (.ite c' a' b', ta)
  | .prim op a b => do
    let (a', ta) ← elabE D Γ a
    unify ta .int
    let (b', tb) ← elabE D Γ b
    unify tb .int
    pure (.prim op a' b', if isIntOp op then .int else .bool)
  | .and_ a b => do
    let (a', ta) ← elabE D Γ a
    unify ta .bool
    let (b', tb) ← elabE D Γ b
    unify tb .bool
    pure (.and_ a' b', .bool)
  | .or_ a b => do
    let (a', ta) ← elabE D Γ a
    unify ta .bool
    let (b', tb) ← elabE D Γ b
    unify tb .bool
    pure (.or_ a' b', .bool)
  | .ctor t arity => do
    let (d, tag) := decodePatTag t
    if d == 3 then pure (.bool (tag == 1), .bool)
    else match D d tag with
      | some τs => pure (.ctor d tag arity, funTy τs (.named d))
      | none => throw "unknown constructor"
  | .match_ s alts => do
    let (s', σ) ← elabE D Γ s
    let t ← fresh
    let mut out : List (Pat × AExpr) := []
    for (p, e) in alts do
      let (p', Δ) ← patElab D p σ
      let (e', τ) ← elabE D (liftP Δ ++ Γ) e
      unify τ t
      out := out ++ [(p', e')]
    let aalts := out.foldr (fun (p, e) acc => AAlts.cons p e acc) AAlts.nil
    pure (.match_ s' aalts t, t)
  | .record fields base layout => do
    let fs ← fields.mapM (elabE D Γ)
    let σs := fs.map Prod.snd
    let (base', β) ← match base with
      | none => pure (none, STy.recd [])
      | some be => do
        let (b', β) ← elabE D Γ be
        pure (some b', β)
    let τs ← layout.mapM fun
      | .field i => match σs[i]? with
        | some t => pure t
        | none => throw "layout: no such explicit field"
      | .base j => field β j
    pure (.record (toAList (fs.map Prod.fst)) base' layout, .recd τs)
  | .proj e i => do
    let (e', r) ← elabE D Γ e
    let t ← field r i
    pure (.proj e' i, t)
  | .array es => do
    let t ← fresh
    let as ← es.mapM (elabE D Γ)
    for (_, τ) in as do unify τ t
    pure (.array t (toAList (as.map Prod.fst)), .arr t)
  | .error msg => do
    let t ← fresh
    pure (.error msg t, t)
end

/-- discharge deferred field constraints; a record type that stays unknown gets the smallest
    record type that satisfies the constraints on it -/
partial def solveDeferred : EM Unit := do
  let ds := (← get).deferred
  if ds.isEmpty then return
  modify fun s => { s with deferred := [] }
  let mut progress := false
  let mut rest : List (STy × Nat × STy) := []
  for (r, i, t) in ds do
    match ← resolve r with
    | .recd fs =>
      match fs[i]? with
      | some ft => unify ft t; progress := true
      | none => throw "no such field (deferred)"
    | r' => rest := (r', i, t) :: rest
  -- constraints added while unifying are already in the state; put back the unresolved ones
  modify fun s => { s with deferred := rest ++ s.deferred }
  if progress then solveDeferred
  else
    match rest with
    | [] => if (← get).deferred.isEmpty then pure () else solveDeferred
    | (r, _, _) :: _ =>
      match r with
      | .named k =>
        if k ≥ metaBase then
          let mut n := 0
          for (r2, i, _) in rest do
            match ← resolve r2 with
            | .named k2 => if k2 == k then n := max n (i + 1)
            | _ => pure ()
          let mut fs : List STy := []
          for _ in [0:n] do
            fs := (← fresh) :: fs
          unify r (.recd fs)
          solveDeferred
        else throw "projection from a non-record"
      | _ => throw "projection from a non-record"

partial def zonk (t : STy) : EM STy := do
  match ← resolve t with
  | .named k => pure (if k ≥ metaBase then .recd [] else .named k)
  | .fn a b => do pure (.fn (← zonk a) (← zonk b))
  | .recd fs => do pure (.recd (← fs.mapM zonk))
  | .arr a => do pure (.arr (← zonk a))
  | t => pure t

mutual
partial def zonkA : AExpr → EM AExpr
  | .lam xs b => do
    let xs' ← xs.mapM fun (x, t) => do pure (x, ← zonk t)
    pure (.lam xs' (← zonkA b))
  | .app f args => do pure (.app (← zonkA f) (← zonkL args))
  | .var x insts => do pure (.var x (← insts.mapM zonk))
  | .let_ p a b => do pure (.let_ p (← zonkA a) (← zonkA b))
  | .letp x vs a b => do pure (.letp x vs (← zonkA a) (← zonkA b))
  | .letrec bs b => do pure (.letrec (← zonkB bs) (← zonkA b))
  | .ite c a b => do pure (.ite (← zonkA c) (← zonkA a) (← zonkA b))
  | .prim op a b => do pure (.prim op (← zonkA a) (← zonkA b))
  | .and_ a b => do pure (.and_ (← zonkA a) (← zonkA b))
  | .or_ a b => do pure (.or_ (← zonkA a) (← zonkA b))
  | .match_ s alts t => do pure (.match_ (← zonkA s) (← zonkAlts alts) (← zonk t))
  | .record fs none l => do pure (.record (← zonkL fs) none l)
  | .record fs (some b) l => do pure (.record (← zonkL fs) (some (← zonkA b)) l)
  | .proj e i => do pure (.proj (← zonkA e) i)
  | .array t es => do pure (.array (← zonk t) (← zonkL es))
  | .error m t => do pure (.error m (← zonk t))
  | e => pure e
partial def zonkL : AList → EM AList
  | .nil => pure .nil
  | .cons e es => do pure (.cons (← zonkA e) (← zonkL es))
partial def zonkAlts : AAlts → EM AAlts
  | .nil => pure .nil
  | .cons p e r => do pure (.cons p (← zonkA e) (← zonkAlts r))
partial def zonkB : ABinds → EM ABinds
  | .nil => pure .nil
  | .cons f ps r e rest => do
    let ps' ← ps.mapM fun (x, t) => do pure (x, ← zonk t)
    pure (.cons f ps' (← zonk r) (← zonkA e) (← zonkB rest))
end

/-- elaborate a closed program against its expected type -/
def elabProgram (D : Decls) (e : Expr) (τ : STy) : Except String AExpr :=
  let m : EM AExpr := do
    let (a, t) ← elabE D [] e
    unify t τ
    solveDeferred
    zonkA a
  match m.run {} with
  | .ok (a, _) => .ok a
  | .error msg => .error msg

/-- elaborate a closed program with no expected type (its type is whatever inference finds;
    unresolved variables default to unit) -/
def elabProgramInfer (D : Decls) (e : Expr) (gen : Bool := true) : Except String AExpr :=
  let m : EM AExpr := do
    let (a, _) ← elabE D [] e
    solveDeferred
    zonkA a
  match m.run { gen := gen } with
  | .ok (a, _) => .ok a
  | .error msg => .error msg

end GluonModel.SurfTy.Elab
