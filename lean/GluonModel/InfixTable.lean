/-
`OpTable::get` of parser/src/infix.rs:103–193 for names without an explicit `#[infix]` entry:
names starting with `#` (and `&&`, `||`) are looked up in the built-in table after stripping the
leading `#`s and the alphanumeric type prefix (`#Int+` ↦ `+`).
The table itself is regenerated from the Rust source on every run (`Generated/OpTable.lean`).
-/
import GluonModel.Infix
import GluonModel.Generated.OpTable
namespace GluonModel.Infix
open GluonModel.Generated.OpTable

/-- `name.trim_start_matches('#').trim_start_matches(char::is_alphanumeric)` on characters -/
def stripPrefixL (name : List Char) : List Char :=
  (name.dropWhile (· == '#')).dropWhile Char.isAlphanum

def stripPrefix (name : String) : String := String.ofList (stripPrefixL name.toList)

def lookupOps (ops : List (String × OpMeta)) (op : String) : Option OpMeta :=
  match ops with
  | [] => none
  | (n, m) :: rest => if n = op then some m else lookupOps rest op

def builtinMeta (name : String) : Option OpMeta :=
  if name.startsWith "#" || name = "&&" || name = "||" then
    lookupOps builtinOps (stripPrefix name)
  else none

end GluonModel.Infix
