/-
C18 — model of the type printer and of the type grammar.

Printer: base/src/types/mod.rs:2503-3017 (`Prec`, `Prec::enclose`, `DisplayType::pretty_`,
`pretty_record_like`, `pretty_row`, `pretty_function_`, `is_tuple` :2576; line numbers after
`is_tuple` are those before commit 35ef2d5, which added 7 lines there) and
base/src/types/pretty_print.rs:15 (`ident`).  The `pretty` document combinators `group`, `nest`,
`line`, `hardline` only produce white space, so the model prints the *token stream*; the line
width never enters (the harness checks on the real code that the token stream is the same at
every width).

Grammar: parser/src/grammar.lalrpop:293-550 (`RecordField`, `VariantField`, `VariantType`,
`TypeTop`, `Effect`, `AtomicType_`, `AppType_`, `Type_`, `ArgType`) as a recursive-descent parser
over the same token stream (fuel = recursion depth).

The type representation follows the Rust one: rows are types (`EmptyRow`, `ExtendRow`,
`ExtendTypeRow`; here one field per node), `App` is binary (the Rust `App(f, [a, b])` and
`App(App(f, [a]), [b])` both print as `f a b`: base/src/types/mod.rs:2661 prints the head at
`Prec::Top`), builtin types / identifiers / aliases are all `con` (they print their name,
mod.rs:2751, 2783, 2790).
-/
namespace GluonModel.TypePrint

inductive Tok where
  | id (s : String)
  | op (s : String)
  | lparen | rparen | lbrace | rbrace | lbracket | rbracket | comma
  | arrow | pipe | colon | eq | dot | dotdot | kwForall
  deriving DecidableEq, Repr, Inhabited

def Tok.text : Tok → String
  | .id s => s | .op s => s
  | .lparen => "(" | .rparen => ")" | .lbrace => "{" | .rbrace => "}"
  | .lbracket => "[" | .rbracket => "]" | .comma => ","
  | .arrow => "->" | .pipe => "|" | .colon => ":" | .eq => "=" | .dot => "." | .dotdot => ".."
  | .kwForall => "forall"

inductive Ty where
  | hole
  | opaque
  | con (n : String)
  | var (n : String)
  | arrow
  | proj (ids : List String)
  | fn (implicit : Bool) (a r : Ty)
  | all (vs : List String) (b : Ty)
  | app (f a : Ty)
  | rnil
  | rfield (n : String) (t : Ty) (rest : Ty)
  | rtype (n : String) (ps : List String) (t : Ty) (rest : Ty)
  /-- `cut` = number of fields of the *first* `ExtendRow` node of the row (the Rust row is a
      chain of `ExtendRow { fields: Vec, rest }`; `Type::record` builds one node, substituting a
      row variable gives several). -/
  | record (cut : Nat) (row : Ty)
  | variant (row : Ty)
  | effect (row : Ty)
  deriving DecidableEq, Repr, Inhabited

/-- base/src/types/mod.rs:2504 -/
inductive Prec where
  | top | function | constructor
  deriving DecidableEq, Repr

def Prec.rank : Prec → Nat
  | .top => 0 | .function => 1 | .constructor => 2

/-- base/src/types/mod.rs:2517 `Prec::enclose`: parenthesise iff `self >= limit`. -/
def enclose (p limit : Prec) (d : List Tok) : List Tok :=
  if limit.rank ≤ p.rank then [.lparen] ++ d ++ [.rparen] else d

/-- base/src/ast.rs:1173 `is_operator_byte`. -/
def opChars : List Char :=
  ['!', '#', '$', '%', '&', '*', '+', '-', '.', '/', '<', '=', '>', '?', '@', '\\', '^', '|', '~', ':']

def isOpName (s : String) : Bool :=
  match s.toList with
  | c :: _ => opChars.contains c
  | [] => false

def startsUpper (s : String) : Bool :=
  match s.toList with
  | c :: _ => c.isUpper
  | [] => false

/-- base/src/types/pretty_print.rs:15 `ident`. -/
def identToks (n : String) : List Tok :=
  if isOpName n then [.lparen, .op n, .rparen] else [.id n]

def dotted : List String → List Tok
  | [] => []
  | [x] => [.id x]
  | x :: xs => .id x :: .dot :: dotted xs

/-- mod.rs:1281 `is_simple_constructor`. -/
def isSimple : Ty → Bool
  | .fn _ _ r => isSimple r
  | .opaque => true
  | _ => false

def hasTypeField : Ty → Bool
  | .rtype .. => true
  | .rfield _ _ rest => hasTypeField rest
  | _ => false

/-- fields named `_0`, `_1`, … from index `i` on (mod.rs:2584). -/
def tupleNames : Nat → Ty → Bool
  | i, .rfield n _ rest => n == "_" ++ toString i && tupleNames (i + 1) rest
  | i, .rtype _ _ _ rest => tupleNames i rest
  | _, _ => true

/-- the row ends in `EmptyRow` (mod.rs:2594 `matches!(**fields.current_type(), Type::EmptyRow)`) -/
def rowClosed : Ty → Bool
  | .rfield _ _ rest => rowClosed rest
  | .rtype _ _ _ rest => rowClosed rest
  | .rnil => true
  | _ => false

def fieldsLen : Ty → Nat
  | .rfield _ _ rest => fieldsLen rest + 1
  | .rtype _ _ _ rest => fieldsLen rest
  | _ => 0

/-- mod.rs:2576-2598 `is_tuple` (on the row of a `Record`) as of commit 35ef2d5: no type fields,
    fields named `_0 … _n-1` in order, `n ≠ 1`, closed row. -/
def isTuple (row : Ty) : Bool :=
  !hasTypeField row && tupleNames 0 row && fieldsLen row != 1 && rowClosed row

/-- `is_tuple` before commit 35ef2d5: neither the number of fields nor the row tail was looked
    at (kept for the regression theorems `…_old_rule_fails`). -/
def isTupleOld (row : Ty) : Bool := !hasTypeField row && tupleNames 0 row

def typesLen : Ty → Nat
  | .rtype _ _ _ rest => typesLen rest + 1
  | .rfield _ _ rest => typesLen rest
  | _ => 0

mutual
/-- mod.rs:2617 `pretty_`. -/
def print : Prec → Ty → List Tok
  | _, .hole => [.id "_"]
  | _, .opaque => [.op "<", .id "opaque", .op ">"]
  | _, .con n => [.id n]
  | _, .var n => [.id n]
  | _, .arrow => [.lparen, .arrow, .rparen]
  | _, .proj ids => dotted ids
  -- mod.rs:2657 + 2977-3017: `pretty_function_` prints the argument at `Prec::Function`
  -- (in brackets when implicit), then `->`, then the result through `top(ret).pretty_function_`,
  -- which for every `ret` produces the tokens of `top(ret).pretty_`.
  | p, .fn i a r =>
    enclose p .function
      ((if i then [.lbracket] ++ print .function a ++ [.rbracket] else print .function a)
        ++ [.arrow] ++ print .top r)
  -- mod.rs:2630
  | p, .all vs b => enclose p .function ([.kwForall] ++ vs.map .id ++ [.dot] ++ print .top b)
  -- mod.rs:2658-2669 (head at Top, arguments at Constructor)
  | p, .app f a => enclose p .constructor (print .top f ++ print .constructor a)
  | _, .rnil => [.id "EmptyRow"]
  -- mod.rs:2770 a bare row is never displayed on its own (only inside Record/Variant/Effect)
  | _, .rfield _ _ _ => [.id "<row>"]
  | _, .rtype _ _ _ _ => [.id "<row>"]
  -- mod.rs:2755-2769
  | _, .record cut row =>
    -- mod.rs:2794-2831 `pretty_record_like` + 2833-2975 `pretty_row`: type fields, value fields,
    -- then `| tail` unless the row ends in `EmptyRow`
    -- a tuple prints no field names (mod.rs:2757 `&mut |_| arena.nil()`)
    if isTuple row then
      [.lparen] ++ printTypes (typesLen row) (cut != 0) 0 row ++ printFields false cut 0 row
        ++ rowTail row ++ [.rparen]
    else
      [.lbrace] ++ printTypes (typesLen row) (cut != 0) 0 row ++ printFields true cut 0 row
        ++ rowTail row ++ [.rbrace]
  -- mod.rs:2671-2734
  | p, .variant row => enclose p .constructor (printVariant row)
  -- mod.rs:2736-2749 (effect rows are only modelled with a single `ExtendRow` node)
  | _, .effect row =>
    [.lbracket, .pipe] ++ printFields true (fieldsLen row) 0 row ++ rowTail row ++ [.pipe, .rbracket]

/-- mod.rs:2871-2907: the type fields `Name params = type` with a comma unless it is the last
    type field and no value field follows. -/
def printTypes : Nat → Bool → Nat → Ty → List Tok
  | total, anyField, i, .rtype n ps t rest =>
    [.id n] ++ ps.map .id ++ [.eq] ++ print .top t
      ++ (if i + 1 != total || anyField then [.comma] else [])
      ++ printTypes total anyField (i + 1) rest
  | total, anyField, i, .rfield _ _ rest => printTypes total anyField i rest
  | _, _, _, _ => []

/-- mod.rs:2909-2944: the value fields; the comma test is `i + 1 != fields.len()` where `fields`
    are those of the first `ExtendRow` node only (mod.rs:2847-2856) while `i` counts over the
    whole chain. -/
def printFields : Bool → Nat → Nat → Ty → List Tok
  | named, cut, i, .rfield n t rest =>
    (if named then identToks n ++ [.colon] else []) ++ print .top t
      ++ (if i + 1 != cut then [.comma] else []) ++ printFields named cut (i + 1) rest
  | named, cut, i, .rtype _ _ _ rest => printFields named cut i rest
  | _, _, _, _ => []

/-- mod.rs:2968-2974 -/
def rowTail : Ty → List Tok
  | .rfield _ _ rest => rowTail rest
  | .rtype _ _ _ rest => rowTail rest
  | .rnil => []
  | other => [.pipe] ++ print .top other

/-- mod.rs:2676-2731 -/
def printVariant : Ty → List Tok
  | .rnil => []
  | .rfield n t rest =>
    [.pipe, .id n] ++ (if isSimple t then ctorArgs t else [.colon] ++ print .top t) ++ printVariant rest
  | other => [.dotdot] ++ print .top other

/-- mod.rs:2698 `arg_iter(&field.typ)` each at `Prec::Constructor`. -/
def ctorArgs : Ty → List Tok
  | .fn _ a r => print .constructor a ++ ctorArgs r
  | _ => []
end

/-! ## The grammar -/

def atomStart : Tok → Bool
  | .id _ | .lparen | .lbrace | .lbracket => true
  | _ => false

def typeStart : Tok → Bool
  | .kwForall => true
  | t => atomStart t

/-- grammar.lalrpop:448-462: `_` is a hole, an upper-case name an identifier (or builtin), any
    other name a generic. -/
def classify (s : String) : Ty :=
  if s = "_" then .hole else if startsUpper s then .con s else .var s

/-- `IdentStr` (grammar.lalrpop:148): an identifier or a parenthesised operator. -/
def pIdent : List Tok → Option (String × List Tok)
  | .id s :: ts => some (s, ts)
  | .lparen :: .op s :: .rparen :: ts => some (s, ts)
  | _ => none

/-- `Ident*` -/
def pIdents : List Tok → List String × List Tok
  | .id s :: ts => let r := pIdents ts; (s :: r.1, r.2)
  | .lparen :: .op s :: .rparen :: ts => let r := pIdents ts; (s :: r.1, r.2)
  | ts => ([], ts)

/-- the `. ident` continuation of a projection (grammar.lalrpop:448) -/
def pProjTail : List Tok → List String × List Tok
  | .dot :: .id s :: ts => let r := pProjTail ts; (s :: r.1, r.2)
  | ts => ([], ts)

def tupleRow : Nat → List Ty → Ty
  | _, [] => .rnil
  | i, t :: ts => .rfield ("_" ++ toString i) t (tupleRow (i + 1) ts)

def mkRow (types : List (String × List String × Ty)) (fields : List (String × Ty)) (rest : Ty) : Ty :=
  types.foldr (fun x acc => .rtype x.1 x.2.1 x.2.2 acc)
    (fields.foldr (fun x acc => .rfield x.1 x.2 acc) rest)

def mkCtor (args : List Ty) : Ty := args.foldr (fun a acc => .fn false a acc) .opaque

/-- grammar.lalrpop:401-408: every arrow on the spine of a GADT-style constructor's type gets
    `ArgType::Constructor` — an implicit-argument marker there is dropped. -/
def ctorize : Ty → Ty
  | .fn _ a r => .fn false a (ctorize r)
  | t => t

mutual
/-- `Type_` (grammar.lalrpop:526-540) -/
def pType : Nat → List Tok → Option (Ty × List Tok)
  | 0, _ => none
  | f + 1, .kwForall :: ts =>
    match pIdents ts with
    | (v :: vs, .dot :: ts') =>
      match pType f ts' with
      | some (b, r) => some (.all (v :: vs) b, r)
      | none => none
    | _ => none
  | f + 1, .lbracket :: .pipe :: ts => pFunTail f (.lbracket :: .pipe :: ts)
  -- `ArgType` implicit form (grammar.lalrpop:548)
  | f + 1, .lbracket :: ts =>
    match pType f ts with
    | some (a, .rbracket :: .arrow :: ts') =>
      match pType f ts' with
      | some (r, rest) => some (.fn true a r, rest)
      | none => none
    | _ => none
  | f + 1, ts => pFunTail f ts

/-- `AppType` optionally followed by `-> Type` -/
def pFunTail : Nat → List Tok → Option (Ty × List Tok)
  | 0, _ => none
  | f + 1, ts =>
    match pApp f ts with
    | some (a, .arrow :: ts') =>
      match pType f ts' with
      | some (r, rest) => some (.fn false a r, rest)
      | none => none
    | some (a, rest) => some (a, rest)
    | none => none

/-- `AppType_` (grammar.lalrpop:515) -/
def pApp : Nat → List Tok → Option (Ty × List Tok)
  | 0, _ => none
  | f + 1, ts =>
    match pAtomic f ts with
    | some (h, ts') => pArgs f h ts'
    | none => none

def pArgs : Nat → Ty → List Tok → Option (Ty × List Tok)
  | 0, _, _ => none
  | _ + 1, h, [] => some (h, [])
  | f + 1, h, t :: ts =>
    if atomStart t then
      match pAtomic f (t :: ts) with
      | some (a, ts') => pArgs f (.app h a) ts'
      | none => none
    else some (h, t :: ts)

/-- `AtomicType_` (grammar.lalrpop:444-509) -/
def pAtomic : Nat → List Tok → Option (Ty × List Tok)
  | 0, _ => none
  | _ + 1, .id s :: ts =>
    match pProjTail ts with
    | ([], _) => some (classify s, ts)
    | (more, ts') => some (.proj (s :: more), ts')
  | _ + 1, .lparen :: .arrow :: .rparen :: ts => some (.arrow, ts)
  | f + 1, .lparen :: .dotdot :: ts =>
    match pAtomic f ts with
    | some (r, .rparen :: ts') => some (.variant r, ts')
    | _ => none
  | f + 1, .lparen :: ts =>
    match pCommaTypes f ts with
    | some ([t], .rparen :: ts') => some (t, ts')
    | some (elems, .rparen :: ts') => some (.record elems.length (tupleRow 0 elems), ts')
    | _ => none
  | f + 1, .lbrace :: ts =>
    match pFields f ts with
    | some (types, fields, .pipe :: ts') =>
      match pType f ts' with
      | some (rest, .rbrace :: ts'') => some (.record fields.length (mkRow types fields rest), ts'')
      | _ => none
    | some (types, fields, .rbrace :: ts') => some (.record fields.length (mkRow types fields .rnil), ts')
    | _ => none
  | f + 1, .lbracket :: .pipe :: ts =>
    match pEffFields f ts with
    | some (fields, .pipe :: .rbracket :: ts') => some (.effect (mkRow [] fields .rnil), ts')
    | some (fields, .pipe :: ts') =>
      match pType f ts' with
      | some (rest, .pipe :: .rbracket :: ts'') => some (.effect (mkRow [] fields rest), ts'')
      | _ => none
    | _ => none
  | _, _ => none

/-- `CommaTemp<Type>` -/
def pCommaTypes : Nat → List Tok → Option (List Ty × List Tok)
  | 0, _ => none
  | _ + 1, [] => some ([], [])
  | f + 1, t :: ts =>
    if typeStart t then
      match pType f (t :: ts) with
      | some (x, .comma :: ts') =>
        match pCommaTypes f ts' with
        | some (xs, r) => some (x :: xs, r)
        | none => none
      | some (x, r) => some ([x], r)
      | none => none
    else some ([], t :: ts)

/-- `CommaTemp<RecordField>` (grammar.lalrpop:305-350) -/
def pFields : Nat → List Tok →
    Option (List (String × List String × Ty) × List (String × Ty) × List Tok)
  | 0, _ => none
  | f + 1, ts =>
    match pIdent ts with
    | none => some ([], [], ts)
    | some (name, .colon :: ts2) =>
      if startsUpper name then none else
      match pType f ts2 with
      | some (t, .comma :: ts3) =>
        match pFields f ts3 with
        | some (tys, fs, r) => some (tys, (name, t) :: fs, r)
        | none => none
      | some (t, r) => some ([], [(name, t)], r)
      | none => none
    | some (name, ts1) =>
      match pIdents ts1 with
      | (ps, .eq :: ts2) =>
        match pType f ts2 with
        | some (t, .comma :: ts3) =>
          match pFields f ts3 with
          | some (tys, fs, r) => some ((name, ps, t) :: tys, fs, r)
          | none => none
        | some (t, r) => some ([(name, ps, t)], [], r)
        | none => none
      | ([], .comma :: ts3) =>
        match pFields f ts3 with
        | some (tys, fs, r) => some ((name, [], .hole) :: tys, fs, r)
        | none => none
      | ([], r) => some ([(name, [], .hole)], [], r)
      | _ => none

/-- `SepSlice<Effect, ",">` (grammar.lalrpop:440, 479) -/
def pEffFields : Nat → List Tok → Option (List (String × Ty) × List Tok)
  | 0, _ => none
  | f + 1, ts =>
    match pIdent ts with
    | some (name, .colon :: ts2) =>
      match pType f ts2 with
      | some (t, .comma :: ts3) =>
        match pEffFields f ts3 with
        | some (fs, r) => some ((name, t) :: fs, r)
        | none => none
      | some (t, r) => some ([(name, t)], r)
      | none => none
    | _ => some ([], ts)
end

/-- `AtomicType*` -/
def pAtomics : Nat → Nat → List Tok → Option (List Ty × List Tok)
  | 0, _, _ => none
  | _ + 1, _, [] => some ([], [])
  | n + 1, f, t :: ts =>
    if atomStart t then
      match pAtomic f (t :: ts) with
      | some (a, ts') =>
        match pAtomics n f ts' with
        | some (as, r) => some (a :: as, r)
        | none => none
      | none => none
    else some ([], t :: ts)

/-- `VariantField+ (".." AtomicType)?` (grammar.lalrpop:352-361); the row of the variant. -/
def pVariant : Nat → Nat → List Tok → Option (Ty × List Tok)
  | 0, _, _ => none
  | n + 1, f, .pipe :: .id c :: .colon :: ts =>
    if !startsUpper c then none else
    match pType f ts with
    | some (t, r) =>
      match r with
      | .pipe :: _ =>
        match pVariant n f r with
        | some (row, r') => some (.rfield c (ctorize t) row, r')
        | none => none
      | .dotdot :: r' =>
        match pAtomic f r' with
        | some (rest, r'') => some (.rfield c (ctorize t) rest, r'')
        | none => none
      | _ => some (.rfield c (ctorize t) .rnil, r)
    | none => none
  | n + 1, f, .pipe :: .id c :: ts =>
    if !startsUpper c then none else
    match pAtomics (ts.length + 1) f ts with
    | some (args, r) =>
      match r with
      | .pipe :: _ =>
        match pVariant n f r with
        | some (row, r') => some (.rfield c (mkCtor args) row, r')
        | none => none
      | .dotdot :: r' =>
        match pAtomic f r' with
        | some (rest, r'') => some (.rfield c (mkCtor args) rest, r'')
        | none => none
      | _ => some (.rfield c (mkCtor args) .rnil, r)
    | none => none
  | _, _, _ => none

/-- `TypeTop` (grammar.lalrpop:369-381), the right-hand side of `type T = …`. -/
def pTop (f : Nat) : List Tok → Option (Ty × List Tok)
  | .pipe :: ts =>
    match pVariant (ts.length + 1) f (.pipe :: ts) with
    | some (row, r) => some (.variant row, r)
    | none => none
  | .dotdot :: ts =>
    match pAtomic f ts with
    | some (r, rest) => some (.variant r, rest)
    | none => none
  | .kwForall :: ts =>
    match pIdents ts with
    | (v :: vs, .dot :: .lparen :: .pipe :: ts') =>
      match pVariant (ts'.length + 1) f (.pipe :: ts') with
      | some (row, .rparen :: r) => some (.all (v :: vs) (.variant row), r)
      | _ => none
    | _ => pType f (.kwForall :: ts)
  | ts => pType f ts

/-- Fuel used by the top-level entry points: recursion depth never exceeds the token count by
    more than a constant factor. -/
def fuelFor (ts : List Tok) : Nat := 8 * ts.length + 8

/-- Parse a whole token stream as a type annotation (`let _ : <here> = …`). -/
def parseAnn (ts : List Tok) : Option Ty :=
  match pType (fuelFor ts) ts with
  | some (t, []) => some t
  | _ => none

/-- Parse a whole token stream as the body of a type binding (`type T = <here>`). -/
def parseTop (ts : List Tok) : Option Ty :=
  match pTop (fuelFor ts) ts with
  | some (t, []) => some t
  | _ => none

end GluonModel.TypePrint
