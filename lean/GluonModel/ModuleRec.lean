/-
The compiled module as a tree of records, and the field-by-field (de)serialisation that
`#[derive(SerializeState, DeserializeState)]` generates for its structs

  Module (src/compiler_pipeline.rs:994-1013) ▸ CompiledModule (vm/src/compiler.rs:97-110) ▸
  CompiledFunction (vm/src/compiler.rs:124-160) ▸ DebugInfo (:74-82) ▸ UpvarInfo (:52-59),
  SourceMap / LocalMap / Local (vm/src/source_map.rs:11, 100, 71)

driven by a *schema* (struct name ↦ fields with their serde attributes). The schema of the real
code is `Generated.ModuleFields.structs`, extracted from the Rust source on every run.

serde semantics mirrored: a struct is written as the sequence of its fields in declaration order,
except those marked `skip`/`skip_serializing`; it is read by looking every declared field up by
name, except those marked `skip`/`skip_deserializing` (they get `Default::default()`); a field that
is absent although expected is an error unless marked `default`.
Leaves (numbers, strings, symbols, types, instructions) are opaque here: the sharing of symbols and
types is `GluonModel.Share`, the instruction table is `Generated.InstrTable` (C01b).
-/
import GluonModel.Generated.ModuleFields

namespace GluonModel.ModuleRec
open GluonModel.Generated.ModuleFields

/-- A value of the module tree. -/
inductive V where
  | leaf (n : Nat)
  | seq (xs : List V)
  | struct (name : String) (fields : List (String × V))
  deriving Repr, Inhabited

abbrev Schema := List StructInfo

def fieldsOf (sc : Schema) (name : String) : Option (List FieldInfo) :=
  (sc.find? (fun s => s.name == name)).map (·.fields)

def lookupV (k : String) : List (String × V) → Option V
  | [] => none
  | (k', v) :: rest => if k' = k then some v else lookupV k rest

/-- Does the serialiser write field `k` of this struct? (unknown field: nothing to ask) -/
def written (fs : List FieldInfo) (k : String) : Bool :=
  match fs.find? (fun f => f.name == k) with
  | some f => !f.skipSer
  | none => false

mutual
/-- What is written. -/
def serV (sc : Schema) : V → V
  | .leaf n => .leaf n
  | .seq xs => .seq (serVs sc xs)
  | .struct name fs =>
    match fieldsOf sc name with
    | some fis => .struct name (serFs sc fis fs)
    | none => .struct name []   -- no `SerializeState` for this struct
def serVs (sc : Schema) : List V → List V
  | [] => []
  | v :: vs => serV sc v :: serVs sc vs
def serFs (sc : Schema) (fis : List FieldInfo) : List (String × V) → List (String × V)
  | [] => []
  | (k, v) :: rest =>
    if written fis k then (k, serV sc v) :: serFs sc fis rest else serFs sc fis rest
end

/-- Rebuilding a struct from the (name, value) pairs read: declared fields in order. -/
def fill (fis : List FieldInfo) (got : List (String × V)) : Option (List (String × V)) :=
  fis.mapM (fun f =>
    if f.skipDe then some (f.name, V.leaf 0)
    else match lookupV f.name got with
      | some v => some (f.name, v)
      | none => if f.dflt then some (f.name, V.leaf 0) else none)

mutual
/-- What is read back; `none` = a serde error (missing field, unknown struct). -/
def deV (sc : Schema) : V → Option V
  | .leaf n => some (.leaf n)
  | .seq xs => (deVs sc xs).map .seq
  | .struct name fs =>
    match fieldsOf sc name, deFs sc fs with
    | some fis, some got => (fill fis got).map (.struct name)
    | _, _ => none
def deVs (sc : Schema) : List V → Option (List V)
  | [] => some []
  | v :: vs =>
    match deV sc v, deVs sc vs with
    | some v', some vs' => some (v' :: vs')
    | _, _ => none
def deFs (sc : Schema) : List (String × V) → Option (List (String × V))
  | [] => some []
  | (k, v) :: rest =>
    match deV sc v, deFs sc rest with
    | some v', some rest' => some ((k, v') :: rest')
    | _, _ => none
end

/-- No field of any struct is skipped or defaulted in either direction, both directions are
    derived, and field names are unique within a struct. -/
def noSkips (sc : Schema) : Bool :=
  sc.all (fun s => s.derivesSer && s.derivesDe &&
    s.fields.all (fun f => !f.skipSer && !f.skipDe && !f.dflt) &&
    decide ((s.fields.map (·.name)).Nodup))

mutual
/-- The value is an instance of the schema: every struct node has exactly the declared fields, in
    declaration order. -/
def Conforms (sc : Schema) : V → Prop
  | .leaf _ => True
  | .seq xs => ConformsL sc xs
  | .struct name fs =>
    (∃ fis, fieldsOf sc name = some fis ∧ fs.map (·.1) = fis.map (·.name)) ∧ ConformsF sc fs
def ConformsL (sc : Schema) : List V → Prop
  | [] => True
  | v :: vs => Conforms sc v ∧ ConformsL sc vs
def ConformsF (sc : Schema) : List (String × V) → Prop
  | [] => True
  | (_, v) :: rest => Conforms sc v ∧ ConformsF sc rest
end

end GluonModel.ModuleRec
