/-
What a bytecode verifier run at load time WOULD have to check (gluon has none: the known finding
`unvalidated-operand:*` — `Precompiled::run_expr` hands the deserialised `CompiledModule` straight
to `new_global_thunk`, src/compiler_pipeline.rs:1044-1052, and the interpreter trusts every operand).

Operands and what the interpreter does with them (vm/src/thread.rs `execute_`, 2157-2525):
  * `Push(i)` / `Slide`, `Pop`, `Call(n)`, `Construct*{args}`, `CloseClosure(n)` … index the frame:
     covered by `StackVerify` (C07): heights per pc, `okAt`, `≤ max_stack_size`;
  * `Jump(t)`, `CJump(t)`: `self.instructions[t]` (assert `index < self.instructions.len()`);
  * `PushString(i)`, `GetField(i)`, `TestPolyTag(i)`, `ConstructPolyVariant{tag:i}`: `function.strings[i]`;
  * `NewRecord{record,args}` / `ConstructRecord{record,args}`: `function.records[record]`, whose
     length must be `args`;
  * `PushUpVar(i)`: `closure.upvars[i]`;
  * `MakeClosure{function_index,upvars}` / `NewClosure{function_index,upvars}`:
     `function.inner_functions[function_index]`, allocating room for `upvars` values — the callee's
     `PushUpVar`s are checked against *its* upvar count, so the two must agree (and the count is
     bounded by the frame, which rules out the 64 GB allocation of the finding).
-/
import GluonModel.StackVerify

namespace GluonModel.LoadVerify
open GluonModel.StackVerify

/-- The table operand of an instruction (at most one per instruction). -/
inductive Ref where
  | none
  | string (i : Nat)
  | record (i args : Nat)
  | upvar (i : Nat)
  | closure (fn upvars : Nat)
  deriving Repr, DecidableEq, Inhabited

structure VInstr where
  /-- frame effect and control flow, as in C07's `StackVerify` -/
  stack : Instr
  ref : Ref
  deriving Repr, Inhabited

/-- A compiled function with what the verifier needs of its tables. -/
inductive VFn where
  | mk (args max : Nat) (code : List VInstr) (strings : Nat) (records : List Nat) (upvars : Nat)
      (inner : List VFn)
  deriving Repr, Inhabited

namespace VFn
def args : VFn → Nat | .mk a _ _ _ _ _ _ => a
def max : VFn → Nat | .mk _ m _ _ _ _ _ => m
def code : VFn → List VInstr | .mk _ _ c _ _ _ _ => c
def strings : VFn → Nat | .mk _ _ _ s _ _ _ => s
def records : VFn → List Nat | .mk _ _ _ _ r _ _ => r
def upvars : VFn → Nat | .mk _ _ _ _ _ u _ => u
def inner : VFn → List VFn | .mk _ _ _ _ _ _ i => i
/-- The frame/control skeleton C07 verifies. -/
def toFn (f : VFn) : Fn := ⟨f.args, f.max, f.code.map (·.stack)⟩
end VFn

/-- The table operand is in range (and consistent with the table entry). -/
def refOk (f : VFn) : Ref → Bool
  | .none => true
  | .string i => i < f.strings
  | .record i a => f.records[i]? == some a
  | .upvar i => i < f.upvars
  | .closure j u => match f.inner[j]? with
    | some g => g.upvars == u && decide (u ≤ f.max)
    | none => false

/-- Every control transfer stays inside the function (the part of C07's check that needs no
    frame heights; `verify` implies it for reachable code, this covers dead code too). -/
def targetsOk (f : VFn) : Bool :=
  decide (0 < f.code.length) &&
  (List.range f.code.length).all (fun pc =>
    match f.code[pc]? with
    | some vi => (vi.stack.succs pc).all (fun pc' => pc' < f.code.length)
    | none => true)

/-- Operand checks that need no type information (what the driver evaluates on real bytecode). -/
def operandsOk (f : VFn) : Bool := f.code.all (fun vi => refOk f vi.ref) && targetsOk f

mutual
/-- Operand checks for the function and, recursively, every function nested in it. -/
def operandsOkDeep : VFn → Bool
  | .mk a m c s r u inner => operandsOk (.mk a m c s r u inner) && operandsOkDeepL inner
def operandsOkDeepL : List VFn → Bool
  | [] => true
  | g :: gs => operandsOkDeep g && operandsOkDeepL gs
end

mutual
/-- The full specification: frame discipline (C07's `verify`) + operands, recursively. -/
def verified : VFn → Bool
  | .mk a m c s r u inner =>
    verify (VFn.toFn (.mk a m c s r u inner)) && operandsOk (.mk a m c s r u inner) && verifiedL inner
def verifiedL : List VFn → Bool
  | [] => true
  | g :: gs => verified g && verifiedL gs
end

/-- One index the interpreter uses when it executes instruction `vi` at `pc` with frame height `h`. -/
inductive Access where
  | slot (i : Nat)              -- a frame slot
  | code (pc : Nat)             -- the next instruction
  | string (i : Nat)
  | record (i args : Nat)
  | upvar (i : Nat)
  | inner (j upvars : Nat)
  deriving Repr, DecidableEq

/-- All indices used by the step. -/
def accesses (vi : VInstr) (pc h : Nat) : List Access :=
  (match vi.stack with
    | .push j => [Access.slot j]
    | i => (List.range i.needs).map (fun k => Access.slot (h - 1 - k))) ++
  (vi.stack.succs pc).map Access.code ++
  (match vi.ref with
    | .none => []
    | .string i => [Access.string i]
    | .record i a => [Access.record i a]
    | .upvar i => [Access.upvar i]
    | .closure j u => [Access.inner j u])

/-- The index is in range for function `f` with a frame of height `h`. -/
def InRange (f : VFn) (h : Nat) : Access → Prop
  | .slot i => i < h
  | .code pc => pc < f.code.length
  | .string i => i < f.strings
  | .record i a => f.records[i]? = some a
  | .upvar i => i < f.upvars
  | .inner j u => ∃ g, f.inner[j]? = some g ∧ g.upvars = u ∧ u ≤ f.max

end GluonModel.LoadVerify
