import GluonModel.Props.C20
#print axioms GluonModel.Props.C20.containment_trichotomy
#print axioms GluonModel.Props.C20.containment_total
#print axioms GluonModel.Props.C20.containment_eq_iff_containsPos
#print axioms GluonModel.Props.C20.containmentExclusive_spec
#print axioms GluonModel.Props.C20.select_empty_none
#print axioms GluonModel.Props.C20.select_total
#print axioms GluonModel.Props.C20.select_mem
#print axioms GluonModel.Props.C20.select_flag_false
#print axioms GluonModel.Props.C20.select_flag_true
#print axioms GluonModel.Props.C20.select_correct
#print axioms GluonModel.Props.C20.visit_one_descends
#print axioms GluonModel.Props.C20.find_total_partial
#print axioms GluonModel.Props.C20.find_total_fails
#print axioms GluonModel.Props.C20.find_total_fixed
#print axioms GluonModel.Props.C20.suggest_in_scope_fails
