"""Per-property configuration of ./check: one JSON file per property in checks/props.d/.

Keys: translators (python modules in translate/), drivers (lean_exe names), harness (cargo bin names; paired
with drivers by position), rule, exhaustive, modelled, assumptions, trusted_base, timeout,
claimed (bool), level_text, level_note, technique, na_reason.
"""
import json, os, glob

HERE = os.path.dirname(os.path.abspath(__file__))
HOOK_COMMITS = json.load(open(os.path.join(HERE, "hook_commits.json")))
PROPS = {}
for f in sorted(glob.glob(os.path.join(HERE, "props.d", "C*.json"))):
    PROPS[os.path.basename(f)[:-5]] = json.load(open(f))
