"""Per-property configuration of ./check (what to build, what runs on both sides)."""

HOOK_COMMITS = []

COMMON_TB = [
    "Rust type system and all `unsafe` blocks of gluon are outside the model",
]

PROPS = {
    "C08": {
        "translators": [],
        "drivers": ["drv_c08"],
        "harness": ["c08"],
        "rule": "operator chains a0 op1 a1 … opn an over a 6-operator fixity table (precedences 1..3 × "
                "left/right, so every (precedence relation, associativity) pair occurs): ALL chains with up to "
                "5 (quick) / 6 (thorough) operators, plus random chains of 1..12 operators incl. an operator "
                "without fixity; each through the real infix::reparse and the Lean model. Non-trivial = at least "
                "two operators of two different kinds; distinct = distinct operator sequence.",
        "exhaustive": True,
        "modelled": ["LALRPOP grammar tables (trusted)", "tokenizer (only through the round-trip oracle)"],
        "assumptions": ["the grammar delivers an infix chain right-nested (checked by the text-level oracle)"],
        "trusted_base": COMMON_TB,
    },
}
