"""Per-property configuration of ./check: one JSON file per property in checks/props.d/.

Keys: translators (python modules in translate/), drivers (lean_exe names), harness (cargo bin names; paired
with drivers by position), rule, exhaustive, modelled, assumptions, trusted_base, timeout,
claimed (bool), level_text, level_note, technique, na_reason.
"""
import json, os, glob

HERE = os.path.dirname(os.path.abspath(__file__))
HOOK_COMMITS = json.load(open(os.path.join(HERE, "hook_commits.json")))
class _Props(dict):
    """Loads props.d/<ID>.json on first access (another property's file being rewritten at the
    same moment must not break this run)."""
    def __missing__(self, pid):
        v = json.load(open(os.path.join(HERE, "props.d", pid + ".json")))
        self[pid] = v
        return v
    def load_all(self):
        for f in sorted(glob.glob(os.path.join(HERE, "props.d", "C*.json"))):
            self[os.path.basename(f)[:-5]]
        return self

PROPS = _Props()
