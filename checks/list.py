#!/usr/bin/env python3
import sys, os
sys.path.insert(0, os.path.dirname(os.path.abspath(__file__)))
import props
what = sys.argv[1]
seen = []
for pid, cfg in sorted(props.PROPS.load_all().items()):
    for x in cfg.get(what, []):
        if x not in seen: seen.append(x)
print(" ".join(seen))
