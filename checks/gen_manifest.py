#!/usr/bin/env python3
"""Regenerate MANIFEST.json from checks/props.py (run by hand after editing props.py)."""
import json, os, sys
ROOT = os.path.dirname(os.path.dirname(os.path.abspath(__file__)))
sys.path.insert(0, os.path.join(ROOT, "checks"))
import props

ALL = [f"C{n:02d}" for n in range(1, 21)]
checks, na = [], []
for pid in ALL:
    cfg = props.PROPS.load_all().get(pid)
    if cfg and cfg.get("claimed"):
        checks.append({
            "property_id": pid,
            "quick_cmd": f"./check {pid} --tier quick",
            "thorough_cmd": f"./check {pid} --tier thorough",
            "evidence_file": f"/verif/evidence/{pid}.json",
            "replay_cmd_template": f"./check {pid} --replay {{path}}",
            "engine": "lean4-proof+correspondence",
            "level_claimed": {"category": "proof", "text": cfg["level_text"], "design_ref": cfg.get("design_ref", f"DESIGN.md §6 {pid}")},
            "level_note": cfg["level_note"],
            "technique": cfg["technique"],
        })
    else:
        na.append({"property_id": pid, "reason": (cfg or {}).get("na_reason", "check not built yet in this round; see DESIGN.md §6 for the planned model and theorems")})

m = {
    "version": 1,
    "setup_cmd": "./setup.sh",
    "hooks": {
        "guard": "--cfg gluon_verif",
        "enable": "RUSTFLAGS='--cfg gluon_verif' (set in /verif/harness/.cargo/config.toml; the harness builds /repo's crates as path dependencies into /verif/.build)",
        "baseline_off_cmd": "cd /repo && cargo test --workspace --no-fail-fast --offline",
        "source_commits": props.HOOK_COMMITS,
        "add_only": True,
    },
    "engines": [{
        "name": "lean4-proof+correspondence", "path": "/verif/check",
        "serves_properties": [c["property_id"] for c in checks],
        "kind_free_text": "Lean 4 theorems about hand-written executable models (lean/GluonModel), tied to /repo on every run by "
                          "(a) translators regenerating table-like code into lean/GluonModel/Generated and (b) a Rust harness running "
                          "the real code and a compiled Lean driver running the model on one generated case stream, diffed; a "
                          "model-independent property oracle on the implementation supplies replays",
    }],
    "checks": checks,
    "not_applicable": na,
    "notes": "See DESIGN.md. Known, recorded-not-repaired defects are in known_findings.json (KNOWN-FINDING lines, exit 0).",
}
json.dump(m, open(os.path.join(ROOT, "MANIFEST.json"), "w"), indent=1)
print(f"claimed {len(checks)}; not claimed {len(na)}")
