#!/usr/bin/env python3
"""tools/gen_mutant_prompts.py <suffix> : write /tmp/mutant<suffix>_<ID>.txt for every property from
notes/prompts/_mutant.txt. The adversary gets ONLY the property's text (properties.jsonl) and a
worktree path; for a later wave it is also told, in one line each, which changes earlier adversaries
already used (from seeded/*/meta.json 'change'), so that it picks a different mechanism."""
import json, sys, glob, os
suffix = sys.argv[1] if len(sys.argv) > 1 else ""
root = os.path.dirname(os.path.dirname(os.path.abspath(__file__)))
tmpl = open(f"{root}/notes/prompts/_mutant.txt").read()
used = {}
for m in glob.glob(f"{root}/seeded/*/meta.json"):
    j = json.load(open(m)); used.setdefault(j["property"], []).append(j["change"])
for l in open(f"{root}/properties.jsonl"):
    p = json.loads(l); pid = p["id"]; low = pid.lower() + suffix
    wt = f"/tmp/wt_{low}"
    files = ", ".join(p["anchors"]["files"])
    t = (tmpl.replace("{WT}", wt).replace("{PID}", pid).replace("{pid}", low)
         .replace("{TITLE}", p.get("title", "")).replace("{STATEMENT}", p.get("statement", ""))
         .replace("{QUANT}", p["quantifier"]["text"])
         .replace("{WHY}", p["why_tests_cant"]).replace("{FILES}", files))
    t = t.replace("cargo must be run with --offline.",
        "cargo must be run with --offline. DISK IS TIGHT and the machine is shared: prefix every cargo command with "
        "`CARGO_INCREMENTAL=0 CARGO_PROFILE_DEV_DEBUG=0 CARGO_PROFILE_TEST_DEBUG=0 CARGO_BUILD_JOBS=6` (the worktree's target dir "
        f"is pre-populated with a build of the unchanged code, so the first build is short), and when you are completely done delete the build output: `rm -rf {wt}/target`. "
        "Other adversaries run test suites at the same time: a test that fails only by timing out (gluon_repl rexpect tests, `parallel`) is load, re-run it alone.")
    if used.get(pid):
        t += ("\n\nEarlier adversaries already used the following change(s) for this property; yours must use a DIFFERENT mechanism in a "
              "different function (preferably a different file or a different clause of the property statement):\n" +
              "\n".join(f"- {c}" for c in used[pid]) + "\n")
    open(f"/tmp/mutant{suffix}_{pid}.txt", "w").write(t)
    print(pid, len(t))
