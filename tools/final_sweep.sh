#!/bin/bash
# tools/final_sweep.sh [lanes]: every registered check on /repo's current tree — thorough (seed 1), quick seed 2,
# then quick seed 1 last (so the committed evidence/*.json is what the quick command writes). Three lanes run side by
# side; the timing-sensitive checks (watchdogs, limits, schedules) share one lane so they never overlap each other.
# Log: out/final_sweep.log, one line per run; "ALLDONE" at the end.
cd "$(dirname "$(readlink -f "$0")")/.."; LOG=out/final_sweep.log; mkdir -p out; : > $LOG
L1="C06 C07 C14 C15 C17 C13 C05"
L2="C01 C02 C03 C04 C08 C09 C10"
L3="C11 C12 C16 C18 C19 C20"
run() { # tier seed id
  local out rc; out=$(VERIF_SEED=$2 timeout 5400 ./check $3 --tier $1 2>&1); rc=$?
  echo "$1 seed=$2 $3 rc=$rc $(echo "$out" | tail -1)" >> $LOG
  if [ $rc -ne 0 ]; then echo "$out" | grep -E "VIOLATION|HARNESS|broken" | head -5 >> $LOG; fi
}
lane() { for p in $2; do run $1 $3 $p; done; }
# SWEEP_PASSES="thorough 1;quick 2" selects passes (default: all three)
IFS=";" read -ra PASSES <<< "${SWEEP_PASSES:-thorough 1;quick 2;quick 1}"
for pass in "${PASSES[@]}"; do
  set -- $pass
  lane $1 "$L1" $2 & lane $1 "$L2" $2 & lane $1 "$L3" $2 & wait
  echo "PASS-DONE $1 seed=$2" >> $LOG
done
echo ALLDONE >> $LOG
