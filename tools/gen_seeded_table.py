#!/usr/bin/env python3
"""Rewrite the table of DESIGN.md §12 from seeded/*/meta.json (between the SEEDED-TABLE markers)."""
import json, glob, os, re
ROOT = os.path.dirname(os.path.dirname(os.path.abspath(__file__)))
rows = []
for d in sorted(glob.glob(os.path.join(ROOT, "seeded", "*"))):
    mp = os.path.join(d, "meta.json")
    if not os.path.exists(mp): continue
    m = json.load(open(mp))
    name = os.path.basename(d)
    def cell(s): return str(s).replace("|", "\\|").replace("\n", " ")
    rows.append(f"| `seeded/{name}` | {m.get('property','')} | {cell(m.get('change',''))} | {cell(m.get('needs',''))} | {cell(m.get('result',''))} |")
table = ("| seeded change | property | the change | needs, to manifest | outcome |\n|---|---|---|---|---|\n" + "\n".join(rows) + "\n")
p = os.path.join(ROOT, "DESIGN.md")
s = open(p, encoding="utf-8").read()
b, e = "<!-- SEEDED-TABLE-BEGIN -->", "<!-- SEEDED-TABLE-END -->"
if b in s:
    s = s[:s.index(b) + len(b)] + "\n" + table + s[s.index(e):]
    open(p, "w", encoding="utf-8").write(s)
    print("table rewritten:", len(rows), "rows")
else:
    print("markers not found")
