#!/bin/bash
# Run checks against a MUTATED copy of gluon without touching /repo (other work may be using it):
#   [MUT_TAG=_x] tools/mutcheck.sh <patch.diff> "<ID> <ID> …" [tier]     (MUT_TAG: separate scratch dirs, for concurrent runs)
# A scratch worktree of /repo HEAD gets the patch; a scratch copy of /verif has its harness
# path dependencies and translators pointed at that worktree (VERIF_REPO) and its own target dir.
# Equivalent to `git -C /repo apply patch; ./check …; git -C /repo checkout -- .`.
set -e
PATCH=$(readlink -f "$1"); IDS="$2"; TIER="${3:-quick}"
TAG="${MUT_TAG:-}"; WT=/tmp/mutwt$TAG; MV=/tmp/mutverif$TAG; MB=/tmp/mutbuild$TAG
# a frozen copy of /verif, when present, is what gets tested (keeps seeded-change tests independent of later edits)
if [ -z "$VERIF_SRC" ] && [ -d /tmp/verif_snapshot_current ]; then VERIF_SRC=/tmp/verif_snapshot_current; fi
if [ ! -d $WT ]; then git -C /repo worktree add -q --detach $WT HEAD; fi
git -C $WT checkout -q --detach $(git -C /repo rev-parse HEAD); git -C $WT checkout -q -- . ; git -C $WT clean -qfd
git -C $WT apply "$PATCH"
mkdir -p $MV
rsync -a --delete --exclude .build --exclude out --exclude .git --exclude replay --exclude evidence --exclude ".audit_*" ${VERIF_SRC:-/verif}/ $MV/ || true
mkdir -p $MV/replay $MV/evidence
sed -i "s#path = \"/repo#path = \"$WT#g" $MV/harness/Cargo.toml
sed -i "s#target-dir = \"/verif/.build\"#target-dir = \"$MB\"#" $MV/harness/.cargo/config.toml
if [ ! -d $MB ]; then cp -a /verif/.build $MB; fi
ln -sfn $MB $MV/.build
# every literal "/repo…" path in the harness sources / translators (std import path, #[path] includes, seed files)
grep -rl '/repo' $MV/harness/src $MV/translate | xargs sed -i "s#/repo#$WT#g"
cd $MV
for p in $IDS; do
  VERIF_REPO=$WT timeout 3000 ./check $p --tier $TIER 2>&1 | grep -E "VIOLATION|HARNESS|KNOWN|broken|^\[C" | grep -v KNOWN | cut -c1-300
done
