#!/bin/bash
# tools/wave2_one.sh <pid-lower-with-suffix e.g. c10b> <seed-name> "<check IDs>" ["<demo command>"]
# Confirms a delivered seeded change (suite with the change; demo with / without) in its own scratch worktree,
# runs the checks against it in a scratch copy (mutcheck, own MUT_TAG), records everything under seeded/<name>/,
# and removes the scratch build output.
P=$1; NAME=$2; IDS="$3"; DEMO="${4:-CARGO_NET_OFFLINE=true cargo test --offline --test seed_$P}"
WT=/tmp/wt_$P; OUT=/verif/seeded/$NAME
[ -d $WT/target ] || cp -a /tmp/wt2_base/target $WT/target
export CARGO_BUILD_JOBS=8
/verif/tools/confirm_seed.sh $P $NAME "$DEMO"
cd /verif && MUT_TAG=_$P tools/mutcheck.sh $OUT/patch.diff "$IDS" > $OUT/checks_with_change.log 2>&1
git -C /repo worktree remove --force /tmp/mutwt_$P 2>/dev/null; rm -rf /tmp/mutbuild_$P /tmp/mutverif_$P
echo "== $NAME"; echo "-- suite (non-ok lines)"; cut -c1-160 $OUT/suite_with_change.log; echo "-- demo with"; tail -3 $OUT/demo_with_change.log; echo "-- demo without"; tail -2 $OUT/demo_without_change.log; echo "-- checks"; cut -c1-300 $OUT/checks_with_change.log
