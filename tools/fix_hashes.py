#!/usr/bin/env python3
"""Re-point the commit ids in known_findings.json "fixed" entries (and texts) after /repo history was rewritten:
old ids are matched to the current commit with the same position/subject (table below)."""
import json, subprocess, re
log = subprocess.run(["git", "-C", "/repo", "log", "--format=%h %s"], capture_output=True, text=True).stdout.strip().split("\n")
cur = {s.split(" ", 1)[1]: s.split(" ", 1)[0] for s in log}
# every id ever used for a fix commit -> subject prefix
OLD = {
 "9929c7c": "fix: comment iterator no longer slices past the end",
 "6d00c5c": "fix: reverse comment iterator cuts exactly", "9c4447b": "fix: reverse comment iterator cuts exactly",
 "071cec8": "fix: include the GC header", "9e0cb18": "fix: include the GC header",
 "32e7e92": "fix: completion queries no longer panic on an empty array", "ece5449": "fix: completion queries no longer panic on an empty array",
 "6eba45f": "fix: dead code elimination keeps calls", "7751831": "fix: dead code elimination keeps calls",
 "3521415": "fix: the layout scan for a continued block",
 "692df29": "fix: the tokenizer consumes a whole multi-byte", "dc01a7c": "fix: the tokenizer consumes a whole multi-byte", "be32adf": "fix: the tokenizer consumes a whole multi-byte",
 "fd64fae": "fix: unescaping a string literal", "4586430": "fix: unescaping a string literal", "80da93e": "fix: unescaping a string literal",
 "2dd9472": "fix: infix error recovery", "e3fbd94": "fix: infix error recovery", "babcd23": "fix: infix error recovery",
 "035bf6b": "fix: completion queries no longer panic on the unit pattern", "3a63e38": "fix: completion queries no longer panic on the unit pattern", "53580fe": "fix: completion queries no longer panic on the unit pattern",
 "e627009": "fix: completion queries descend into type-annotated", "924e3ee": "fix: completion queries descend into type-annotated", "97c12b9": "fix: completion queries descend into type-annotated",
 "7ec59a2": "fix: a rooted NaN", "7f2979b": "fix: a rooted NaN", "5d628f8": "fix: a rooted NaN",
 "1d956f3": "fix: JSON (de)serialisation of floats", "9f04da9": "fix: JSON (de)serialisation of floats", "dbce32d": "fix: JSON (de)serialisation of floats",
}
def current(old):
    pre = OLD.get(old)
    if not pre: return None
    for subj, h in cur.items():
        if subj.startswith(pre): return h
    return None
def remap_text(t):
    for old in OLD:
        new = current(old)
        if new and old != new: t = t.replace(old, new)
    return t
import os, glob
kf = json.load(open("/verif/known_findings.json"))
n = 0
for f in kf.get("fixed", []):
    c = f.get("commit", "")
    new = current(c)
    if new and new != c:
        f["commit"] = new; n += 1
    f["what"] = remap_text(f.get("what", ""))
json.dump(kf, open("/verif/known_findings.json", "w"), indent=1)
files = glob.glob("/verif/notes/*.md") + glob.glob("/verif/checks/props.d/*.json") + ["/verif/DESIGN.md"] + glob.glob("/verif/lean/GluonModel/**/*.lean", recursive=True) + glob.glob("/verif/seeded/*/meta.json")
for p in files:
    s = open(p, encoding="utf-8").read(); t = remap_text(s)
    if t != s: open(p, "w", encoding="utf-8").write(t); n += 1
print("remapped", n)
