#!/bin/bash
# tools/confirm_seed.sh <pid lower> <seed-name> "<demo command>" : suite + demo with/without the change in the seed's own worktree
P=$1; NAME=$2; DEMO="$3"
WT=/tmp/wt_$P; SD=/tmp/seed_$P; OUT=/verif/seeded/$NAME
export CARGO_INCREMENTAL=0 CARGO_PROFILE_DEV_DEBUG=0 CARGO_PROFILE_TEST_DEBUG=0 CARGO_NET_OFFLINE=true
mkdir -p $OUT; cp $SD/patch.diff $OUT/patch.diff; cp $SD/*.rs $SD/*.glu $SD/README.md $OUT/ 2>/dev/null
# the demo goes to tests/ unless the adversary left it elsewhere in the worktree (e.g. completion/tests/, check/tests/)
if [ -z "$(find $WT -name seed_$P.rs -not -path '*/target/*' | grep -v "^$WT/tests/")" ]; then cp $SD/seed_$P.rs $WT/tests/ 2>/dev/null; else rm -f $WT/tests/seed_$P.rs; fi
cd $WT && git checkout -q -- . && git apply $SD/patch.diff || { echo "patch does not apply" > $OUT/suite_with_change.log; exit 1; }
cargo test --workspace --no-fail-fast --offline 2>&1 | grep -E "test result|FAILED|failed" | grep -v "test result: ok" > $OUT/suite_with_change.log
( eval "$DEMO" ) 2>&1 | grep -E "^test |test result" > $OUT/demo_with_change.log
git checkout -q -- .
( eval "$DEMO" ) 2>&1 | grep -E "^test |test result" > $OUT/demo_without_change.log
rm -rf $WT/target
echo done > $OUT/confirmed
