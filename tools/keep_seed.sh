#!/bin/bash
# tools/keep_seed.sh <pid lower e.g. c18> <seed-name> "<check IDs>" "<demo test command run in worktree>"
# Confirms a seeded change in its scratch worktree (suite passes, demo fails with / passes without),
# runs the checks against it (tools/mutcheck.sh) and records everything under seeded/<name>/.
P=$1; NAME=$2; IDS="$3"; DEMO="$4"
WT=/tmp/wt_$P; SD=/tmp/seed_$P; OUT=/verif/seeded/$NAME
mkdir -p $OUT; cp $SD/patch.diff $OUT/patch.diff; cp $SD/*.rs $SD/*.glu $SD/README.md $OUT/ 2>/dev/null
cd $WT && git checkout -q -- . && git apply $SD/patch.diff || { echo "patch does not apply"; exit 1; }
CARGO_NET_OFFLINE=true cargo test --workspace --no-fail-fast --offline 2>&1 | grep -E "test result|FAILED|failed" | grep -v "test result: ok" > $OUT/suite_with_change.log
( eval "$DEMO" ) 2>&1 | grep -E "^test |test result" > $OUT/demo_with_change.log
git checkout -q -- .
( eval "$DEMO" ) 2>&1 | grep -E "^test |test result" > $OUT/demo_without_change.log
cd /verif && tools/mutcheck.sh $OUT/patch.diff "$IDS" > $OUT/checks_with_change.log 2>&1
echo "== $NAME"; echo "-- suite (non-ok lines)"; cat $OUT/suite_with_change.log | cut -c1-120; echo "-- demo with"; tail -2 $OUT/demo_with_change.log; echo "-- demo without"; tail -1 $OUT/demo_without_change.log; echo "-- checks"; cat $OUT/checks_with_change.log | cut -c1-250
