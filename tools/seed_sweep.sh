#!/bin/bash
# Run the quick tier of the given checks under several seeds; report any non-zero exit.
# usage: tools/seed_sweep.sh "C08 C15 …" "2 3 4"
cd "$(dirname "$0")/.."
for p in $1; do
  for s in $2; do
    out=$(VERIF_SEED=$s timeout 1500 ./check $p --tier quick 2>&1)
    rc=$?
    echo "$p seed=$s rc=$rc $(echo "$out" | tail -1)"
    if [ $rc -ne 0 ]; then echo "$out" | grep -E "VIOLATION|HARNESS|broken" | head -5; fi
  done
done
# restore the seed-1 evidence
for p in $1; do ./check $p --tier quick > /dev/null 2>&1; done
