#!/bin/bash
# tools/snapshot_sweep.sh : for `vp run -- tools/snapshot_sweep.sh` — makes a snapshot of /verif self-contained
# (own cargo target dir seeded from /verif/.build, own lean build seeded from /verif/lean/.lake) and runs final_sweep there,
# so that a long sweep neither disturbs nor is disturbed by work in /verif. Results are not evidence (see DESIGN §2).
cd "$(dirname "$(readlink -f "$0")")/.."
ROOT=$PWD
if [ "$ROOT" != /verif ]; then
  sed -i "s#target-dir = \"/verif/.build\"#target-dir = \"$ROOT/.build\"#" harness/.cargo/config.toml
  [ -d .build ] || cp -a /verif/.build .build
  [ -d lean/.lake ] || cp -a /verif/lean/.lake lean/.lake
fi
exec tools/final_sweep.sh
