use gluon::{new_vm, ThreadExt, Thread, vm::api::{Hole, OpaqueValue, IO}};
use gluon::vm::thread::ThreadInternal;

fn vm() -> gluon::RootedThread {
    let vm = gluon::VmBuilder::new().import_paths(Some(vec!["/repo".into()])).build();
    vm
}

fn main() {
    let mode = std::env::args().nth(1).unwrap_or_default();
    match mode.as_str() {
        // C04: DCE drops effectful call through record field
        "dce" => {
            for opt in [false, true] {
                let vm = vm();
                vm.get_database_mut().set_optimize(opt);
                vm.get_database_mut().run_io(true);
                let src = r#"
let io = import! std.io
let { (<-), ref, load } = import! std.reference
let prim = import! std.prim
let r = { f = \x -> error "boom" }
let _ = r.f 1
1
"#;
                let res = vm.run_expr::<i64>("t", src);
                println!("optimize={} -> {:?}", opt, res.map(|x| x.0).map_err(|e| e.to_string()));
            }
        }
        "expr" => {
            let src = std::env::args().nth(2).unwrap();
            for opt in [false, true] {
                let vm = vm();
                vm.get_database_mut().set_optimize(opt);
                vm.get_database_mut().run_io(true);
                let res = vm.run_expr::<OpaqueValue<&Thread, Hole>>("t", &src);
                match res {
                    Ok((v, t)) => println!("optimize={} -> Ok {:?} : {}", opt, v, t),
                    Err(e) => println!("optimize={} -> Err {}", opt, e),
                }
            }
        }
        "fail_stack_disabled" => {
            let vm = vm();
            vm.get_database_mut().run_io(true);
            let _ = vm.run_expr::<OpaqueValue<&Thread, Hole>>("warm", "import! std.int");
            vm.collect();
            println!("baseline mem {}", vm.allocated_memory());
        }
        "modref" => {
            let vm = vm();
            vm.get_database_mut().run_io(true);
            vm.load_script("cellmod", r#"
let { (<-), ref, load } = import! std.reference
let r = ref [1, 2, 3]
{ r }
"#).unwrap();
            let stress = std::env::args().nth(2).map(|s| s=="collect").unwrap_or(false);
            let r1 = vm.run_expr::<IO<()>>("store", r#"
let { (<-), ref, load } = import! std.reference
let { r } = import! cellmod
let array = import! std.array
r <- (array.append [40, 50, 60] [70, 80, 90])
"#);
            println!("store: {:?}", r1.map(|_| ()).map_err(|e| e.to_string()));
            if stress { vm.collect(); 
               // allocate garbage to overwrite freed memory
               let _ = vm.run_expr::<OpaqueValue<&Thread, Hole>>("junk", r#"
let array = import! std.array
array.append [1000001, 1000002, 1000003] [1000004, 1000005, 1000006]
"#);
            }
            let r2 = vm.run_expr::<IO<Vec<i64>>>("load", r#"
let { (<-), ref, load } = import! std.reference
let { r } = import! cellmod
load r
"#);
            match r2 { Ok((IO::Value(v), _)) => println!("load -> {:?}", v), Ok((IO::Exception(e),_)) => println!("exc {}", e), Err(e) => println!("err {}", e) }
        }
        "memlimit" => {
            for limit in [200usize, 300, 400, 500, 1000, 2000] {
                let vm = vm();
                vm.get_database_mut().implicit_prelude(false);
                let base = vm.allocated_memory();
                vm.set_memory_limit(base + limit);
                let res = vm.run_expr::<OpaqueValue<&Thread, Hole>>("t", "[[1,2,3,4],[1,2,3,4],[1,2,3,4],[5,6,7,8]]");
                let after = vm.allocated_memory();
                println!("limit={} base={} after={} over={} res={}", base+limit, base, after, after as i64 - (base+limit) as i64, match res { Ok(_) => "ok".to_string(), Err(e) => e.to_string().lines().next().unwrap_or("").to_string() });
            }
        }
        "failstack" => {
            let vm = vm();
            vm.get_database_mut().run_io(true);
            let _ = vm.run_expr::<OpaqueValue<&Thread, Hole>>("warm", "import! std.array");
            vm.collect();
            let m0 = vm.allocated_memory();
            for i in 0..5 {
                let r = vm.run_expr::<OpaqueValue<&Thread, Hole>>("f", r#"
let array = import! std.array
rec let f n xs = if n == 0 then error "boom" else 1 + f (n - 1) (array.append xs [n, n, n, n, n, n, n, n])
f 50 [0]
"#);
                vm.collect();
                println!("iter {} err={} mem_after_collect={} (base {})", i, r.is_err(), vm.allocated_memory(), m0);
            }
        }
        "iomod" => {
            let vm = vm();
            vm.get_database_mut().run_io(true);
            vm.load_script("iomod", r#"
let io = import! std.io
io.wrap 1
"#).unwrap();
            let r = vm.run_expr::<OpaqueValue<&Thread, Hole>>("use", r#"
let x = import! iomod
x
"#);
            match r { Ok((v,t)) => println!("ok {:?} : {}", v, t), Err(e) => println!("err {}", e) }
        }
        "modref2" => {
            let vm = vm();
            vm.get_database_mut().run_io(false);
            vm.load_script("cellmod", r#"
let { ref } = import! std.st.reference
let r = ref [1, 2, 3]
{ r }
"#).unwrap();
            let stress = std::env::args().nth(2).map(|s| s=="collect").unwrap_or(false);
            let r1 = vm.run_expr::<()>("store", r#"
let { (<-) } = import! std.st.reference
let { r } = import! cellmod
let array = import! std.array
r <- (array.append [40, 50, 60] [70, 80, 90])
"#);
            println!("store: {:?}", r1.map(|_| ()).map_err(|e| e.to_string()));
            if stress { vm.collect(); 
               let _ = vm.run_expr::<OpaqueValue<&Thread, Hole>>("junk", r#"
let array = import! std.array
array.append [1000001, 1000002, 1000003] [1000004, 1000005, 1000006]
"#);
            }
            let r2 = vm.run_expr::<Vec<i64>>("load", r#"
let { load } = import! std.st.reference
let { r } = import! cellmod
load r
"#);
            match r2 { Ok((v, _)) => println!("load -> {:?}", v), Err(e) => println!("err {}", e) }
        }
        "modlazy" => {
            let vm = vm();
            vm.get_database_mut().run_io(false);
            vm.load_script("lazymod", r#"
let { lazy } = import! std.lazy
let array = import! std.array
let l = lazy (\_ -> array.append [40, 50, 60] [70, 80, 90])
{ l }
"#).unwrap();
            let stress = std::env::args().nth(2).map(|s| s=="collect").unwrap_or(false);
            let r1 = vm.run_expr::<Vec<i64>>("force1", r#"
let { force } = import! std.lazy
let { l } = import! lazymod
force l
"#);
            println!("force1: {:?}", r1.map(|x| x.0).map_err(|e| e.to_string()));
            if stress { vm.collect(); 
               let _ = vm.run_expr::<OpaqueValue<&Thread, Hole>>("junk", r#"
let array = import! std.array
array.append [1000001, 1000002, 1000003] [1000004, 1000005, 1000006]
"#);
            }
            let r2 = vm.run_expr::<Vec<i64>>("force2", r#"
let { force } = import! std.lazy
let { l } = import! lazymod
force l
"#);
            match r2 { Ok((v, _)) => println!("force2 -> {:?}", v), Err(e) => println!("err {}", e) }
        }
        "lazyfail" => {
            let vm = vm();
            vm.load_script("lazymod", r#"
let { lazy } = import! std.lazy
let l = lazy (\_ -> if True then error "boom" else 1)
{ l }
"#).unwrap();
            let src = r#"
let { force } = import! std.lazy
let { l } = import! lazymod
force l
"#;
            let r1 = vm.run_expr::<i64>("force1", src);
            println!("force1 (main): {:?}", r1.map(|x| x.0).map_err(|e| e.to_string().lines().next().unwrap_or("").to_string()));
            let r1 = vm.run_expr::<i64>("force1b", src);
            println!("force again (main): {:?}", r1.map(|x| x.0).map_err(|e| e.to_string().lines().next().unwrap_or("").to_string()));
            let child = vm.new_thread().unwrap();
            println!("forcing from child thread...");
            let r2 = child.run_expr::<i64>("force2", src);
            println!("force2 (child): {:?}", r2.map(|x| x.0).map_err(|e| e.to_string().lines().next().unwrap_or("").to_string()));
        }
        "memsweep" => {
            let mut worst = i64::MIN; let mut worst_l = 0;
            for limit in (100usize..600).step_by(4) {
                let vm = vm();
                vm.get_database_mut().implicit_prelude(false);
                let base = vm.allocated_memory();
                vm.set_memory_limit(base + limit);
                let res = vm.run_expr::<OpaqueValue<&Thread, Hole>>("t", "[[1,2,3,4],[1,2,3,4],[1,2,3,4],[5,6,7,8]]");
                let after = vm.allocated_memory();
                let over = after as i64 - (base+limit) as i64;
                if over > worst { worst = over; worst_l = limit; }
                if over > 0 { println!("limit=base+{} after-limit={} res_ok={}", limit, over, res.is_ok()); }
            }
            println!("worst over = {} at base+{}", worst, worst_l);
        }
        "fmt" => {
            let src = std::env::args().nth(2).unwrap();
            let vm = vm();
            let mut f = gluon_format::Formatter::default();
            let r = vm.format_expr(&mut f, "x", &src);
            println!("{:?}", r.map_err(|e| e.to_string()));
        }
        "reload" => {
            let vm = vm();
            vm.get_database_mut().implicit_prelude(false);
            let show = |r: gluon::Result<(i64, gluon::base::types::ArcType)>| match r { Ok((v,_)) => format!("Ok {}", v), Err(e) => format!("Err {}", e.to_string().lines().next().unwrap_or("")) };
            println!("load a=1: {:?}", vm.load_script("a", "1").map_err(|e| e.to_string()));
            println!("load b=a+10: {:?}", vm.load_script("b", "let a = import! a\na #Int+ 10").map_err(|e| e.to_string()));
            println!("eval b: {}", show(vm.run_expr::<i64>("e1", "import! b")));
            println!("load a=2: {:?}", vm.load_script("a", "2").map_err(|e| e.to_string()));
            println!("eval a: {}", show(vm.run_expr::<i64>("e2", "import! a")));
            println!("eval b: {}", show(vm.run_expr::<i64>("e3", "import! b")));
            println!("load a=\"s\": {:?}", vm.load_script("a", "\"s\"").map_err(|e| e.to_string().lines().next().map(|s| s.to_string())));
            println!("eval b: {}", show(vm.run_expr::<i64>("e4", "import! b")));
            println!("load a = import b (cycle): {:?}", vm.load_script("a", "let b = import! b\nb").map_err(|e| e.to_string().lines().next().map(|s| s.to_string())));
            println!("eval b: {}", show(vm.run_expr::<i64>("e5", "import! b")));
        }
        "comments" => {
            use gluon_base::source::{FileMap, Source};
            use gluon_base::pos::{BytePos, Span};
            let src = std::env::args().nth(2).unwrap();
            let fm = FileMap::new("t".into(), src.clone());
            let sp = Source::span(&fm);
            let fwd: Vec<String> = fm.comments_between(sp).map(|s| s.to_string()).collect();
            println!("fwd {:?}", fwd);
            let rev: Vec<String> = fm.comments_between(sp).rev().map(|s| s.to_string()).collect();
            println!("rev {:?}", rev);
        }
        "find" => {
            let src = std::env::args().nth(2).unwrap();
            let vm = vm();
            vm.get_database_mut().implicit_prelude(false);
            let (expr, _t) = match vm.typecheck_str("t", &src, None) { Ok(x) => x, Err(e) => { println!("tc err {}", e.to_string().lines().next().unwrap_or("")); return; } };
            let fm = vm.get_database().get_filemap("t").unwrap();
            let span = gluon_base::source::Source::span(&*fm);
            for off in span.start().0..=span.end().0 {
                let r = gluon_completion::find(&vm.get_env(), span, &expr.expr(), gluon_base::pos::BytePos(off));
                println!("{} -> {:?}", off, r.map(|e| match e { gluon::either::Either::Left(k) => format!("kind {}", k), gluon::either::Either::Right(t) => format!("{}", t) }));
            }
        }
        _ => println!("unknown"),
    }
}
