use gluon::{ThreadExt, Thread, RootedThread, vm::api::{Hole, OpaqueValue}};
use gluon::compiler_pipeline::*;
use gluon::base::types::TypePtr;

fn vm() -> RootedThread {
    gluon::VmBuilder::new().import_paths(Some(vec!["/repo".into()])).build()
}

fn main() {
    let mode = std::env::args().nth(1).unwrap_or_default();
    match mode.as_str() {
        "bytecode" => {
            let progs = [
                "1 #Int+ 2",
                "let f x = x #Int+ 1 in f 41",
                "rec let even n = if n #Int== 0 then True else odd (n #Int- 1)\nlet odd n = if n #Int== 0 then False else even (n #Int- 1)\nin even 10",
                "type T = | A Int | B String in match A 3 with | A x -> x | B _ -> 0",
                "let r = { x = 1, y = \"s\", z = 2.5 } in r.z",
                "let f x y z = x #Int+ y #Int+ z in let g = f 1 in g 2 3",
            ];
            for p in progs.iter() {
                let t1 = vm(); t1.get_database_mut().implicit_prelude(false);
                let direct = t1.run_expr::<OpaqueValue<&Thread, Hole>>("test", p).map(|(v,_)| format!("{:?}", v)).map_err(|e| e.to_string());
                let mut buffer = Vec::new();
                {
                    let mut ser = serde_json::Serializer::new(&mut buffer);
                    let r = futures::executor::block_on(t1.compile_to_bytecode("test", p, &mut ser));
                    if let Err(_e) = r { println!("compile_to_bytecode failed for {:?}", p); continue; }
                }
                let t2 = vm(); t2.get_database_mut().implicit_prelude(false);
                let pre = {
                    let mut de = serde_json::Deserializer::from_slice(&buffer);
                    futures::executor::block_on(Precompiled(&mut de).run_expr(&mut t2.module_compiler(&mut t2.get_database()), &*t2, "test", "", ()))
                        .map(|v| format!("{:?}", v.value)).map_err(|e| e.to_string())
                };
                println!("{:60} direct={:?} pre={:?} bytes={}", p.replace('\n', " "), direct, pre, buffer.len());
                // truncations
                let mut errs = 0; let mut oks = 0; let mut panics = 0;
                let n = buffer.len();
                for cut in (0..n).step_by(std::cmp::max(1, n / 40)) {
                    let slice = buffer[..cut].to_vec();
                    let r = std::panic::catch_unwind(|| {
                        let t3 = vm(); t3.get_database_mut().implicit_prelude(false);
                        let mut de = serde_json::Deserializer::from_slice(&slice);
                        futures::executor::block_on(Precompiled(&mut de).run_expr(&mut t3.module_compiler(&mut t3.get_database()), &*t3, "test", "", ())).is_ok()
                    });
                    match r { Ok(true) => oks += 1, Ok(false) => errs += 1, Err(_) => { panics += 1; println!("   PANIC at cut {}", cut); } }
                }
                println!("   truncations: err={} ok={} panic={}", errs, oks, panics);
            }
        }
        "xfer" => {
            use gluon::vm::thread::RootedValue;
            let root = vm(); root.get_database_mut().implicit_prelude(false);
            let a = root.new_thread().unwrap();
            let b = root.new_thread().unwrap();
            let (va, _) = a.run_expr::<OpaqueValue<RootedThread, Hole>>("a", "[1, 2, 3]").unwrap();
            let (vb, _) = b.run_expr::<OpaqueValue<RootedThread, Hole>>("b", "[4, 5, 6]").unwrap();
            let va: RootedValue<RootedThread> = va.into_inner();
            let vb: RootedValue<RootedThread> = vb.into_inner();
            let (a1, b1) = (a.clone(), b.clone());
            let (tx, rx) = std::sync::mpsc::channel();
            let tx2 = tx.clone();
            let h1 = std::thread::spawn(move || { for _ in 0..20000 { let _x = va.re_root(b1.clone()).unwrap(); } tx.send(1).unwrap(); });
            let h2 = std::thread::spawn(move || { for _ in 0..20000 { let _y = vb.re_root(a1.clone()).unwrap(); } tx2.send(2).unwrap(); });
            let mut done = 0;
            let start = std::time::Instant::now();
            while done < 2 && start.elapsed().as_secs() < 20 {
                if let Ok(_) = rx.recv_timeout(std::time::Duration::from_millis(500)) { done += 1; }
            }
            println!("xfer: done={} of 2 after {:?}", done, start.elapsed());
            if done < 2 { println!("DEADLOCK suspected"); std::process::exit(3); }
            h1.join().unwrap(); h2.join().unwrap();
        }
        "typeprint" => {
            let t = vm(); t.get_database_mut().implicit_prelude(false);
            let progs = [
                r"\f -> f (\x -> x) 1",
                r"\(f : (Int -> Int) -> Int) -> f",
                "type T a = | A (Int -> a) | B in A",
                "type R = { (+) : Int -> Int -> Int, x : forall a . a -> a } in \\(r : R) -> r",
                r"\r -> r.aaaaaaaaaaaaaaaaaaaa.bbbbbbbbbbbbbbbbbbbbbbbb.ccccccccccccccccccccc",
                "let f ?x y : [Int] -> Int -> Int = y in f",
                "type T = | A Int String | B { x : Int } in \\(x : T) -> x",
                "type O a = | N | S a in \\(x : O (O Int -> Int)) -> x",
            ];
            for (i, p) in progs.iter().enumerate() {
                match t.typecheck_str(&format!("p{}", i), p, None) {
                    Ok((_e, ty)) => { for w in [20usize, 200] { println!("[{}] w={} {}", i, w, ty.display::<()>(w).to_string().replace('\n', "⏎")); } }
                    Err(e) => println!("[{}] ! {}", i, e.to_string().lines().take(3).collect::<Vec<_>>().join(" | ")),
                }
            }
        }
        _ => println!("unknown"),
    }
}
