//! `Surf`: the surface mini-Gluon shared by the program-level checks (C01, C02, C04, C05, C07 …).
//!
//! * a typed AST (`Expr`, `Pat`, `Ty`) for a fragment of Gluon,
//! * a type-directed generator of closed, terminating-by-construction programs
//!   (recursion only through fixed schemes whose measure decreases),
//! * a printer to Gluon source text and a printer to the S-expression form the Lean model
//!   (`GluonModel.Surf`) reads,
//! * canonical rendering of run-time values.
use crate::rng::Rng;
use crate::quote;
use std::fmt::Write;

#[derive(Clone, Debug, PartialEq)]
pub enum Ty {
    Int,
    Str,
    Bool,
    Unit,
    Fun(Box<Ty>, Box<Ty>),
    Rec(Vec<(String, Ty)>),
    Tup(Vec<Ty>),
    /// index into `DECLS`
    Named(usize),
    Arr(Box<Ty>),
}

pub struct Decl {
    pub name: &'static str,
    pub ctors: &'static [(&'static str, &'static [TyRef])],
}

/// constructor argument types of the fixed declarations
#[derive(Clone, Copy, Debug, PartialEq)]
pub enum TyRef {
    Int,
    Str,
    Named(usize),
}

impl TyRef {
    pub fn ty(self) -> Ty {
        match self {
            TyRef::Int => Ty::Int,
            TyRef::Str => Ty::Str,
            TyRef::Named(i) => Ty::Named(i),
        }
    }
}

/// The algebraic types every generated program declares.
pub const DECLS: &[Decl] = &[
    Decl {
        name: "Sh",
        ctors: &[
            ("Circle", &[TyRef::Int]),
            ("Rect", &[TyRef::Int, TyRef::Int]),
            ("Dot", &[]),
            ("Label", &[TyRef::Str, TyRef::Int]),
        ],
    },
    Decl {
        name: "L",
        ctors: &[("Nil", &[]), ("Cons", &[TyRef::Int, TyRef::Named(1)])],
    },
    Decl {
        name: "Tr",
        ctors: &[
            ("Leaf", &[]),
            ("Node", &[TyRef::Named(2), TyRef::Int, TyRef::Named(2)]),
            ("Tip", &[TyRef::Named(0)]),
        ],
    },
];

pub const HEADER: &str = "let { Bool } = import! std.types\nlet { error } = import! std.prim\ntype Sh = | Circle Int | Rect Int Int | Dot | Label String Int\ntype L = | Nil | Cons Int L\ntype Tr = | Leaf | Node Tr Int Tr | Tip Sh\n";

#[derive(Clone, Debug, PartialEq)]
pub enum Pat {
    Wild,
    Var(String),
    Int(i64),
    Str(String),
    Ctor { ty: usize, tag: usize, args: Vec<Pat> },
    /// (field name, index of the field in the scrutinee's record type, sub-pattern)
    Rec(Vec<(String, usize, Pat)>),
    Tup(Vec<Pat>),
    As(String, Box<Pat>),
}

#[derive(Clone, Debug, PartialEq)]
pub enum Src {
    Field(usize),
    Base(usize),
}

#[derive(Clone, Debug, PartialEq)]
pub enum Expr {
    Int(i64),
    Str(String),
    Var(String),
    Unit,
    True,
    False,
    Lam(Vec<String>, Box<Expr>),
    App(Box<Expr>, Vec<Expr>),
    Let(Pat, Box<Expr>, Box<Expr>),
    LetFun(String, Vec<String>, Box<Expr>, Box<Expr>),
    LetRec(Vec<(String, Vec<String>, Expr)>, Box<Expr>),
    If(Box<Expr>, Box<Expr>, Box<Expr>),
    Prim(&'static str, Box<Expr>, Box<Expr>),
    And(Box<Expr>, Box<Expr>),
    Or(Box<Expr>, Box<Expr>),
    Ctor { ty: usize, tag: usize },
    Match(Box<Expr>, Vec<(Pat, Expr)>),
    Record { fields: Vec<(String, Expr)>, base: Option<Box<Expr>>, layout: Vec<Src> },
    Proj(Box<Expr>, String, usize),
    Tuple(Vec<Expr>),
    Array(Vec<Expr>),
    Error(String),
}

pub fn b(e: Expr) -> Box<Expr> {
    Box::new(e)
}

/// A pattern that matches every value.
pub fn is_catch_all(p: &Pat) -> bool {
    match p {
        Pat::Wild | Pat::Var(_) => true,
        Pat::As(_, q) => is_catch_all(q),
        Pat::Tup(ps) => ps.iter().all(is_catch_all),
        Pat::Rec(fs) => fs.iter().all(|(_, _, q)| is_catch_all(q)),
        _ => false,
    }
}

/// `n < 1 || 8 < n`: the stop condition of every recursion scheme (keeps loops short whatever
/// argument the generated call site passes).
fn guard(n: &str) -> Expr {
    Expr::Or(
        b(Expr::Prim("<", b(Expr::Var(n.to_string())), b(Expr::Int(1)))),
        b(Expr::Prim("<", b(Expr::Int(8)), b(Expr::Var(n.to_string())))),
    )
}

// ---------------------------------------------------------------------------------------------
// Printing: Gluon text

pub fn is_atomic(e: &Expr) -> bool {
    match e {
        Expr::Int(i) => *i >= 0,
        Expr::Str(_) | Expr::Var(_) | Expr::Unit | Expr::True | Expr::False | Expr::Tuple(_)
        | Expr::Array(_) | Expr::Record { .. } | Expr::Ctor { .. } => true,
        Expr::Proj(..) | Expr::Match(..) => true,
        _ => false,
    }
}

fn str_lit(s: &str) -> String {
    let mut o = String::from("\"");
    for c in s.chars() {
        match c {
            '"' => o.push_str("\\\""),
            '\\' => o.push_str("\\\\"),
            '\n' => o.push_str("\\n"),
            '\t' => o.push_str("\\t"),
            '\r' => o.push_str("\\r"),
            c => o.push(c),
        }
    }
    o.push('"');
    o
}

pub fn pat_text(p: &Pat, atomic: bool) -> String {
    match p {
        Pat::Wild => "_".into(),
        Pat::Var(x) => x.clone(),
        Pat::Int(i) => format!("{}", i),
        Pat::Str(s) => str_lit(s),
        Pat::Ctor { ty, tag, args } => {
            let name = DECLS[*ty].ctors[*tag].0;
            if args.is_empty() {
                name.to_string()
            } else {
                let mut s = name.to_string();
                for a in args {
                    s.push(' ');
                    s.push_str(&pat_text(a, true));
                }
                if atomic {
                    format!("({})", s)
                } else {
                    s
                }
            }
        }
        Pat::Rec(fs) => {
            let parts: Vec<String> = fs
                .iter()
                .map(|(n, _, p)| match p {
                    Pat::Var(x) if x == n => n.clone(),
                    p => format!("{} = {}", n, pat_text(p, false)),
                })
                .collect();
            if parts.is_empty() {
                "{ }".into()
            } else {
                format!("{{ {} }}", parts.join(", "))
            }
        }
        Pat::Tup(ps) => {
            let parts: Vec<String> = ps.iter().map(|p| pat_text(p, false)).collect();
            format!("({})", parts.join(", "))
        }
        Pat::As(x, p) => format!("{}@{}", x, pat_text(p, true)),
    }
}

thread_local! {
    static MATCH_ID: std::cell::Cell<usize> = std::cell::Cell::new(0);
}

/// Resolve the indentation markers emitted for `match` (see `text`).
pub fn layout_fix(s: &str) -> String {
    let mut out = String::with_capacity(s.len() * 2);
    let mut col = 0usize;
    let mut cols: std::collections::HashMap<usize, usize> = Default::default();
    let mut it = s.chars().peekable();
    while let Some(c) = it.next() {
        match c {
            '\u{1}' | '\u{2}' => {
                let mut n = 0usize;
                while let Some(d) = it.next() {
                    if d == '\u{3}' {
                        break;
                    }
                    n = n * 10 + d.to_digit(10).unwrap_or(0) as usize;
                }
                if c == '\u{1}' {
                    cols.insert(n, col);
                } else {
                    let k = cols.get(&n).cloned().unwrap_or(0) + 2;
                    for _ in 0..k {
                        out.push(' ');
                    }
                    col = k;
                }
            }
            '\n' => {
                out.push('\n');
                col = 0;
            }
            c => {
                out.push(c);
                col += 1;
            }
        }
    }
    out
}

/// Parenthesise the forms that extend as far to the right as possible.
pub fn guarded(e: &Expr, ind: usize) -> String {
    match e {
        Expr::If(..) | Expr::Lam(..) | Expr::Let(..) | Expr::LetFun(..) | Expr::LetRec(..) => {
            format!("({})", text(e, ind))
        }
        _ => text(e, ind),
    }
}

pub fn paren(e: &Expr, ind: usize) -> String {
    if is_atomic(e) {
        text(e, ind)
    } else {
        format!("({})", text(e, ind))
    }
}

/// Single-line, fully explicit (`in`, parentheses) rendering of an expression.
pub fn text(e: &Expr, ind: usize) -> String {
    match e {
        Expr::Int(i) => {
            if *i == i64::MIN {
                "(0 #Int- 9223372036854775807 #Int- 1)".into()
            } else if *i < 0 {
                format!("(0 #Int- {})", -i)
            } else {
                format!("{}", i)
            }
        }
        Expr::Str(s) => str_lit(s),
        Expr::Var(x) => x.clone(),
        Expr::Unit => "()".into(),
        Expr::True => "True".into(),
        Expr::False => "False".into(),
        Expr::Lam(xs, body) => format!("\\{} -> {}", xs.join(" "), text(body, ind)),
        Expr::App(f, args) => {
            let mut s = paren(f, ind);
            for a in args {
                s.push(' ');
                s.push_str(&paren(a, ind));
            }
            s
        }
        Expr::Let(p, e1, e2) => {
            format!("let {} = {} in {}", pat_text(p, false), guarded(e1, ind), text(e2, ind))
        }
        Expr::LetFun(f, xs, e1, e2) => {
            format!("let {} {} = {} in {}", f, xs.join(" "), guarded(e1, ind), text(e2, ind))
        }
        Expr::LetRec(bs, body) => {
            let mut s = String::from("rec ");
            for (f, xs, e) in bs {
                if xs.is_empty() {
                    let _ = write!(s, "let {} = {} ", f, guarded(e, ind));
                } else {
                    let _ = write!(s, "let {} {} = {} ", f, xs.join(" "), guarded(e, ind));
                }
            }
            let _ = write!(s, "in {}", text(body, ind));
            s
        }
        Expr::If(c, a, bb) => {
            format!("if {} then {} else {}", guarded(c, ind), guarded(a, ind), guarded(bb, ind))
        }
        Expr::Prim(op, a, bb) => format!("{} #Int{} {}", paren(a, ind), op, paren(bb, ind)),
        Expr::And(a, bb) => format!("{} && {}", paren(a, ind), paren(bb, ind)),
        Expr::Or(a, bb) => format!("{} || {}", paren(a, ind), paren(bb, ind)),
        Expr::Ctor { ty, tag } => DECLS[*ty].ctors[*tag].0.to_string(),
        Expr::Match(s, alts) => {
            // alternatives must start their own lines (the layout rule closes an alternative's
            // block only at a line break), indented deeper than the enclosing alternative
            // Always parenthesised, and every alternative starts its own line (the layout rule
            // closes an alternative's block only at a line break) at a column *deeper than the
            // `match` keyword itself*, so that neither the alternatives nor anything following
            // the closing parenthesis on the last line is offside with respect to an enclosing
            // block. The column is only known once the text before it is laid out, so markers
            // are emitted here and resolved by `layout_fix`.
            let id = MATCH_ID.with(|c| {
                let v = c.get() + 1;
                c.set(v);
                v
            });
            let mut o = format!("(\u{1}{}\u{3}match {} with", id, guarded(s, ind));
            for (p, e) in alts {
                let _ = write!(o, "\n\u{2}{}\u{3}| {} -> {}", id, pat_text(p, false), paren(e, ind));
            }
            o.push(')');
            o
        }
        Expr::Record { fields, base, .. } => {
            let mut parts: Vec<String> =
                fields.iter().map(|(n, e)| format!("{} = {}", n, guarded(e, ind))).collect();
            if let Some(bs) = base {
                parts.push(format!(".. {}", paren(bs, ind)));
            }
            if parts.is_empty() {
                "{ }".into()
            } else {
                format!("{{ {} }}", parts.join(", "))
            }
        }
        Expr::Proj(e, f, _) => format!("{}.{}", paren(e, ind), f),
        Expr::Tuple(es) => {
            let parts: Vec<String> = es.iter().map(|x| guarded(x, ind)).collect();
            format!("({})", parts.join(", "))
        }
        Expr::Array(es) => {
            let parts: Vec<String> = es.iter().map(|x| guarded(x, ind)).collect();
            format!("[{}]", parts.join(", "))
        }
        Expr::Error(m) => format!("error {}", str_lit(m)),
    }
}

/// A whole program: header, then the top-level spine (`let`/`rec` bindings one per line, using
/// the layout rule instead of `in`), then the result expression.
pub fn program_text(e: &Expr) -> String {
    let mut out = String::from(HEADER);
    let mut cur = e;
    loop {
        match cur {
            Expr::Let(p, e1, e2) => {
                let _ = writeln!(out, "let {} = {}", pat_text(p, false), guarded(e1, 4));
                cur = e2;
            }
            Expr::LetFun(f, xs, e1, e2) => {
                let _ = writeln!(out, "let {} {} = {}", f, xs.join(" "), guarded(e1, 4));
                cur = e2;
            }
            Expr::LetRec(bs, body) => {
                out.push_str("rec\n");
                for (f, xs, e) in bs {
                    if xs.is_empty() {
                        let _ = writeln!(out, "let {} = {}", f, guarded(e, 4));
                    } else {
                        let _ = writeln!(out, "let {} {} =\n    {}", f, xs.join(" "), guarded(e, 4));
                    }
                }
                out.push_str("in\n");
                cur = body;
            }
            _ => break,
        }
    }
    out.push_str(&text(cur, 0));
    out.push('\n');
    layout_fix(&out)
}

/// Final text of a single expression.
pub fn expr_text(e: &Expr) -> String {
    layout_fix(&text(e, 0))
}

// ---------------------------------------------------------------------------------------------
// Printing: S-expression for the Lean model

pub fn pat_sexp(p: &Pat) -> String {
    match p {
        Pat::Wild => "(pw)".into(),
        Pat::Var(x) => format!("(pv {})", quote(x)),
        Pat::Int(i) => format!("(pi {})", i),
        Pat::Str(s) => format!("(ps {})", quote(s)),
        Pat::Ctor { tag, args, .. } => {
            let mut s = format!("(pc {}", tag);
            for a in args {
                s.push(' ');
                s.push_str(&pat_sexp(a));
            }
            s.push(')');
            s
        }
        Pat::Rec(fs) => {
            let mut s = String::from("(pr");
            for (_, i, p) in fs {
                let _ = write!(s, " ({} {})", i, pat_sexp(p));
            }
            s.push(')');
            s
        }
        Pat::Tup(ps) => {
            let mut s = String::from("(pr");
            for (i, p) in ps.iter().enumerate() {
                let _ = write!(s, " ({} {})", i, pat_sexp(p));
            }
            s.push(')');
            s
        }
        Pat::As(x, p) => format!("(pas {} {})", quote(x), pat_sexp(p)),
    }
}

fn names_sexp(xs: &[String]) -> String {
    let v: Vec<String> = xs.iter().map(|x| quote(x)).collect();
    format!("({})", v.join(" "))
}

pub fn sexp(e: &Expr) -> String {
    match e {
        Expr::Int(i) => format!("(int {})", i),
        Expr::Str(s) => format!("(str {})", quote(s)),
        Expr::Var(x) => format!("(var {})", quote(x)),
        Expr::Unit => "(rec)".into(),
        Expr::True => "(ctor 1 0)".into(),
        Expr::False => "(ctor 0 0)".into(),
        Expr::Lam(xs, body) => format!("(lam {} {})", names_sexp(xs), sexp(body)),
        Expr::App(f, args) => {
            let mut s = format!("(app {}", sexp(f));
            for a in args {
                s.push(' ');
                s.push_str(&sexp(a));
            }
            s.push(')');
            s
        }
        Expr::Let(p, e1, e2) => format!("(let {} {} {})", pat_sexp(p), sexp(e1), sexp(e2)),
        Expr::LetFun(f, xs, e1, e2) => format!(
            "(let (pv {}) (lam {} {}) {})",
            quote(f),
            names_sexp(xs),
            sexp(e1),
            sexp(e2)
        ),
        Expr::LetRec(bs, body) => {
            let mut s = String::from("(letrec (");
            for (f, xs, e) in bs {
                let _ = write!(s, "({} {} {})", quote(f), names_sexp(xs), sexp(e));
            }
            let _ = write!(s, ") {})", sexp(body));
            s
        }
        Expr::If(c, a, bb) => format!("(if {} {} {})", sexp(c), sexp(a), sexp(bb)),
        Expr::Prim(op, a, bb) => format!("(prim {} {} {})", quote(op), sexp(a), sexp(bb)),
        Expr::And(a, bb) => format!("(and {} {})", sexp(a), sexp(bb)),
        Expr::Or(a, bb) => format!("(or {} {})", sexp(a), sexp(bb)),
        Expr::Ctor { ty, tag } => format!("(ctor {} {})", tag, DECLS[*ty].ctors[*tag].1.len()),
        Expr::Match(s, alts) => {
            let mut o = format!("(match {}", sexp(s));
            for (p, e) in alts {
                let _ = write!(o, " ({} {})", pat_sexp(p), sexp(e));
            }
            o.push(')');
            o
        }
        Expr::Record { fields, base, layout } => {
            let mut s = String::from("(record (");
            for (_, e) in fields {
                s.push_str(&sexp(e));
                s.push(' ');
            }
            s.push_str(") ");
            match base {
                Some(bs) => s.push_str(&sexp(bs)),
                None => s.push_str("none"),
            }
            s.push_str(" (");
            for l in layout {
                match l {
                    Src::Field(i) => {
                        let _ = write!(s, "(f {}) ", i);
                    }
                    Src::Base(j) => {
                        let _ = write!(s, "(b {}) ", j);
                    }
                }
            }
            s.push_str("))");
            s
        }
        Expr::Proj(e, _, i) => format!("(proj {} {})", sexp(e), i),
        Expr::Tuple(es) => {
            let mut s = String::from("(record (");
            for e in es {
                s.push_str(&sexp(e));
                s.push(' ');
            }
            s.push_str(") none (");
            for i in 0..es.len() {
                let _ = write!(s, "(f {}) ", i);
            }
            s.push_str("))");
            s
        }
        Expr::Array(es) => {
            let mut s = String::from("(array");
            for e in es {
                s.push(' ');
                s.push_str(&sexp(e));
            }
            s.push(')');
            s
        }
        Expr::Error(m) => format!("(error {})", quote(m)),
    }
}

pub fn size(e: &Expr) -> usize {
    let mut n = 1;
    visit(e, &mut |_| n += 1);
    n
}

pub fn visit(e: &Expr, f: &mut dyn FnMut(&Expr)) {
    f(e);
    match e {
        Expr::Lam(_, b) => visit(b, f),
        Expr::App(g, a) => {
            visit(g, f);
            for x in a {
                visit(x, f)
            }
        }
        Expr::Let(_, a, b) | Expr::LetFun(_, _, a, b) => {
            visit(a, f);
            visit(b, f)
        }
        Expr::LetRec(bs, b) => {
            for (_, _, e) in bs {
                visit(e, f)
            }
            visit(b, f)
        }
        Expr::If(a, b, c) => {
            visit(a, f);
            visit(b, f);
            visit(c, f)
        }
        Expr::Prim(_, a, b) | Expr::And(a, b) | Expr::Or(a, b) => {
            visit(a, f);
            visit(b, f)
        }
        Expr::Match(s, alts) => {
            visit(s, f);
            for (_, e) in alts {
                visit(e, f)
            }
        }
        Expr::Record { fields, base, .. } => {
            for (_, e) in fields {
                visit(e, f)
            }
            if let Some(b) = base {
                visit(b, f)
            }
        }
        Expr::Proj(e, _, _) => visit(e, f),
        Expr::Tuple(es) | Expr::Array(es) => {
            for e in es {
                visit(e, f)
            }
        }
        _ => {}
    }
}

/// Names of the constructs an expression uses (for the distribution / non-triviality rule).
pub fn constructs(e: &Expr) -> std::collections::BTreeSet<&'static str> {
    let mut s = std::collections::BTreeSet::new();
    visit(e, &mut |x| {
        s.insert(match x {
            Expr::Int(_) | Expr::Str(_) | Expr::Unit | Expr::True | Expr::False => "lit",
            Expr::Var(_) => "var",
            Expr::Lam(..) => "lam",
            Expr::App(..) => "app",
            Expr::Let(Pat::Var(_), ..) | Expr::Let(Pat::Wild, ..) => "let",
            Expr::Let(..) => "let-pattern",
            Expr::LetFun(..) => "let-fun",
            Expr::LetRec(..) => "letrec",
            Expr::If(..) => "if",
            Expr::Prim(..) => "prim",
            Expr::And(..) | Expr::Or(..) => "shortcircuit",
            Expr::Ctor { .. } => "ctor",
            Expr::Match(..) => "match",
            Expr::Record { base: Some(_), .. } => "record-update",
            Expr::Record { .. } => "record",
            Expr::Proj(..) => "proj",
            Expr::Tuple(_) => "tuple",
            Expr::Array(_) => "array",
            Expr::Error(_) => "error",
        });
    });
    s
}

// ---------------------------------------------------------------------------------------------
// Generator

pub struct Gen<'a> {
    pub rng: &'a mut Rng,
    pub fresh: usize,
    /// probability knobs (per mille)
    pub fail_bias: u64,
    /// while generating the alternatives of one `match`: record patterns of one type all name
    /// the same fields, each with an explicit `field = pattern` (mixing field sets / shorthand
    /// fields across alternatives hits a known PatternTranslator panic, see known_findings.json)
    pub stable_rec: Option<u64>,
}

type Env = Vec<(String, Ty)>;

fn fun(args: &[Ty], ret: Ty) -> Ty {
    args.iter().rev().fold(ret, |acc, a| Ty::Fun(Box::new(a.clone()), Box::new(acc)))
}

/// Split a function type into (argument types, final result).
pub fn uncurry(t: &Ty) -> (Vec<Ty>, Ty) {
    let mut args = vec![];
    let mut cur = t.clone();
    while let Ty::Fun(a, r) = cur {
        args.push(*a);
        cur = *r;
    }
    (args, cur)
}

const STRS: &[&str] = &["", "a", "b", "hello", "h\u{e9}llo", "x\"y", "tab\there", "\u{4e16}\u{754c}", "a b"];
const FIELD_NAMES: &[&str] = &["a", "b", "c", "d", "x", "y", "z", "w", "k", "n"];

impl<'a> Gen<'a> {
    pub fn new(rng: &'a mut Rng) -> Gen<'a> {
        Gen { rng, fresh: 0, fail_bias: 60, stable_rec: None }
    }

    fn name(&mut self, p: &str) -> String {
        self.fresh += 1;
        format!("{}{}", p, self.fresh)
    }

    pub fn ty(&mut self, depth: u32) -> Ty {
        let k = self.rng.below(if depth == 0 { 5 } else { 12 });
        match k {
            0 | 1 => Ty::Int,
            2 => Ty::Str,
            3 => Ty::Bool,
            4 => Ty::Named(self.rng.below(DECLS.len() as u64) as usize),
            5 | 6 => {
                let n = self.rng.range(1, 2) as usize;
                let args: Vec<Ty> = (0..n).map(|_| self.ty(depth - 1)).collect();
                let r = self.ty(depth - 1);
                fun(&args, r)
            }
            7 | 8 => self.rec_ty(depth),
            9 => {
                let n = self.rng.range(2, 3) as usize;
                Ty::Tup((0..n).map(|_| self.ty(depth - 1)).collect())
            }
            10 => Ty::Arr(Box::new(self.ty(0))),
            _ => Ty::Unit,
        }
    }

    fn rec_ty(&mut self, depth: u32) -> Ty {
        // occasionally a large record (the compiler switches access strategy above 4 fields)
        let n = if self.rng.chance(1, 5) { self.rng.range(5, 8) } else { self.rng.range(1, 4) } as usize;
        let mut names: Vec<&str> = FIELD_NAMES.to_vec();
        let mut fs = vec![];
        for _ in 0..n {
            let i = self.rng.below(names.len() as u64) as usize;
            let nm = names.remove(i);
            fs.push((nm.to_string(), self.ty(depth.saturating_sub(1))));
        }
        Ty::Rec(fs)
    }

    fn int_lit(&mut self) -> Expr {
        let k = self.rng.below(1000);
        if k < self.fail_bias / 2 {
            Expr::Int(*self.rng.pick(&[i64::MAX, i64::MIN, i64::MAX - 1, 4611686018427387904, 3037000500]))
        } else if k < 500 {
            Expr::Int(self.rng.range(0, 3))
        } else {
            Expr::Int(self.rng.range(-5, 20))
        }
    }

    fn vars_of<'e>(&mut self, env: &'e Env, t: &Ty) -> Vec<&'e String> {
        // later bindings shadow earlier ones of the same name
        let mut out = vec![];
        for (i, (n, ty)) in env.iter().enumerate() {
            if ty == t && !env[i + 1..].iter().any(|(m, _)| m == n) {
                out.push(n);
            }
        }
        out
    }

    /// A leaf of the given type.
    fn leaf(&mut self, t: &Ty, env: &Env) -> Expr {
        let vs = self.vars_of(env, t);
        if !vs.is_empty() && self.rng.chance(3, 5) {
            let i = self.rng.below(vs.len() as u64) as usize;
            return Expr::Var(vs[i].clone());
        }
        match t {
            Ty::Int => self.int_lit(),
            Ty::Str => Expr::Str(self.rng.pick(STRS).to_string()),
            Ty::Bool => {
                if self.rng.chance(1, 2) {
                    Expr::True
                } else {
                    Expr::False
                }
            }
            Ty::Unit => Expr::Unit,
            Ty::Fun(..) => {
                let (args, ret) = uncurry(t);
                // how many parameters this lambda takes at once (the rest is returned as a
                // function): exercises partial / over-application at the call sites
                let n = self.rng.range(1, args.len() as i64) as usize;
                let mut env2 = env.clone();
                let mut xs = vec![];
                for a in &args[..n] {
                    let x = self.name("p");
                    env2.push((x.clone(), a.clone()));
                    xs.push(x);
                }
                let rest = fun(&args[n..], ret);
                let body = self.leaf(&rest, &env2);
                Expr::Lam(xs, b(body))
            }
            Ty::Rec(fs) => {
                let fields: Vec<(String, Expr)> =
                    fs.iter().map(|(n, ft)| (n.clone(), self.leaf(ft, env))).collect();
                let layout = (0..fs.len()).map(Src::Field).collect();
                Expr::Record { fields, base: None, layout }
            }
            Ty::Tup(ts) => Expr::Tuple(ts.iter().map(|x| self.leaf(x, env)).collect()),
            Ty::Named(d) => {
                // a constructor with leaf arguments; prefer nullary ones to stay small
                let ctors = DECLS[*d].ctors;
                let nullary: Vec<usize> =
                    (0..ctors.len()).filter(|i| ctors[*i].1.is_empty()).collect();
                let tag = if !nullary.is_empty() && self.rng.chance(1, 2) {
                    *self.rng.pick(&nullary)
                } else {
                    let nonrec: Vec<usize> = (0..ctors.len())
                        .filter(|i| !ctors[*i].1.iter().any(|a| *a == TyRef::Named(*d)))
                        .collect();
                    *self.rng.pick(&nonrec)
                };
                let args: Vec<Expr> = ctors[tag].1.iter().map(|a| self.leaf(&a.ty(), env)).collect();
                if args.is_empty() {
                    Expr::Ctor { ty: *d, tag }
                } else {
                    Expr::App(b(Expr::Ctor { ty: *d, tag }), args)
                }
            }
            Ty::Arr(et) => {
                let n = self.rng.below(3) as usize;
                Expr::Array((0..n).map(|_| self.leaf(et, env)).collect())
            }
        }
    }

    /// Functions in scope (after applying some prefix of their arguments) that yield `t`.
    fn callable<'e>(&mut self, env: &'e Env, t: &Ty) -> Vec<(&'e String, Vec<Ty>)> {
        let mut out = vec![];
        for (i, (n, ft)) in env.iter().enumerate() {
            if env[i + 1..].iter().any(|(m, _)| m == n) {
                continue;
            }
            let (args, ret) = uncurry(ft);
            for k in 1..=args.len() {
                let res = fun(&args[k..], ret.clone());
                if &res == t {
                    out.push((n, args[..k].to_vec()));
                }
            }
        }
        out
    }

    pub fn expr(&mut self, t: &Ty, env: &Env, depth: u32) -> Expr {
        if depth == 0 {
            return self.leaf(t, env);
        }
        let d = depth - 1;
        // constructs available for every type
        let k = self.rng.below(100);
        if k < 8 {
            return self.leaf(t, env);
        }
        if k < 20 {
            // let x = e1 in e2 (sometimes with a pattern, sometimes shadowing)
            return self.gen_let(t, env, d);
        }
        if k < 30 {
            // call of something in scope
            let cs = self.callable(env, t);
            if !cs.is_empty() {
                let i = self.rng.below(cs.len() as u64) as usize;
                let (f, args) = (cs[i].0.clone(), cs[i].1.clone());
                let args: Vec<Expr> = args.iter().map(|a| self.expr(a, env, d.min(2))).collect();
                return self.app_split(Expr::Var(f), args);
            }
        }
        if k < 38 {
            // immediately applied lambda / over-application
            let n = self.rng.range(1, 3) as usize;
            let ats: Vec<Ty> = (0..n).map(|_| self.ty(1)).collect();
            let ft = fun(&ats, t.clone());
            let f = self.expr(&ft, env, d.min(2));
            let args: Vec<Expr> = ats.iter().map(|a| self.expr(a, env, d.min(2))).collect();
            return self.app_split(f, args);
        }
        if k < 48 {
            let c = self.expr(&Ty::Bool, env, d);
            let x = self.expr(t, env, d);
            let y = self.expr(t, env, d);
            return Expr::If(b(c), b(x), b(y));
        }
        if k < 62 {
            return self.gen_match(t, env, d);
        }
        if k < 68 {
            // projection out of a freshly built or existing record / tuple
            let mut rt = self.rec_ty(1);
            if let Ty::Rec(fs) = &mut rt {
                let i = self.rng.below(fs.len() as u64) as usize;
                fs[i].1 = t.clone();
                let name = fs[i].0.clone();
                let r = self.expr(&rt, env, d);
                return Expr::Proj(b(r), name, i);
            }
        }
        if k < 71 && self.rng.below(1000) < self.fail_bias * 3 {
            return Expr::Error(self.rng.pick(&["boom", "bad", ""]).to_string());
        }
        // type specific
        match t {
            Ty::Int => {
                let op = *self.rng.pick(&["+", "-", "*", "/", "+", "-", "*"]);
                let x = self.expr(&Ty::Int, env, d);
                let y = self.expr(&Ty::Int, env, d);
                Expr::Prim(op, b(x), b(y))
            }
            Ty::Bool => match self.rng.below(4) {
                0 => {
                    let x = self.expr(&Ty::Int, env, d);
                    let y = self.expr(&Ty::Int, env, d);
                    Expr::Prim(*self.rng.pick(&["==", "<"]), b(x), b(y))
                }
                1 => Expr::And(b(self.expr(&Ty::Bool, env, d)), b(self.expr(&Ty::Bool, env, d))),
                2 => Expr::Or(b(self.expr(&Ty::Bool, env, d)), b(self.expr(&Ty::Bool, env, d))),
                _ => self.leaf(t, env),
            },
            Ty::Fun(..) => {
                let (args, ret) = uncurry(t);
                let n = self.rng.range(1, args.len() as i64) as usize;
                let mut env2 = env.clone();
                let mut xs = vec![];
                for a in &args[..n] {
                    let x = self.name("p");
                    env2.push((x.clone(), a.clone()));
                    xs.push(x);
                }
                let rest = fun(&args[n..], ret);
                let body = self.expr(&rest, &env2, d);
                Expr::Lam(xs, b(body))
            }
            Ty::Rec(fs) => {
                // record update when a compatible base can be built
                if self.rng.chance(2, 5) && fs.len() >= 2 {
                    return self.gen_update(fs, env, d);
                }
                // fields possibly in a different source order than the type's order is NOT
                // allowed for literals (the type is the literal's order), so keep order
                let fields: Vec<(String, Expr)> =
                    fs.iter().map(|(n, ft)| (n.clone(), self.expr(ft, env, d))).collect();
                let layout = (0..fs.len()).map(Src::Field).collect();
                Expr::Record { fields, base: None, layout }
            }
            Ty::Tup(ts) => Expr::Tuple(ts.iter().map(|x| self.expr(x, env, d)).collect()),
            Ty::Named(dn) => {
                let ctors = DECLS[*dn].ctors;
                let tag = self.rng.below(ctors.len() as u64) as usize;
                let args: Vec<Expr> = ctors[tag].1.iter().map(|a| self.expr(&a.ty(), env, d)).collect();
                if args.is_empty() {
                    Expr::Ctor { ty: *dn, tag }
                } else {
                    self.app_split(Expr::Ctor { ty: *dn, tag }, args)
                }
            }
            Ty::Arr(et) => {
                let n = self.rng.below(4) as usize;
                Expr::Array((0..n).map(|_| self.expr(et, env, d)).collect())
            }
            Ty::Str | Ty::Unit => self.leaf(t, env),
        }
    }

    /// Apply `f` to `args`, sometimes splitting the application in two (`(f a) b`), which
    /// turns exact calls into partial application followed by a call.
    fn app_split(&mut self, f: Expr, args: Vec<Expr>) -> Expr {
        if args.len() >= 2 && self.rng.chance(1, 3) {
            let k = self.rng.range(1, args.len() as i64 - 1) as usize;
            let mut a = args;
            let rest = a.split_off(k);
            Expr::App(b(Expr::App(b(f), a)), rest)
        } else {
            Expr::App(b(f), args)
        }
    }

    fn gen_update(&mut self, fs: &[(String, Ty)], env: &Env, d: u32) -> Expr {
        // result type fs = (new fields not in base, in source order) ++ (base fields in base
        // order). Choose a split point: the first `n_new` fields are new.
        let n_new = self.rng.below(fs.len() as u64 - 1) as usize;
        let base_fs: Vec<(String, Ty)> = fs[n_new..].to_vec();
        // which base fields are overridden
        let mut explicit: Vec<(String, Expr)> = vec![];
        let mut over: Vec<usize> = vec![];
        for (j, _) in base_fs.iter().enumerate() {
            if self.rng.chance(1, 3) {
                over.push(j);
            }
        }
        // explicit fields in a random source order: new ones keep their relative order (it
        // determines the result order), overridden ones are interleaved anywhere
        let mut order: Vec<(bool, usize)> = (0..n_new).map(|i| (true, i)).collect();
        for j in &over {
            let pos = self.rng.below(order.len() as u64 + 1) as usize;
            order.insert(pos, (false, *j));
        }
        let mut layout_new = vec![Src::Field(0); n_new];
        let mut layout_base: Vec<Src> = (0..base_fs.len()).map(Src::Base).collect();
        for (k, (is_new, i)) in order.iter().enumerate() {
            if *is_new {
                explicit.push((fs[*i].0.clone(), self.expr(&fs[*i].1, env, d)));
                layout_new[*i] = Src::Field(k);
            } else {
                explicit.push((base_fs[*i].0.clone(), self.expr(&base_fs[*i].1, env, d)));
                layout_base[*i] = Src::Field(k);
            }
        }
        let base = self.expr(&Ty::Rec(base_fs), env, d.min(2));
        let mut layout = layout_new;
        layout.extend(layout_base);
        Expr::Record { fields: explicit, base: Some(b(base)), layout }
    }

    fn gen_let(&mut self, t: &Ty, env: &Env, d: u32) -> Expr {
        let bt = self.ty(2);
        let e1 = self.expr(&bt, env, d);
        let mut env2 = env.clone();
        let k = self.rng.below(10);
        if k < 2 {
            if let Ty::Fun(..) = bt {
            } else {
                // let f x = e1' in …  (function binding form)
                let at = self.ty(1);
                let x = self.name("a");
                let f = self.name("f");
                let mut envf = env.clone();
                envf.push((x.clone(), at.clone()));
                let body = self.expr(&bt, &envf, d);
                env2.push((f.clone(), fun(&[at], bt)));
                let e2 = self.expr(t, &env2, d);
                return Expr::LetFun(f, vec![x], b(body), b(e2));
            }
        }
        let p = if k < 6 { None } else { Some(self.pattern_for(&bt, &mut env2, 2, true)) };
        let p = match p {
            Some(p) => p,
            None => {
                // sometimes shadow an existing name
                let x = if !env.is_empty() && self.rng.chance(1, 8) {
                    env[self.rng.below(env.len() as u64) as usize].0.clone()
                } else {
                    self.name("v")
                };
                env2.push((x.clone(), bt.clone()));
                Pat::Var(x)
            }
        };
        let e2 = self.expr(t, &env2, d);
        Expr::Let(p, b(e1), b(e2))
    }

    /// A pattern matching values of type `t`; binds fresh variables into `env`.
    /// `total`: the pattern must not be able to fail (used for `let`).
    fn pattern_for(&mut self, t: &Ty, env: &mut Env, depth: u32, total: bool) -> Pat {
        let k = self.rng.below(10);
        if depth == 0 || k < 2 {
            if self.rng.chance(1, 4) {
                return Pat::Wild;
            }
            let x = self.name("m");
            env.push((x.clone(), t.clone()));
            return Pat::Var(x);
        }
        let p = match t {
            Ty::Int if !total && self.rng.chance(1, 2) => Pat::Int(self.rng.range(0, 3)),
            Ty::Str if !total && self.rng.chance(1, 2) => Pat::Str(self.rng.pick(STRS).to_string()),
            Ty::Rec(fs) => {
                // a subset of the fields, in any order
                let mut idx: Vec<usize> = (0..fs.len()).collect();
                let stable = self.stable_rec;
                let mut local = match stable {
                    Some(seed) => {
                        let h = fs.iter().fold(seed, |h, (n, _)| {
                            n.bytes().fold(h, |h, b| h.wrapping_mul(31).wrapping_add(b as u64))
                        });
                        Rng::new(h, 77)
                    }
                    None => Rng::new(self.rng.next(), 78),
                };
                let keep = local.range(if stable.is_some() { 1 } else { 0 }, fs.len() as i64) as usize;
                while idx.len() > keep {
                    let i = local.below(idx.len() as u64) as usize;
                    idx.remove(i);
                }
                if local.chance(1, 2) {
                    idx.reverse();
                }
                let mut ps = vec![];
                for i in idx {
                    let sub = if stable.is_none() && self.rng.chance(1, 2) {
                        // shorthand `{ a }` binds the field name itself
                        let n = fs[i].0.clone();
                        env.push((n.clone(), fs[i].1.clone()));
                        Pat::Var(n)
                    } else {
                        match self.pattern_for(&fs[i].1, env, depth - 1, total) {
                            // `{ a = a }` would print as the shorthand
                            Pat::Var(x) if x == fs[i].0 => Pat::Wild,
                            p => p,
                        }
                    };
                    ps.push((fs[i].0.clone(), i, sub));
                }
                Pat::Rec(ps)
            }
            Ty::Tup(ts) => {
                Pat::Tup(ts.iter().map(|x| self.pattern_for(x, env, depth - 1, total)).collect())
            }
            Ty::Named(d) if !total => {
                let ctors = DECLS[*d].ctors;
                let tag = self.rng.below(ctors.len() as u64) as usize;
                let args =
                    ctors[tag].1.iter().map(|a| self.pattern_for(&a.ty(), env, depth - 1, total)).collect();
                Pat::Ctor { ty: *d, tag, args }
            }
            _ => {
                let x = self.name("m");
                env.push((x.clone(), t.clone()));
                return Pat::Var(x);
            }
        };
        if self.rng.chance(1, 6) {
            let x = self.name("w");
            env.push((x.clone(), t.clone()));
            Pat::As(x, Box::new(p))
        } else {
            p
        }
    }

    fn gen_match(&mut self, t: &Ty, env: &Env, d: u32) -> Expr {
        // scrutinee type: mostly algebraic, sometimes tuple/record/int/string
        let st = match self.rng.below(10) {
            0..=4 => Ty::Named(self.rng.below(DECLS.len() as u64) as usize),
            5 => Ty::Int,
            6 => Ty::Str,
            7 => Ty::Tup(vec![Ty::Named(self.rng.below(DECLS.len() as u64) as usize), Ty::Int]),
            8 => Ty::Tup(vec![Ty::Int, Ty::Named(0), Ty::Str]),
            _ => self.rec_ty(1),
        };
        let s = self.expr(&st, env, d.min(3));
        let mut alts = vec![];
        let saved = self.stable_rec;
        self.stable_rec = if self.rng.chance(15, 16) { Some(self.rng.next()) } else { None };
        match &st {
            Ty::Named(dn) => {
                let ctors = DECLS[*dn].ctors;
                // first, possibly, a couple of specific nested patterns
                for _ in 0..self.rng.below(3) {
                    let mut env2 = env.clone();
                    let p = self.pattern_for(&st, &mut env2, 2, false);
                    // a catch-all before the constructor alternatives makes them unreachable;
                    // legal, but kept rare (several known pattern-compilation panics live there)
                    if is_catch_all(&p) && !self.rng.chance(1, 12) {
                        continue;
                    }
                    alts.push((p, self.expr(t, &env2, d)));
                }
                // then one alternative per constructor (possibly dropping one ⇒ may be
                // non-exhaustive) or a catch-all
                let drop = if self.rng.below(1000) < self.fail_bias * 2 {
                    Some(self.rng.below(ctors.len() as u64) as usize)
                } else {
                    None
                };
                if self.rng.chance(1, 4) {
                    let mut env2 = env.clone();
                    let p = if self.rng.chance(1, 2) {
                        Pat::Wild
                    } else {
                        let x = self.name("o");
                        env2.push((x.clone(), st.clone()));
                        Pat::Var(x)
                    };
                    alts.push((p, self.expr(t, &env2, d)));
                } else {
                    for (tag, (_, ats)) in ctors.iter().enumerate() {
                        if Some(tag) == drop {
                            continue;
                        }
                        let mut env2 = env.clone();
                        let args = ats
                            .iter()
                            .map(|a| {
                                if self.rng.chance(1, 5) {
                                    Pat::Wild
                                } else {
                                    let x = self.name("c");
                                    env2.push((x.clone(), a.ty()));
                                    Pat::Var(x)
                                }
                            })
                            .collect();
                        alts.push((Pat::Ctor { ty: *dn, tag, args }, self.expr(t, &env2, d)));
                    }
                }
            }
            _ => {
                for _ in 0..self.rng.range(1, 3) {
                    let mut env2 = env.clone();
                    let p = self.pattern_for(&st, &mut env2, 2, false);
                    if is_catch_all(&p) && !self.rng.chance(1, 12) {
                        continue;
                    }
                    alts.push((p, self.expr(t, &env2, d)));
                }
                if self.rng.below(1000) >= self.fail_bias * 2 {
                    let mut env2 = env.clone();
                    let x = self.name("o");
                    env2.push((x.clone(), st.clone()));
                    alts.push((Pat::Var(x), self.expr(t, &env2, d)));
                }
            }
        }
        if alts.is_empty() {
            // every generated alternative was a (skipped) early catch-all
            let mut env2 = env.clone();
            let x = self.name("o");
            env2.push((x.clone(), st.clone()));
            alts.push((Pat::Var(x), self.expr(t, &env2, d)));
        }
        self.stable_rec = saved;
        Expr::Match(b(s), alts)
    }

    /// Recursive schemes (terminating by construction), returned as top-level bindings that
    /// extend `env`.
    fn rec_scheme(&mut self, env: &mut Env) -> (Vec<(String, Vec<String>, Expr)>, ()) {
        let k = self.rng.below(5);
        let mut out = vec![];
        match k {
            0 => {
                // counting loop with accumulator (tail call): go n acc
                let f = self.name("go");
                let (n, acc) = (self.name("n"), self.name("acc"));
                let at = *self.rng.pick(&[0usize, 1, 2]);
                let at = match at {
                    0 => Ty::Int,
                    1 => Ty::Named(1),
                    _ => Ty::Tup(vec![Ty::Int, Ty::Int]),
                };
                let mut env2 = env.clone();
                env2.push((n.clone(), Ty::Int));
                env2.push((acc.clone(), at.clone()));
                let step = self.expr(&at, &env2, 2);
                let body = Expr::If(
                    b(guard(&n)),
                    b(Expr::Var(acc.clone())),
                    b(Expr::App(
                        b(Expr::Var(f.clone())),
                        vec![Expr::Prim("-", b(Expr::Var(n.clone())), b(Expr::Int(1))), step],
                    )),
                );
                env.push((f.clone(), fun(&[Ty::Int, at.clone()], at)));
                out.push((f, vec![n, acc], body));
            }
            1 => {
                // structural recursion over L (non-tail)
                let f = self.name("fold");
                let xs = self.name("xs");
                let (h, tl) = (self.name("h"), self.name("tl"));
                let rt = Ty::Int;
                let mut env2 = env.clone();
                env2.push((h.clone(), Ty::Int));
                let r = self.name("r");
                env2.push((r.clone(), rt.clone()));
                let comb = self.expr(&rt, &env2, 2);
                let mut env0 = env.clone();
                env0.push((xs.clone(), Ty::Named(1)));
                let nil = self.expr(&rt, &env0, 1);
                let body = Expr::Match(
                    b(Expr::Var(xs.clone())),
                    vec![
                        (Pat::Ctor { ty: 1, tag: 0, args: vec![] }, nil),
                        (
                            Pat::Ctor { ty: 1, tag: 1, args: vec![Pat::Var(h), Pat::Var(tl.clone())] },
                            Expr::Let(
                                Pat::Var(r),
                                b(Expr::App(b(Expr::Var(f.clone())), vec![Expr::Var(tl)])),
                                b(comb),
                            ),
                        ),
                    ],
                );
                env.push((f.clone(), fun(&[Ty::Named(1)], rt)));
                out.push((f, vec![xs], body));
            }
            2 => {
                // mutual recursion even/odd style
                let (ev, od) = (self.name("ev"), self.name("od"));
                let n = self.name("n");
                let mk = |me_zero: Expr, other: &str, n: &str| {
                    Expr::If(
                        b(guard(n)),
                        b(me_zero),
                        b(Expr::App(
                            b(Expr::Var(other.to_string())),
                            vec![Expr::Prim("-", b(Expr::Var(n.to_string())), b(Expr::Int(1)))],
                        )),
                    )
                };
                let rt = self.ty(0);
                let z1 = self.leaf(&rt, env);
                let z2 = self.leaf(&rt, env);
                out.push((ev.clone(), vec![n.clone()], mk(z1, &od, &n)));
                out.push((od.clone(), vec![n.clone()], mk(z2, &ev, &n)));
                env.push((ev, fun(&[Ty::Int], rt.clone())));
                env.push((od, fun(&[Ty::Int], rt)));
            }
            3 => {
                // build a list of length n (non-tail recursion, allocation)
                let f = self.name("build");
                let n = self.name("n");
                let mut env2 = env.clone();
                env2.push((n.clone(), Ty::Int));
                let elem = self.expr(&Ty::Int, &env2, 1);
                let body = Expr::If(
                    b(guard(&n)),
                    b(Expr::Ctor { ty: 1, tag: 0 }),
                    b(Expr::App(
                        b(Expr::Ctor { ty: 1, tag: 1 }),
                        vec![
                            elem,
                            Expr::App(
                                b(Expr::Var(f.clone())),
                                vec![Expr::Prim("-", b(Expr::Var(n.clone())), b(Expr::Int(1)))],
                            ),
                        ],
                    )),
                );
                env.push((f.clone(), fun(&[Ty::Int], Ty::Named(1))));
                out.push((f, vec![n], body));
            }
            _ => {
                // recursive closure returning a closure (upvalue of upvalue): mk n = \x -> …
                let f = self.name("mk");
                let (n, x) = (self.name("n"), self.name("x"));
                let mut env2 = env.clone();
                env2.push((n.clone(), Ty::Int));
                env2.push((x.clone(), Ty::Int));
                let base = self.expr(&Ty::Int, &env2, 1);
                let body = Expr::Lam(
                    vec![x.clone()],
                    b(Expr::If(
                        b(guard(&n)),
                        b(base),
                        b(Expr::App(
                            b(Expr::Var(f.clone())),
                            vec![
                                Expr::Prim("-", b(Expr::Var(n.clone())), b(Expr::Int(1))),
                                Expr::Prim("+", b(Expr::Var(x.clone())), b(Expr::Var(n.clone()))),
                            ],
                        )),
                    )),
                );
                env.push((f.clone(), fun(&[Ty::Int, Ty::Int], Ty::Int)));
                out.push((f, vec![n], body));
            }
        }
        (out, ())
    }

    /// A whole program of result type `t`: a spine of top-level bindings then the result.
    pub fn program(&mut self, depth: u32) -> (Expr, Ty) {
        let t = self.ty(2);
        let mut env: Env = vec![];
        #[allow(clippy::type_complexity)]
        let mut spine: Vec<Box<dyn FnOnce(Expr) -> Expr>> = vec![];
        let n_bind = self.rng.below(4);
        for _ in 0..n_bind {
            if self.rng.chance(2, 5) {
                let (bs, _) = self.rec_scheme(&mut env);
                spine.push(Box::new(move |body| Expr::LetRec(bs, b(body))));
            } else {
                let bt = self.ty(2);
                let e1 = self.expr(&bt, &env, depth.min(3));
                let x = self.name("t");
                env.push((x.clone(), bt));
                spine.push(Box::new(move |body| Expr::Let(Pat::Var(x), b(e1), b(body))));
            }
        }
        // make recursive functions likely to be called with small literal arguments
        let mut body = self.expr(&t, &env, depth);
        let _ = &mut body;
        let mut e = body;
        for f in spine.into_iter().rev() {
            e = f(e);
        }
        (e, t)
    }
}

// ---------------------------------------------------------------------------------------------
// Canonical values and outcomes of the real VM

use gluon::vm::api::{OpaqueValue, Hole, ValueRef};
use gluon::{RootedThread, Thread, ThreadExt};

pub fn canon_value(v: gluon::vm::Variants) -> String {
    let mut s = String::new();
    canon_value_(v, &mut s, 0);
    s
}

fn canon_value_(v: gluon::vm::Variants, out: &mut String, depth: usize) {
    if depth > 200 {
        out.push_str("(deep)");
        return;
    }
    match v.as_ref() {
        ValueRef::Int(i) => {
            let _ = write!(out, "(int {})", i);
        }
        ValueRef::Byte(x) => {
            let _ = write!(out, "(byte {})", x);
        }
        ValueRef::Float(f) => {
            let _ = write!(out, "(float {})", f.to_bits());
        }
        ValueRef::String(s) => {
            let _ = write!(out, "(str {})", quote(s));
        }
        ValueRef::Data(d) => {
            let n = d.len();
            // records and tuples carry no constructor tag
            let _ = write!(out, "(data {}", d.tag());
            for i in 0..n {
                out.push(' ');
                canon_value_(d.get_variant(i).unwrap(), out, depth + 1);
            }
            out.push(')');
        }
        ValueRef::Array(a) => {
            out.push_str("(arr");
            for x in a.iter() {
                out.push(' ');
                canon_value_(x, out, depth + 1);
            }
            out.push(')');
        }
        ValueRef::Closure(_) => out.push_str("(fn)"),
        ValueRef::Userdata(_) => out.push_str("(userdata)"),
        ValueRef::Thread(_) => out.push_str("(thread)"),
        // partial applications are opaque to the host API
        ValueRef::Internal => out.push_str("(fn)"),
    }
}

/// Map an error of the pipeline to the small outcome enum of the protocol.
pub fn classify_error(msg: &str) -> String {
    let first = msg.lines().next().unwrap_or("");
    if msg.contains("Arithmetic overflow") {
        "err:arith".into()
    } else if msg.contains("Unmatched pattern") {
        "err:unmatched".into()
    } else if msg.contains("The stack has overflowed") || msg.contains("stack has overflowed") {
        "err:stack".into()
    } else if msg.contains("Thread is out of memory") || msg.contains("out of memory") {
        "err:oom".into()
    } else if msg.contains("Cannot call")
        || msg.contains("ICE")
        || msg.contains("GetOffset on")
        || msg.contains("non data")
        || msg.contains("Unexpected value")
    {
        format!("wrong:{}", first.chars().take(60).collect::<String>())
    } else if first.starts_with("error: ") || msg.contains("┌─") {
        // the first line of the diagnostic, for the generator's reject statistics only
        let msg_line = msg
            .lines()
            .find(|l| l.starts_with("error"))
            .unwrap_or(first)
            .chars()
            .filter(|c| !c.is_ascii_digit())
            .take(50)
            .collect::<String>();
        format!("err:static {}", quote(&msg_line))
    } else {
        // a user `error` call: message then stack trace
        format!("err:user {}", quote(first))
    }
}

pub type AnyVal = OpaqueValue<RootedThread, Hole>;

/// Run a program text on `vm`; returns the canonical outcome `(ok <value>)` / `err:*` / `panic`.
pub fn run_canon(vm: &Thread, name: &str, src: &str) -> String {
    let r = crate::catch(|| vm.run_expr::<AnyVal>(name, src));
    match r {
        Err(p) => format!("panic {}", quote(&p.chars().take(80).collect::<String>())),
        Ok(Ok((v, _t))) => format!("(ok {})", canon_value(v.get_variant())),
        Ok(Err(e)) => classify_error(&format!("{}", e)),
    }
}
