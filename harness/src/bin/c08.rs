//! C08 correspondence + oracle: operator chains through the real `infix::reparse`.
use gluon_base::ast::{DisplayEnv, Expr, IdentEnv, Literal, SpannedExpr, TypedIdent};
use gluon_base::mk_ast_arena;
use gluon_base::pos::{self, BytePos};
use gluon_parser::infix::{reparse, Error, Fixity, OpMeta, OpTable};
use gv::{quote, Args, Out};
use std::marker::PhantomData;

#[path = "c08/textlevel.rs"]
mod textlevel;
#[path = "c08/exprcore.rs"]
mod exprcore;

pub struct MockEnv<T>(PhantomData<T>);
impl<T: AsRef<str>> DisplayEnv for MockEnv<T> {
    type Ident = T;
    fn string<'a>(&'a self, ident: &'a Self::Ident) -> &'a str {
        ident.as_ref()
    }
}
impl<T> IdentEnv for MockEnv<T>
where
    T: AsRef<str> + for<'a> From<&'a str>,
{
    fn from_str(&mut self, s: &str) -> Self::Ident {
        T::from(s)
    }
}

/// The fixity table of the enumeration: every (precedence relation, associativity) pair
/// occurs between some two operators; `u` has no entry.
const OPS: &[(&str, Option<(i32, Fixity)>)] = &[
    ("a", Some((1, Fixity::Left))),
    ("b", Some((1, Fixity::Right))),
    ("c", Some((2, Fixity::Left))),
    ("d", Some((2, Fixity::Right))),
    ("e", Some((3, Fixity::Left))),
    ("f", Some((3, Fixity::Right))),
    ("u", None),
];

fn table() -> OpTable<String> {
    OpTable::new(
        OPS.iter()
            .filter_map(|(n, m)| m.map(|(p, f)| (n.to_string(), OpMeta::new(p, f)))),
    )
}

fn op_sexp(i: usize) -> String {
    let (n, m) = OPS[i];
    match m {
        Some((p, Fixity::Left)) => format!("(op {} {} L)", quote(n), p),
        Some((p, Fixity::Right)) => format!("(op {} {} R)", quote(n), p),
        None => format!("(op {} none)", quote(n)),
    }
}

/// Render the tree; also check the span law of `make_op` (span = lhs.start .. rhs.end) and
/// that leaves keep their own spans. Returns (rendering, span ok).
fn render(e: &SpannedExpr<String>, ok: &mut bool) -> String {
    match &e.value {
        Expr::Infix { lhs, op, rhs, .. } => {
            let l = render(lhs, ok);
            let r = render(rhs, ok);
            if e.span.start() != lhs.span.start() || e.span.end() != rhs.span.end() {
                *ok = false;
            }
            format!("({} {} {})", l, quote(&op.value.name), r)
        }
        Expr::Literal(Literal::Int(i)) => {
            let s = (*i as u32) * 4;
            if e.span.start() != BytePos::from(s) || e.span.end() != BytePos::from(s + 1) {
                *ok = false;
            }
            format!("{}", i)
        }
        _ => "?".to_string(),
    }
}

/// Independent oracle (no model involved): trees as nested tuples over operator indices.
#[derive(Clone, Debug, PartialEq)]
enum T {
    Leaf(usize),
    Node(Box<T>, usize, Box<T>),
}

fn to_t(e: &SpannedExpr<String>) -> T {
    match &e.value {
        Expr::Infix { lhs, op, rhs, .. } => {
            let i = OPS.iter().position(|o| o.0 == op.value.name).unwrap();
            T::Node(Box::new(to_t(lhs)), i, Box::new(to_t(rhs)))
        }
        Expr::Literal(Literal::Int(i)) => T::Leaf(*i as usize),
        _ => T::Leaf(usize::MAX),
    }
}

fn inorder(t: &T, args: &mut Vec<usize>, ops: &mut Vec<usize>) {
    match t {
        T::Leaf(a) => args.push(*a),
        T::Node(l, o, r) => {
            inorder(l, args, ops);
            ops.push(*o);
            inorder(r, args, ops);
        }
    }
}

/// "grouped as the fixities dictate", written directly from the property statement.
fn well_grouped(t: &T) -> bool {
    match t {
        T::Leaf(_) => true,
        T::Node(l, o, r) => {
            let (p, f) = match OPS[*o].1 {
                Some(x) => x,
                None => return false,
            };
            let side = |c: &T, want: Fixity| match c {
                T::Leaf(_) => true,
                T::Node(_, co, _) => match OPS[*co].1 {
                    Some((cp, cf)) => cp > p || (cp == p && cf == want && f == want),
                    None => false,
                },
            };
            well_grouped(l) && well_grouped(r) && side(l, Fixity::Left) && side(r, Fixity::Right)
        }
    }
}

/// All groupings of args[lo..=hi] (operators ops[lo..hi]).
fn all_trees(ops: &[usize], lo: usize, hi: usize) -> Vec<T> {
    if lo == hi {
        return vec![T::Leaf(lo)];
    }
    let mut v = vec![];
    for k in lo..hi {
        for l in all_trees(ops, lo, k) {
            for r in all_trees(ops, k + 1, hi) {
                v.push(T::Node(Box::new(l.clone()), ops[k], Box::new(r.clone())));
            }
        }
    }
    v
}

fn one_chain(out: &mut Out, ops: &[usize]) {
    mk_ast_arena!(arena);
    let arena = arena.borrow();
    let env: MockEnv<String> = MockEnv(PhantomData);
    let n = ops.len();
    // Build a₀ op₁ (a₁ op₂ (… aₙ)) with spans: argument i at [4i, 4i+1), operator i at
    // [4i-2, 4i-1).
    let lit = |i: usize| -> &mut SpannedExpr<String> {
        arena.alloc(pos::spanned2(
            BytePos::from((4 * i) as u32),
            BytePos::from((4 * i + 1) as u32),
            Expr::Literal(Literal::Int(i as i64)),
        ))
    };
    let mut e = lit(n);
    for i in (0..n).rev() {
        let l = lit(i);
        let sp = pos::span(l.span.start(), e.span.end());
        let opn = pos::spanned2(
            BytePos::from((4 * i + 2) as u32),
            BytePos::from((4 * i + 3) as u32),
            TypedIdent::new(OPS[ops[i]].0.to_string()),
        );
        e = arena.alloc(pos::spanned(
            sp,
            Expr::Infix {
                lhs: l,
                op: opn,
                rhs: e,
                implicit_args: Default::default(),
            },
        ));
    }
    let mut req = String::from("infix 0");
    for (i, o) in ops.iter().enumerate() {
        req.push(' ');
        req.push_str(&op_sexp(*o));
        req.push_str(&format!(" {}", i + 1));
    }
    let t = table();
    let res = gv::catch(|| reparse(arena, e, &env, &t));
    let payload = match res {
        Err(p) => {
            out.oracle_fail(
                "panic:infix::reparse",
                &format!("infix::reparse panicked: {}", p),
                serde_json::json!({"request": req}),
            );
            "panic".to_string()
        }
        Ok(Ok(t)) => {
            let mut ok = true;
            let r = render(t, &mut ok);
            let tt = to_t(t);
            let (mut ia, mut io) = (vec![], vec![]);
            inorder(&tt, &mut ia, &mut io);
            let all_defined = ops.iter().all(|o| OPS[*o].1.is_some());
            if ia != (0..=n).collect::<Vec<_>>() || io != ops {
                out.oracle_fail(
                    "order:infix::reparse",
                    "re-parsed tree does not keep operands/operators in source order",
                    serde_json::json!({"request": req, "tree": r}),
                );
            } else if all_defined && !well_grouped(&tt) {
                out.oracle_fail(
                    "grouping:infix::reparse",
                    "re-parsed tree is not grouped as precedence/associativity dictate",
                    serde_json::json!({"request": req, "tree": r}),
                );
            }
            if !ok {
                out.oracle_fail(
                    "span:infix::reparse",
                    "a node's span is not lhs.start..rhs.end",
                    serde_json::json!({"request": req, "tree": r}),
                );
            }
            format!("(ok {})", r)
        }
        Ok(Err((err, _))) => match err.value {
            Error::ConflictingFixities((s, _), (nn, _)) => {
                if n <= 7 && ops.iter().all(|o| OPS[*o].1.is_some()) {
                    if let Some(w) = all_trees(ops, 0, n).into_iter().find(well_grouped) {
                        out.oracle_fail(
                            "spurious-conflict:infix::reparse",
                            "a conflict is reported although a grouping respecting all fixities exists",
                            serde_json::json!({"request": req, "witness": format!("{:?}", w)}),
                        );
                    }
                }
                format!("(conflict {} {})", quote(&s), quote(&nn))
            }
            Error::UndefinedFixity(n) => format!("(undefined {})", quote(&n)),
            _ => "other-error".to_string(),
        },
    };
    let class = payload.split(' ').next().unwrap_or("").to_string();
    out.count(&format!("outcome:{}", class.trim_matches(|c| c == '(' || c == ')')));
    out.count(&format!("len:{}", n));
    if n >= 2 {
        let mut kinds: Vec<usize> = ops.to_vec();
        kinds.sort();
        kinds.dedup();
        if kinds.len() >= 2 {
            out.class(format!("{:?}", ops));
        }
    }
    if out.n_cases % 1777 == 5 {
        out.sample(serde_json::json!({"request": req, "impl": payload}));
    }
    out.case(&req, &payload);
}

fn main() {
    gv::quiet_panics();
    let args = Args::parse();
    let mut out = Out::new(&args.out);
    if let Some(rp) = &args.replay {
        // re-run exactly the recorded case and show what the implementation does
        let v: serde_json::Value =
            serde_json::from_str(&std::fs::read_to_string(rp).unwrap()).unwrap();
        let case = &v["case"];
        if let Some(req) = case["request"].as_str() {
            let ops: Vec<usize> = req
                .split("(op \"")
                .skip(1)
                .filter_map(|part| {
                    let name = part.split('"').next().unwrap_or("");
                    OPS.iter().position(|o| o.0 == name)
                })
                .collect();
            println!("replaying chain {:?}", ops.iter().map(|i| OPS[*i].0).collect::<Vec<_>>());
            one_chain(&mut out, &ops);
        }
        if let Some(text) = case["text"].as_str() {
            println!("replaying text:\n{}", text);
            match gv::catch(|| textlevel::parse_reparse(text)) {
                Ok(Ok(_)) => println!("=> parsed and re-balanced"),
                Ok(Err(e)) => println!("=> error {:?}", e),
                Err(p) => println!("=> PANIC {}", p),
            }
            exprcore::replay_text(text);
        }
        if let Some(text) = case["restyled"].as_str() {
            println!("replaying restyled text:\n{}", text);
            println!("=> parses: {}", textlevel::parse_only(text).is_ok());
        }
        out.finish();
        let imp = std::fs::read_to_string(args.out.join("impl.txt")).unwrap_or_default();
        print!("{}", imp);
        return;
    }
    let mut rng = gv::rng::Rng::new(args.seed, 8);
    // Exhaustive over the six defined operators.
    let max_exh = if args.thorough() { 6 } else { 5 };
    for n in 0..=max_exh {
        let mut idx = vec![0usize; n];
        loop {
            one_chain(&mut out, &idx);
            let mut k = 0;
            while k < n {
                idx[k] += 1;
                if idx[k] < 6 {
                    break;
                }
                idx[k] = 0;
                k += 1;
            }
            if k == n {
                break;
            }
        }
    }
    out.stats.insert("exhaustive_up_to_ops".into(), (max_exh as u64).into());
    // Random longer chains, including the operator without fixity.
    let n_rand = if args.thorough() { 20000 } else { 2000 };
    for _ in 0..n_rand {
        let n = rng.range(1, 12) as usize;
        let with_undef = rng.chance(1, 4);
        let ops: Vec<usize> = (0..n)
            .map(|_| rng.below(if with_undef { 7 } else { 6 }) as usize)
            .collect();
        one_chain(&mut out, &ops);
    }
    // text level: chains through the real grammar + layout + Reparser, and the style round trip
    textlevel::chains(&mut out, &mut rng, if args.thorough() { 20000 } else { 3000 });
    textlevel::roundtrip(&mut out, &mut rng, if args.thorough() { 3000 } else { 300 });
    // first clause, expression core: print (explicit style, redundant parentheses, trivia) ->
    // real parser, against the model printer + layout model + grammar model
    exprcore::run(&mut out, &mut rng, if args.thorough() { 30000 } else { 3000 });
    out.finish();
}
