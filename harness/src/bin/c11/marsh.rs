//! The family of Rust types of the check: for each, generators, the Lean-side value syntax,
//! the expected gluon-side observation, and the type-faithfulness predicate.
use super::gvw::Gv;
use gluon::vm::api::{Getable, Pushable, VmType};
use gv::quote;
use gv::rng::Rng;
use std::cmp::Ordering;
use std::collections::BTreeMap;

pub trait Marsh:
    Sized
    + Clone
    + Send
    + Sync
    + 'static
    + VmType
    + for<'vm> Pushable<'vm>
    + for<'vm, 'value> Getable<'vm, 'value>
{
    /// head constructor (used for blame / fingerprints)
    fn head() -> &'static str;
    /// Lean `TCode` s-expression
    fn tcode() -> String;
    /// gluon type syntax
    fn gtype() -> String;
    fn boundaries() -> Vec<Self> {
        vec![]
    }
    fn gen(r: &mut Rng) -> Self;
    /// Lean `Val` s-expression
    fn val(&self) -> String;
    /// equality, bit-wise on floats
    fn same(&self, o: &Self) -> bool;
    /// gluon literal denoting this value (None: no literal syntax, e.g. NaN)
    fn lit(&self) -> Option<String>;
    /// gluon expression of type `gtype() -> String`; helper definitions (top-level `let`s, needed
    /// because `match` is layout sensitive) are appended to `defs`
    fn obs_fn(defs: &mut Vec<String>) -> String;
    /// what `obs_fn` must return for this value
    fn obs(&self) -> String;
    /// is `g` the gluon value corresponding to `self` (representation gluon code of type
    /// `gtype()` relies on)?  Err(head of the layer that is wrong).
    fn conforms(&self, g: &Gv) -> Result<(), String>;
}

/// Define a top-level observer `oN x : gt -> String = match x with | alts…`; returns its name.
pub fn def_match(defs: &mut Vec<String>, gt: &str, alts: &[&str]) -> String {
    let name = format!("o{}", defs.len());
    let mut d = format!("let {} x : {} -> String =\n    match x with\n", name, gt);
    for a in alts {
        d.push_str(&format!("    | {}\n", a));
    }
    defs.push(d);
    name
}

fn pick_gen<T: Marsh>(r: &mut Rng, random: impl FnOnce(&mut Rng) -> T) -> T {
    let b = T::boundaries();
    if !b.is_empty() && r.chance(1, 2) {
        b[r.below(b.len() as u64) as usize].clone()
    } else {
        random(r)
    }
}

pub fn int_lit(i: i64) -> String {
    if i == i64::MIN {
        "((0 #Int- 9223372036854775807) #Int- 1)".to_string()
    } else if i < 0 {
        format!("(0 #Int- {})", -(i as i128))
    } else {
        format!("{}", i)
    }
}

macro_rules! int_marsh {
    ($($t:ident)*) => {$(
        impl Marsh for $t {
            fn head() -> &'static str { stringify!($t) }
            fn tcode() -> String { stringify!($t).into() }
            fn gtype() -> String { "Int".into() }
            fn boundaries() -> Vec<Self> {
                let mut v = vec![0 as $t, 1 as $t, <$t>::MAX, <$t>::MIN, <$t>::MAX - 1, <$t>::MIN + 1,
                    (<$t>::MAX / 2), (<$t>::MAX / 2 + 1), 127 as $t, 128 as $t, 255 as $t, 256 as $t];
                v.push((0 as $t).wrapping_sub(1));
                v.push((0 as $t).wrapping_sub(2));
                v
            }
            fn gen(r: &mut Rng) -> Self {
                pick_gen(r, |r| {
                    let x = r.next();
                    let sh = r.below(64);
                    ((x >> sh) as $t)
                })
            }
            fn val(&self) -> String { format!("(int {} {})", stringify!($t), self) }
            fn same(&self, o: &Self) -> bool { self == o }
            fn lit(&self) -> Option<String> { Some(int_lit(*self as i64)) }
            fn obs_fn(defs: &mut Vec<String>) -> String { "(\\x -> prim.show_int x)".into() }
            fn obs(&self) -> String { format!("{}", *self as i64) }
            fn conforms(&self, g: &Gv) -> Result<(), String> {
                match g { Gv::I(i) if *i == *self as i64 => Ok(()), _ => Err(Self::head().into()) }
            }
        }
    )*};
}
int_marsh! { i16 i32 i64 u16 u32 u64 usize isize }

impl Marsh for u8 {
    fn head() -> &'static str {
        "u8"
    }
    fn tcode() -> String {
        "u8".into()
    }
    fn gtype() -> String {
        "Byte".into()
    }
    fn boundaries() -> Vec<Self> {
        vec![0, 1, 127, 128, 254, 255]
    }
    fn gen(r: &mut Rng) -> Self {
        pick_gen(r, |r| r.next() as u8)
    }
    fn val(&self) -> String {
        format!("(u8 {})", self)
    }
    fn same(&self, o: &Self) -> bool {
        self == o
    }
    fn lit(&self) -> Option<String> {
        Some(format!("{}b", self))
    }
    fn obs_fn(defs: &mut Vec<String>) -> String {
        "(\\x -> prim.show_byte x)".into()
    }
    fn obs(&self) -> String {
        format!("{}", self)
    }
    fn conforms(&self, g: &Gv) -> Result<(), String> {
        match g {
            Gv::B(b) if b == self => Ok(()),
            _ => Err("u8".into()),
        }
    }
}

impl Marsh for () {
    fn head() -> &'static str {
        "unit"
    }
    fn tcode() -> String {
        "unit".into()
    }
    fn gtype() -> String {
        "()".into()
    }
    fn boundaries() -> Vec<Self> {
        vec![()]
    }
    fn gen(_: &mut Rng) -> Self {}
    fn val(&self) -> String {
        "unit".into()
    }
    fn same(&self, _: &Self) -> bool {
        true
    }
    fn lit(&self) -> Option<String> {
        Some("()".into())
    }
    fn obs_fn(defs: &mut Vec<String>) -> String {
        "(\\x -> \"U\")".into()
    }
    fn obs(&self) -> String {
        "U".into()
    }
    fn conforms(&self, _: &Gv) -> Result<(), String> {
        // gluon code cannot inspect a unit value
        Ok(())
    }
}

fn f64_lit(x: f64) -> Option<String> {
    if !x.is_finite() || (x == 0.0 && x.is_sign_negative()) {
        return None;
    }
    let s = format!("{:?}", x.abs());
    if s.contains('e') || s.contains('E') || !s.contains('.') || s.len() > 40 {
        return None;
    }
    Some(if x < 0.0 { format!("(0.0 #Float- {})", s) } else { s })
}

impl Marsh for f64 {
    fn head() -> &'static str {
        "f64"
    }
    fn tcode() -> String {
        "f64".into()
    }
    fn gtype() -> String {
        "Float".into()
    }
    fn boundaries() -> Vec<Self> {
        [
            0u64,
            0x8000_0000_0000_0000,
            0x3ff0_0000_0000_0000,
            0xbff0_0000_0000_0000,
            0x7ff0_0000_0000_0000,
            0xfff0_0000_0000_0000,
            0x7ff8_0000_0000_0000,
            0xfff8_0000_0000_0000,
            0x7ff0_0000_0000_0001,
            0x7ff4_0000_dead_beef,
            0xfff0_0000_0000_0001,
            0x7fff_ffff_ffff_ffff,
            0x0000_0000_0000_0001,
            0x000f_ffff_ffff_ffff,
            0x0010_0000_0000_0000,
            0x7fef_ffff_ffff_ffff,
            0x3cb0_0000_0000_0000,
            0x4009_21fb_5444_2d18,
            0x3fb9_9999_9999_999a,
            0x36a0_0000_0000_0000,
            0x47ef_ffff_e000_0000,
            0x47ef_ffff_f000_0000,
            0x3ff0_0000_1000_0000,
            0x3ff0_0000_3000_0000,
            0x3810_0000_0000_0000,
            0x380f_ffff_ffff_ffff,
            0x4059_0000_0000_0000,
            0x3fe0_0000_0000_0000,
        ]
        .iter()
        .map(|b| f64::from_bits(*b))
        .collect()
    }
    fn gen(r: &mut Rng) -> Self {
        pick_gen(r, |r| match r.below(4) {
            0 => f64::from_bits(r.next()),
            1 => (r.range(-100000, 100000) as f64) / 8.0,
            2 => (f32::from_bits(r.next() as u32)) as f64,
            _ => {
                // around the f32 exponent range edges
                let e = *r.pick(&[0x380u64, 0x381, 0x36a, 0x369, 0x47e, 0x47f, 0x3ff, 0x400]);
                f64::from_bits((r.below(2) << 63) | (e << 52) | (r.next() >> 12))
            }
        })
    }
    fn val(&self) -> String {
        format!("(f64 {})", self.to_bits())
    }
    fn same(&self, o: &Self) -> bool {
        self.to_bits() == o.to_bits()
    }
    fn lit(&self) -> Option<String> {
        f64_lit(*self)
    }
    fn obs_fn(defs: &mut Vec<String>) -> String {
        "(\\x -> prim.show_float x)".into()
    }
    fn obs(&self) -> String {
        format!("{}", self)
    }
    fn conforms(&self, g: &Gv) -> Result<(), String> {
        match g {
            Gv::F(b) if *b == self.to_bits() => Ok(()),
            _ => Err("f64".into()),
        }
    }
}

impl Marsh for f32 {
    fn head() -> &'static str {
        "f32"
    }
    fn tcode() -> String {
        "f32".into()
    }
    fn gtype() -> String {
        "Float".into()
    }
    fn boundaries() -> Vec<Self> {
        [
            0u32, 0x8000_0000, 0x3f80_0000, 0xbf80_0000, 0x7f80_0000, 0xff80_0000, 0x7fc0_0000,
            0xffc0_0000, 0x7f80_0001, 0x7fa0_beef, 0xff80_0001, 0x7fff_ffff, 0x7fc0_0001,
            0x0000_0001, 0x007f_ffff, 0x0080_0000, 0x7f7f_ffff, 0x3400_0000, 0x4049_0fdb,
            0x3dcc_cccd, 0x0000_0002, 0x0040_0000, 0x8000_0001, 0x42c8_0000,
        ]
        .iter()
        .map(|b| f32::from_bits(*b))
        .collect()
    }
    fn gen(r: &mut Rng) -> Self {
        pick_gen(r, |r| match r.below(3) {
            0 => f32::from_bits(r.next() as u32),
            1 => (r.range(-100000, 100000) as f32) / 8.0,
            _ => f32::from_bits(((r.below(2) as u32) << 31) | (r.next() as u32 & 0x007f_ffff) >> r.below(23)),
        })
    }
    fn val(&self) -> String {
        format!("(f32 {})", self.to_bits())
    }
    fn same(&self, o: &Self) -> bool {
        // `f32 as f64 as f32` may quiet a signalling NaN (the Rust reference leaves NaN payloads
        // of float casts unspecified); the property's "equal" is bit equality except that.
        if self.is_nan() {
            o.is_nan() && (self.to_bits() | 0x0040_0000) == (o.to_bits() | 0x0040_0000)
        } else {
            self.to_bits() == o.to_bits()
        }
    }
    fn lit(&self) -> Option<String> {
        f64_lit(*self as f64)
    }
    fn obs_fn(defs: &mut Vec<String>) -> String {
        "(\\x -> prim.show_float x)".into()
    }
    fn obs(&self) -> String {
        format!("{}", *self as f64)
    }
    fn conforms(&self, g: &Gv) -> Result<(), String> {
        match g {
            Gv::F(b) => {
                let f = f64::from_bits(*b);
                if (self.is_nan() && f.is_nan()) || f == *self as f64 && f.is_sign_negative() == self.is_sign_negative() {
                    Ok(())
                } else {
                    Err("f32".into())
                }
            }
            _ => Err("f32".into()),
        }
    }
}

impl Marsh for bool {
    fn head() -> &'static str {
        "bool"
    }
    fn tcode() -> String {
        "bool".into()
    }
    fn gtype() -> String {
        "Bool".into()
    }
    fn boundaries() -> Vec<Self> {
        vec![false, true]
    }
    fn gen(r: &mut Rng) -> Self {
        r.chance(1, 2)
    }
    fn val(&self) -> String {
        format!("(bool {})", *self as u8)
    }
    fn same(&self, o: &Self) -> bool {
        self == o
    }
    fn lit(&self) -> Option<String> {
        Some(if *self { "True" } else { "False" }.into())
    }
    fn obs_fn(defs: &mut Vec<String>) -> String {
        "(\\x -> if x then \"T\" else \"F\")".into()
    }
    fn obs(&self) -> String {
        if *self { "T" } else { "F" }.into()
    }
    fn conforms(&self, g: &Gv) -> Result<(), String> {
        if g.nullary() == Some(*self as u32) {
            Ok(())
        } else {
            Err("bool".into())
        }
    }
}

impl Marsh for Ordering {
    fn head() -> &'static str {
        "ordering"
    }
    fn tcode() -> String {
        "ordering".into()
    }
    fn gtype() -> String {
        "Ordering".into()
    }
    fn boundaries() -> Vec<Self> {
        vec![Ordering::Less, Ordering::Equal, Ordering::Greater]
    }
    fn gen(r: &mut Rng) -> Self {
        *r.pick(&[Ordering::Less, Ordering::Equal, Ordering::Greater])
    }
    fn val(&self) -> String {
        format!("(ord {})", (*self as i8) + 1)
    }
    fn same(&self, o: &Self) -> bool {
        self == o
    }
    fn lit(&self) -> Option<String> {
        Some(self.obs())
    }
    fn obs_fn(defs: &mut Vec<String>) -> String {
        def_match(defs, &Self::gtype(), &["LT -> \"LT\"", "EQ -> \"EQ\"", "GT -> \"GT\""])
    }
    fn obs(&self) -> String {
        match self {
            Ordering::Less => "LT",
            Ordering::Equal => "EQ",
            Ordering::Greater => "GT",
        }
        .into()
    }
    fn conforms(&self, g: &Gv) -> Result<(), String> {
        if g.nullary() == Some(((*self as i8) + 1) as u32) {
            Ok(())
        } else {
            Err("ordering".into())
        }
    }
}

impl Marsh for char {
    fn head() -> &'static str {
        "char"
    }
    fn tcode() -> String {
        "char".into()
    }
    fn gtype() -> String {
        "Char".into()
    }
    fn boundaries() -> Vec<Self> {
        vec![
            '\0', 'a', 'Z', ' ', '\'', '"', '\\', '\n', '\u{7f}', '\u{80}', '\u{ff}', '\u{7ff}',
            '\u{800}', '\u{d7ff}', '\u{e000}', '\u{ffff}', '\u{10000}', '\u{10ffff}', 'é', '日',
        ]
    }
    fn gen(r: &mut Rng) -> Self {
        pick_gen(r, |r| loop {
            let c = match r.below(3) {
                0 => r.below(128) as u32,
                1 => r.below(0x3000) as u32,
                _ => r.below(0x110000) as u32,
            };
            if let Some(c) = char::from_u32(c) {
                return c;
            }
        })
    }
    fn val(&self) -> String {
        format!("(char {})", *self as u32)
    }
    fn same(&self, o: &Self) -> bool {
        self == o
    }
    fn lit(&self) -> Option<String> {
        if self.is_ascii_alphanumeric() || *self == ' ' {
            Some(format!("'{}'", self))
        } else {
            None
        }
    }
    fn obs_fn(defs: &mut Vec<String>) -> String {
        "(\\x -> prim.show_int (cp.to_int x))".into()
    }
    fn obs(&self) -> String {
        format!("{}", *self as u32)
    }
    fn conforms(&self, g: &Gv) -> Result<(), String> {
        match g {
            Gv::I(i) if *i == *self as i64 => Ok(()),
            _ => Err("char".into()),
        }
    }
}

pub fn str_lit(s: &str) -> Option<String> {
    let mut o = String::from("\"");
    for c in s.chars() {
        match c {
            '"' => o.push_str("\\\""),
            '\\' => o.push_str("\\\\"),
            '\n' => o.push_str("\\n"),
            '\t' => o.push_str("\\t"),
            c if (c as u32) < 0x20 || c as u32 == 0x7f => return None,
            c => o.push(c),
        }
    }
    o.push('"');
    Some(o)
}

pub fn obs_str(s: &str) -> String {
    format!("{}:{}", s.len(), s)
}

pub fn gen_string(r: &mut Rng) -> String {
    let n = match r.below(8) {
        0 => 0,
        1 => 1,
        7 => r.range(20, 300) as usize,
        _ => r.range(1, 8) as usize,
    };
    (0..n).map(|_| <char as Marsh>::gen(r)).collect()
}

impl Marsh for String {
    fn head() -> &'static str {
        "string"
    }
    fn tcode() -> String {
        "string".into()
    }
    fn gtype() -> String {
        "String".into()
    }
    fn boundaries() -> Vec<Self> {
        vec![
            "".into(),
            "a".into(),
            "héllo wörld".into(),
            "日本語".into(),
            "🦀 crab".into(),
            "nul\0inside".into(),
            "q\"uo\\te\n\ttab\r".into(),
            "\u{10ffff}\u{7ff}\u{800}".into(),
            "x".repeat(257),
            "é".repeat(130),
            " ".into(),
            "_0".into(),
        ]
    }
    fn gen(r: &mut Rng) -> Self {
        pick_gen(r, gen_string)
    }
    fn val(&self) -> String {
        format!("(str {})", quote(self))
    }
    fn same(&self, o: &Self) -> bool {
        self == o
    }
    fn lit(&self) -> Option<String> {
        str_lit(self)
    }
    fn obs_fn(defs: &mut Vec<String>) -> String {
        "obs_str".into()
    }
    fn obs(&self) -> String {
        obs_str(self)
    }
    fn conforms(&self, g: &Gv) -> Result<(), String> {
        match g {
            Gv::S(s) if s == self => Ok(()),
            _ => Err("string".into()),
        }
    }
}

impl<T: Marsh> Marsh for Option<T>
where
    T::Type: Sized,
{
    fn head() -> &'static str {
        "option"
    }
    fn tcode() -> String {
        format!("(option {})", T::tcode())
    }
    fn gtype() -> String {
        format!("(Option {})", T::gtype())
    }
    fn gen(r: &mut Rng) -> Self {
        if r.chance(1, 4) {
            None
        } else {
            Some(T::gen(r))
        }
    }
    fn val(&self) -> String {
        match self {
            None => "none".into(),
            Some(x) => format!("(some {})", x.val()),
        }
    }
    fn same(&self, o: &Self) -> bool {
        match (self, o) {
            (None, None) => true,
            (Some(a), Some(b)) => a.same(b),
            _ => false,
        }
    }
    fn lit(&self) -> Option<String> {
        match self {
            None => Some("None".into()),
            Some(x) => Some(format!("(Some {})", x.lit()?)),
        }
    }
    fn obs_fn(defs: &mut Vec<String>) -> String {
        let t = T::obs_fn(defs);
        def_match(defs, &Self::gtype(), &["None -> \"N\"", &format!("Some y -> cat3 \"S(\" ({} y) \")\"", t)])
    }
    fn obs(&self) -> String {
        match self {
            None => "N".into(),
            Some(x) => format!("S({})", x.obs()),
        }
    }
    fn conforms(&self, g: &Gv) -> Result<(), String> {
        match (self, g.ctor()) {
            (None, Some((0, []))) => Ok(()),
            (Some(x), Some((1, [y]))) => x.conforms(y),
            _ => Err("option".into()),
        }
    }
}

impl<T: Marsh, E: Marsh> Marsh for Result<T, E>
where
    T::Type: Sized,
    E::Type: Sized,
{
    fn head() -> &'static str {
        "result"
    }
    fn tcode() -> String {
        format!("(result {} {})", T::tcode(), E::tcode())
    }
    fn gtype() -> String {
        format!("(Result {} {})", E::gtype(), T::gtype())
    }
    fn gen(r: &mut Rng) -> Self {
        if r.chance(1, 2) {
            Ok(T::gen(r))
        } else {
            Err(E::gen(r))
        }
    }
    fn val(&self) -> String {
        match self {
            Ok(x) => format!("(ok {})", x.val()),
            Err(x) => format!("(err {})", x.val()),
        }
    }
    fn same(&self, o: &Self) -> bool {
        match (self, o) {
            (Ok(a), Ok(b)) => a.same(b),
            (Err(a), Err(b)) => a.same(b),
            _ => false,
        }
    }
    fn lit(&self) -> Option<String> {
        match self {
            Ok(x) => Some(format!("(Ok {})", x.lit()?)),
            Err(x) => Some(format!("(Err {})", x.lit()?)),
        }
    }
    fn obs_fn(defs: &mut Vec<String>) -> String {
        let t = T::obs_fn(defs);
        let e = E::obs_fn(defs);
        def_match(
            defs,
            &Self::gtype(),
            &[&format!("Ok y -> cat3 \"O(\" ({} y) \")\"", t), &format!("Err y -> cat3 \"E(\" ({} y) \")\"", e)],
        )
    }
    fn obs(&self) -> String {
        match self {
            Ok(x) => format!("O({})", x.obs()),
            Err(x) => format!("E({})", x.obs()),
        }
    }
    fn conforms(&self, g: &Gv) -> Result<(), String> {
        match (self, g.ctor()) {
            (Err(x), Some((0, [y]))) => x.conforms(y),
            (Ok(x), Some((1, [y]))) => x.conforms(y),
            _ => Err("result".into()),
        }
    }
}

impl<T: Marsh> Marsh for Vec<T>
where
    T::Type: Sized,
{
    fn head() -> &'static str {
        "vec"
    }
    fn tcode() -> String {
        format!("(vec {})", T::tcode())
    }
    fn gtype() -> String {
        format!("(Array {})", T::gtype())
    }
    fn gen(r: &mut Rng) -> Self {
        let n = match r.below(6) {
            0 => 0,
            1 => 1,
            5 => r.range(7, 24),
            _ => r.range(2, 6),
        };
        (0..n).map(|_| T::gen(r)).collect()
    }
    fn val(&self) -> String {
        let mut s = String::from("(vec");
        for x in self {
            s.push(' ');
            s.push_str(&x.val());
        }
        s.push(')');
        s
    }
    fn same(&self, o: &Self) -> bool {
        self.len() == o.len() && self.iter().zip(o).all(|(a, b)| a.same(b))
    }
    fn lit(&self) -> Option<String> {
        let v: Option<Vec<String>> = self.iter().map(|x| x.lit()).collect();
        Some(format!("[{}]", v?.join(", ")))
    }
    fn obs_fn(defs: &mut Vec<String>) -> String {
        format!("(obs_arr {})", T::obs_fn(defs))
    }
    fn obs(&self) -> String {
        let mut s = String::from("[");
        for x in self {
            s.push_str(&x.obs());
            s.push(',');
        }
        s.push(']');
        s
    }
    fn conforms(&self, g: &Gv) -> Result<(), String> {
        match g {
            Gv::Arr(_, xs) if xs.len() == self.len() => {
                for (a, b) in self.iter().zip(xs) {
                    a.conforms(b)?;
                }
                Ok(())
            }
            _ => Err("vec".into()),
        }
    }
}

/// Check a product value: `fields[i]` at position i; if the value carries names they must be
/// exactly `names` and map to the same values.
pub fn conforms_product(
    g: &Gv,
    names: &[String],
    need_names: bool,
    head: &str,
    check: &mut dyn FnMut(usize, &Gv) -> Result<(), String>,
) -> Result<(), String> {
    let (fs, named) = g.product().ok_or_else(|| head.to_string())?;
    if fs.len() != names.len() {
        return Err(head.into());
    }
    match named {
        Some(named) => {
            let mut want: Vec<&String> = names.iter().collect();
            want.sort();
            let have: Vec<&String> = named.iter().map(|x| &x.0).collect();
            if want != have {
                return Err(head.into());
            }
            for (n, v) in named {
                let i = names.iter().position(|x| x == n).unwrap();
                if *v != fs[i] {
                    return Err(head.into());
                }
            }
        }
        None => {
            if need_names && !names.is_empty() {
                return Err(head.into());
            }
        }
    }
    for (i, f) in fs.iter().enumerate() {
        check(i, f)?;
    }
    Ok(())
}

macro_rules! tuple_marsh {
    ($($id:ident $idx:tt),+) => {
        impl<$($id: Marsh),+> Marsh for ($($id),+) where $($id::Type: Sized),+ {
            fn head() -> &'static str { "tuple" }
            fn tcode() -> String { let v = vec![$($id::tcode()),+]; format!("(tuple {})", v.join(" ")) }
            fn gtype() -> String { let v = vec![$($id::gtype()),+]; format!("({})", v.join(", ")) }
            fn gen(r: &mut Rng) -> Self { ($($id::gen(r)),+) }
            fn val(&self) -> String { let v = vec![$(self.$idx.val()),+]; format!("(tuple {})", v.join(" ")) }
            fn same(&self, o: &Self) -> bool { $(self.$idx.same(&o.$idx))&&+ }
            fn lit(&self) -> Option<String> { let v = vec![$(self.$idx.lit()?),+]; Some(format!("({})", v.join(", "))) }
            fn obs_fn(defs: &mut Vec<String>) -> String {
                let v = vec![$(format!("({} x._{})", $id::obs_fn(defs), $idx)),+];
                let mut e = String::from("\")\"");
                for (i, p) in v.iter().enumerate().rev() {
                    e = format!("(cat3 {} \"{}\" {})", p, if i + 1 == v.len() { "" } else { ";" }, e);
                }
                format!("(\\x -> cat \"(\" {})", e)
            }
            fn obs(&self) -> String { let v = vec![$(self.$idx.obs()),+]; format!("({})", v.join(";")) }
            fn conforms(&self, g: &Gv) -> Result<(), String> {
                let names: Vec<String> = vec![$(format!("_{}", $idx)),+];
                conforms_product(g, &names, false, "tuple", &mut |i, f| { match i { $($idx => self.$idx.conforms(f),)+ _ => unreachable!() } })
            }
        }
    };
}
tuple_marsh!(A 0, B 1);
tuple_marsh!(A 0, B 1, C 2);
tuple_marsh!(A 0, B 1, C 2, D 3);

impl<T: Marsh> Marsh for BTreeMap<String, T>
where
    T::Type: Sized,
    T: for<'vm2> Pushable<'vm2>,
{
    fn head() -> &'static str {
        "map"
    }
    fn tcode() -> String {
        format!("(map {})", T::tcode())
    }
    fn gtype() -> String {
        format!("(Map String {})", T::gtype())
    }
    fn gen(r: &mut Rng) -> Self {
        let n = match r.below(5) {
            0 => 0,
            1 => 1,
            _ => r.range(2, 7),
        };
        let mut m = BTreeMap::new();
        for _ in 0..n {
            let k = match r.below(4) {
                0 => <String as Marsh>::gen(r),
                _ => {
                    let l = r.range(0, 3);
                    (0..l).map(|_| *r.pick(&['a', 'b', 'c', 'é', 'z'])).collect()
                }
            };
            m.insert(k, T::gen(r));
        }
        m
    }
    fn val(&self) -> String {
        let mut s = String::from("(map");
        for (k, x) in self {
            s.push_str(&format!(" ({} {})", quote(k), x.val()));
        }
        s.push(')');
        s
    }
    fn same(&self, o: &Self) -> bool {
        self.len() == o.len() && self.iter().zip(o).all(|(a, b)| a.0 == b.0 && a.1.same(b.1))
    }
    fn lit(&self) -> Option<String> {
        let mut e = String::from("map.empty");
        for (k, v) in self {
            e = format!("(map.insert_string {} {} {})", str_lit(k)?, v.lit()?, e);
        }
        Some(e)
    }
    fn obs_fn(defs: &mut Vec<String>) -> String {
        format!("(\\x -> cat (map_go {} x \"{{\") \"}}\")", T::obs_fn(defs))
    }
    fn obs(&self) -> String {
        let mut s = String::from("{");
        for (k, x) in self {
            s.push_str(&format!("{}={},", obs_str(k), x.obs()));
        }
        s.push('}');
        s
    }
    fn conforms(&self, g: &Gv) -> Result<(), String> {
        // any search tree `Tip | Bin k v l r` whose in-order listing is the map
        fn inorder<'a>(g: &'a Gv, out: &mut Vec<(&'a str, &'a Gv)>) -> Result<(), String> {
            match g.ctor() {
                Some((0, [])) => Ok(()),
                Some((1, [Gv::S(k), v, l, r])) => {
                    inorder(l, out)?;
                    out.push((k, v));
                    inorder(r, out)
                }
                _ => Err("map".into()),
            }
        }
        let mut v = vec![];
        inorder(g, &mut v)?;
        if v.len() != self.len() {
            return Err("map".into());
        }
        for ((k, x), (k2, g2)) in self.iter().zip(v) {
            if k != k2 {
                return Err("map".into());
            }
            x.conforms(g2)?;
        }
        Ok(())
    }
}
