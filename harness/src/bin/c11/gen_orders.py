import itertools
out=[]
glu=[]
types=[]
def rs_ty(t): return 'i64' if t=='i' else 'String'
def gl_ty(t): return 'Int' if t=='i' else 'String'
def tc(t): return 'i64' if t=='i' else 'string'
def obs_f(t, e): return ('(prim.show_int %s)'%e) if t=='i' else ('(obs_str %s)'%e)
# field sets (name, type): names deliberately not alphabetical in the base order
SETS={2:[('m','i'),('a','i')],
      3:[('m','i'),('a','s'),('z','i')],
      4:[('q','i'),('b','s'),('x','i'),('c','s')],
      5:[('q','i'),('b','s'),('x','i'),('c','s'),('e','i')]}
def perm_name(p): return ''.join(str(i) for i in p)
def struct_case(name, shape, rfields, gfields):
    # rfields: rust declaration order; gfields: gluon declaration order
    permuted = [f[0] for f in rfields]!=[f[0] for f in gfields]
    out.append('#[derive(Clone, Debug, PartialEq, VmType, Pushable, Getable)]\n#[gluon(vm_type = "c11o.%s")]\npub struct %s { %s }\n'%(name,name,', '.join('pub %s: %s'%(n,rs_ty(t)) for n,t in rfields)))
    glu.append('type %s = { %s }'%(name, ', '.join('%s : %s'%(n,gl_ty(t)) for n,t in gfields)))
    types.append(name)
    mk=', '.join('%s: %s'%(n, 'src.int()' if t=='i' else 'src.string()') for n,t in rfields)
    val='format!("(struct %s)", %s)'%(' '.join('(\\"%s\\" {})'%n for n,t in rfields), ', '.join('Marsh::val(&self.%s)'%n for n,t in rfields))
    lit='format!("{{ %s }}", %s)'%(', '.join('%s = {}'%n for n,t in gfields), ', '.join('Marsh::lit(&self.%s).unwrap()'%n for n,t in gfields))
    srt=sorted(rfields)
    def nest(items):
        if not items: return '\\"\\"'
        n,t=items[0]
        return '(cat3 \\"%s=\\" %s %s)'%(n,obs_f(t,'r.'+n),nest(items[1:]))
    obs_src='(\\\\r -> %s)'%nest(srt)
    # pattern-matching observer (binds by name through a record pattern)
    obs2_src='(\\\\r -> let { %s } = r in %s)'%(', '.join(n for n,t in rfields), ' '.join(['cat3 \\"%s=\\" %s ('%(n,obs_f(t,n)) for n,t in srt]).rstrip() + ' \\"\\"' + ')'*len(srt))
    obs='format!("%s", %s)'%(''.join('%s={}'%n for n,t in srt), ', '.join('Marsh::obs(&self.%s)'%n for n,t in srt))
    rebuild='(\\\\r -> { %s })'%', '.join('%s = r.%s'%(n,n) for n,t in gfields)
    out.append('''impl OrdCase for %(name)s {
    const NAME: &'static str = "%(name)s";
    const SHAPE: &'static str = "%(shape)s";
    const PERMUTED: bool = %(perm)s;
    const TYPE_COMPAT: bool = %(compat)s;
    fn tcode() -> String { "(struct %(tcf)s)".into() }
    fn gluon_fields() -> String { "%(gf)s".into() }
    fn make(src: &mut Src) -> Vec<Self> { vec![%(name)s { %(mk)s }] }
    fn val(&self) -> String { %(val)s }
    fn lit(&self) -> String { %(lit)s }
    fn obs_src() -> Vec<String> { vec!["%(obs_src)s".into(), "%(obs2_src)s".into()] }
    fn obs(&self) -> String { %(obs)s }
    fn rebuild_src() -> String { "%(rebuild)s".into() }
}
'''%dict(name=name,shape=shape,compat='true' if [t for n,t in rfields]==[t for n,t in gfields] else 'false',perm='true' if permuted else 'false',tcf=' '.join('(\\"%s\\" %s)'%(n,tc(t)) for n,t in rfields),gf=','.join(n for n,t in gfields),mk=mk,val=val,lit=lit,obs_src=obs_src,obs2_src=obs2_src,obs=obs,rebuild=rebuild))

for n in (2,3,4):
    base=SETS[n]
    for p in itertools.permutations(range(n)):
        struct_case('N%d_g%s'%(n,perm_name(p)),'struct%d'%n,base,[base[i] for i in p])
for n in (2,3):
    base=list(reversed(SETS[n]))
    for p in itertools.permutations(range(n)):
        struct_case('R%d_g%s'%(n,perm_name(p)),'struct%d'%n,base,[base[i] for i in p])
base=SETS[5]
for p in [(0,1,2,3,4),(4,3,2,1,0),(1,2,3,4,0),(2,0,4,1,3),(0,2,1,3,4),(3,4,0,1,2)]:
    struct_case('N5_g%s'%perm_name(p),'struct5',base,[base[i] for i in p])

# enums: unit, tuple variant (positional), struct variant with permuted fields
ef=[('p','i'),('r','s'),('k','i')]
for p in itertools.permutations(range(3)):
    name='E_g%s'%perm_name(p)
    gf=[ef[i] for i in p]
    out.append('#[derive(Clone, Debug, PartialEq, VmType, Pushable, Getable)]\n#[gluon(vm_type = "c11o.%s")]\npub enum %s { U%s, T%s(i64, i64, String), S%s { p: i64, r: String, k: i64 } }\n'%(name,name,name,name,name))
    glu.append('type %s = | U%s | T%s Int Int String | S%s { %s }'%(name,name,name,name,', '.join('%s : %s'%(n,gl_ty(t)) for n,t in gf)))
    types.append(name)
    d=dict(name=name,compat='true' if [t for n,t in gf]==[t for n,t in ef] else 'false',perm='true' if list(p)!=[0,1,2] else 'false',
      gf=','.join(n for n,t in gf),
      glit=', '.join('%s = {}'%n for n,t in gf), gargs=', '.join('Marsh::lit(%s).unwrap()'%n for n,t in gf),
      grebuild=', '.join('%s = s.%s'%(n,n) for n,t in gf))
    out.append('''impl OrdCase for %(name)s {
    const NAME: &'static str = "%(name)s";
    const SHAPE: &'static str = "enum";
    const PERMUTED: bool = %(perm)s;
    const TYPE_COMPAT: bool = %(compat)s;
    fn tcode() -> String { "(enum \\"c11o.%(name)s\\" (u) (t i64 i64 string) (s (\\"p\\" i64) (\\"r\\" string) (\\"k\\" i64)))".into() }
    fn gluon_fields() -> String { "%(gf)s".into() }
    fn make(src: &mut Src) -> Vec<Self> { vec![%(name)s::U%(name)s, %(name)s::T%(name)s(src.int(), src.int(), src.string()), %(name)s::S%(name)s { p: src.int(), r: src.string(), k: src.int() }] }
    fn val(&self) -> String { match self {
        %(name)s::U%(name)s => "(var 0 (u))".into(),
        %(name)s::T%(name)s(a, b, c) => format!("(var 1 (t {} {} {}))", Marsh::val(a), Marsh::val(b), Marsh::val(c)),
        %(name)s::S%(name)s { p, r, k } => format!("(var 2 (s (\\"p\\" {}) (\\"r\\" {}) (\\"k\\" {})))", Marsh::val(p), Marsh::val(r), Marsh::val(k)),
    } }
    fn lit(&self) -> String { match self {
        %(name)s::U%(name)s => "U%(name)s".into(),
        %(name)s::T%(name)s(a, b, c) => format!("T%(name)s {} {} {}", Marsh::lit(a).unwrap(), Marsh::lit(b).unwrap(), Marsh::lit(c).unwrap()),
        %(name)s::S%(name)s { p, r, k } => format!("S%(name)s {{ %(glit)s }}", %(gargs)s),
    } }
    fn obs_src() -> Vec<String> { vec!["(\\\\e ->\\n    match e with\\n    | U%(name)s -> \\"U\\"\\n    | T%(name)s a b c -> cat3 \\"T\\" (prim.show_int a) (cat3 \\",\\" (prim.show_int b) (cat \\",\\" (obs_str c)))\\n    | S%(name)s s -> cat3 \\"S k=\\" (prim.show_int s.k) (cat3 \\"p=\\" (prim.show_int s.p) (cat \\"r=\\" (obs_str s.r))))".into()] }
    fn obs(&self) -> String { match self {
        %(name)s::U%(name)s => "U".into(),
        %(name)s::T%(name)s(a, b, c) => format!("T{},{},{}", Marsh::obs(a), Marsh::obs(b), Marsh::obs(c)),
        %(name)s::S%(name)s { p, r, k } => format!("S k={}p={}r={}", Marsh::obs(k), Marsh::obs(p), Marsh::obs(r)),
    } }
    fn rebuild_src() -> String { "(\\\\e ->\\n    match e with\\n    | U%(name)s -> U%(name)s\\n    | T%(name)s a b c -> T%(name)s a b c\\n    | S%(name)s s -> S%(name)s { %(grebuild)s })".into() }
}
'''%d)

# nested: a struct holding a permuted struct, a permuted enum and two ints, itself permuted
nf=[('inner','N3_g210'),('n','i'),('e','E_g210'),('w','i')]
for p in [(0,1,2,3),(0,3,2,1),(3,2,1,0),(1,3,0,2),(2,0,3,1),(1,0,2,3),(0,1,3,2)]:
    name='O_g%s'%perm_name(p)
    gf=[nf[i] for i in p]
    def rty(t): return 'i64' if t=='i' else t
    def gty(t): return 'Int' if t=='i' else t
    out.append('#[derive(Clone, Debug, PartialEq, VmType, Pushable, Getable)]\n#[gluon(vm_type = "c11o.%s")]\npub struct %s { %s }\n'%(name,name,', '.join('pub %s: %s'%(n,rty(t)) for n,t in nf)))
    glu.append('type %s = { %s }'%(name, ', '.join('%s : %s'%(n,gty(t)) for n,t in gf)))
    types.append(name)
    d=dict(name=name,compat='true' if [t for n,t in gf]==[t for n,t in nf] else 'false',perm='true' if list(p)!=[0,1,2,3] else 'false',gf=','.join(n for n,t in gf),
      glit=', '.join('%s = {}'%n for n,t in gf),
      gargs=', '.join(('Marsh::lit(&self.%s).unwrap()'%n) if t=='i' else ('OrdCase::lit(&self.%s)'%n) for n,t in gf),
      grebuild=', '.join('%s = r.%s'%(n,n) for n,t in gf))
    out.append('''impl OrdCase for %(name)s {
    const NAME: &'static str = "%(name)s";
    const SHAPE: &'static str = "nested";
    const PERMUTED: bool = true;
    const TYPE_COMPAT: bool = %(compat)s;
    fn tcode() -> String { format!("(struct (\\"inner\\" {}) (\\"n\\" i64) (\\"e\\" {}) (\\"w\\" i64))", N3_g210::tcode(), E_g210::tcode()) }
    fn gluon_fields() -> String { "%(gf)s".into() }
    fn make(src: &mut Src) -> Vec<Self> {
        let mut v = vec![];
        for e in E_g210::make(src) { v.push(%(name)s { inner: N3_g210::make(src).pop().unwrap(), n: src.int(), e, w: src.int() }); }
        v
    }
    fn val(&self) -> String { format!("(struct (\\"inner\\" {}) (\\"n\\" {}) (\\"e\\" {}) (\\"w\\" {}))", OrdCase::val(&self.inner), Marsh::val(&self.n), OrdCase::val(&self.e), Marsh::val(&self.w)) }
    fn lit(&self) -> String { format!("{{ %(glit)s }}", %(gargs)s) }
    fn obs_src() -> Vec<String> { vec![format!("(\\\\r -> cat3 \\"e=\\" ({} r.e) (cat3 \\"inner=\\" ({} r.inner) (cat3 \\"n=\\" (prim.show_int r.n) (cat \\"w=\\" (prim.show_int r.w)))))", E_g210::obs_src()[0], N3_g210::obs_src()[0])] }
    fn obs(&self) -> String { format!("e={}inner={}n={}w={}", OrdCase::obs(&self.e), OrdCase::obs(&self.inner), Marsh::obs(&self.n), Marsh::obs(&self.w)) }
    fn rebuild_src() -> String { "(\\\\r -> { %(grebuild)s })".into() }
}
'''%d)

# tuple struct (positional on both sides; derive(VmType) only compiles with vm_type)
out.append('#[derive(Clone, Debug, PartialEq, VmType, Pushable, Getable)]\n#[gluon(vm_type = "c11o.TS3")]\npub struct TS3(pub i64, pub String, pub i64);\n')
glu.append('type TS3 = (Int, String, Int)')
types.append('TS3')
out.append('''impl OrdCase for TS3 {
    const NAME: &'static str = "TS3";
    const SHAPE: &'static str = "tuple-struct";
    const PERMUTED: bool = false;
    const TYPE_COMPAT: bool = true;
    fn tcode() -> String { "(tstruct i64 string i64)".into() }
    fn gluon_fields() -> String { "_0,_1,_2".into() }
    fn make(src: &mut Src) -> Vec<Self> { vec![TS3(src.int(), src.string(), src.int())] }
    fn val(&self) -> String { format!("(tstruct {} {} {})", Marsh::val(&self.0), Marsh::val(&self.1), Marsh::val(&self.2)) }
    fn lit(&self) -> String { format!("({}, {}, {})", Marsh::lit(&self.0).unwrap(), Marsh::lit(&self.1).unwrap(), Marsh::lit(&self.2).unwrap()) }
    fn obs_src() -> Vec<String> { vec!["(\\\\r -> cat3 (prim.show_int r._0) (obs_str r._1) (prim.show_int r._2))".into()] }
    fn obs(&self) -> String { format!("{}{}{}", Marsh::obs(&self.0), Marsh::obs(&self.1), Marsh::obs(&self.2)) }
    fn rebuild_src() -> String { "(\\\\r -> (r._0, r._1, r._2))".into() }
}
''')

hdr='''//! GENERATED by /tmp/gen_c11_orders.py (kept beside this file as c11/gen_orders.py) — wave 2:
//! host types bound with `#[gluon(vm_type = "..")]` to gluon-declared record / variant types whose
//! FIELD ORDER differs from the Rust declaration, through the real derive macros.
#![allow(non_camel_case_types)]
use super::marsh::Marsh;
use gluon_codegen::{Getable, Pushable, VmType};

/// deals distinct values to the fields, in Rust declaration order
pub struct Src { pub ints: Vec<i64>, pub strs: Vec<String>, pub i: usize, pub s: usize }
impl Src {
    pub fn int(&mut self) -> i64 { let v = self.ints[self.i % self.ints.len()]; self.i += 1; v }
    pub fn string(&mut self) -> String { let v = self.strs[self.s % self.strs.len()].clone(); self.s += 1; v }
}

pub trait OrdCase: Sized + Clone + std::fmt::Debug + PartialEq + Send + Sync + 'static
    + gluon::vm::api::VmType + for<'vm> gluon::vm::api::Pushable<'vm> + for<'vm, 'value> gluon::vm::api::Getable<'vm, 'value>
{
    const NAME: &'static str;
    const SHAPE: &'static str;
    const PERMUTED: bool;
    /// the field TYPES at each position agree between the Rust and the gluon declaration (a swap is then a
    /// silent wrong value; otherwise typed gluon code reading the pushed record is a type confusion)
    const TYPE_COMPAT: bool;
    fn tcode() -> String;
    fn gluon_fields() -> String;
    fn make(src: &mut Src) -> Vec<Self>;
    fn val(&self) -> String;
    fn lit(&self) -> String;
    fn obs_src() -> Vec<String>;
    fn obs(&self) -> String;
    fn rebuild_src() -> String;
}

'''
body=hdr+'pub const ORDER_TYPES_SRC: &str = r#"\n'+'\n'.join(glu)+'\n{ '+', '.join(types)+' }\n"#;\n\n'+'\n'.join(out)
body+='\n#[macro_export]\nmacro_rules! order_types { ($m:ident) => { $m!(%s); }; }\n'%', '.join(types)
open('/verif/harness/src/bin/c11/orders.rs','w').write(body)
print(len(types))
