//! Derived structs and enums (gluon_codegen derive macros + serde derives).
use super::gvw::Gv;
use super::marsh::{conforms_product, def_match, Marsh};
use gluon_codegen::{Getable, Pushable, VmType};
use gv::rng::Rng;
use serde_derive::{Deserialize, Serialize};

/// gluon module `c11t` declaring the enum types named by `vm_type`.
pub const TYPES_SRC: &str = r#"
type Color = | Red | Green | Blue
type Shape =
    | Empty
    | Circle Float
    | Rect { w : Int, h : Int }
    | Tagged String (Option Int)
    | Nested { x : Int, y : Float }
    | Last
{ Color, Shape }
"#;

#[derive(Clone, Debug, PartialEq, VmType, Pushable, Getable, Serialize, Deserialize)]
pub struct Point {
    pub x: i32,
    pub y: f64,
}

/// fields deliberately not in alphabetical order
#[derive(Clone, Debug, PartialEq, VmType, Pushable, Getable, Serialize, Deserialize)]
pub struct Rec {
    pub zeta: String,
    pub alpha: Vec<String>,
    pub pos: Point,
    pub opt: Option<u8>,
}

#[derive(Clone, Debug, PartialEq, VmType, Pushable, Getable, Serialize, Deserialize)]
pub struct Wrap(pub i64);

// NOTE `#[derive(VmType)]` does not compile for a tuple struct with >= 2 fields
// (codegen/src/vm_type.rs:95 calls `Type::tuple` with one argument; it takes `(symbols, elems)`),
// so the type is given by hand exactly as the derive intends it: the tuple of the field types.
#[derive(Clone, Debug, PartialEq, Pushable, Getable, Serialize, Deserialize)]
pub struct Pair(pub u8, pub String);

impl gluon::vm::api::VmType for Pair {
    type Type = Pair;
    fn make_type(vm: &gluon::Thread) -> gluon::base::types::ArcType {
        <(u8, String) as gluon::vm::api::VmType>::make_type(vm)
    }
}

#[derive(Clone, Debug, PartialEq, VmType, Pushable, Getable, Serialize, Deserialize)]
pub struct Unit;

#[derive(Clone, Debug, PartialEq, VmType, Pushable, Getable, Serialize, Deserialize)]
#[gluon(vm_type = "c11t.Color")]
pub enum Color {
    Red,
    Green,
    Blue,
}

#[derive(Clone, Debug, PartialEq, VmType, Pushable, Getable, Serialize, Deserialize)]
#[gluon(vm_type = "c11t.Shape")]
pub enum Shape {
    Empty,
    Circle(f64),
    Rect { w: u32, h: u32 },
    Tagged(String, Option<i32>),
    Nested(Point),
    Last,
}

fn names(ns: &[&str]) -> Vec<String> {
    ns.iter().map(|s| s.to_string()).collect()
}

impl Marsh for Point {
    fn head() -> &'static str {
        "struct"
    }
    fn tcode() -> String {
        "(struct (\"x\" i32) (\"y\" f64))".into()
    }
    fn gtype() -> String {
        "{ x : Int, y : Float }".into()
    }
    fn gen(r: &mut Rng) -> Self {
        Point { x: i32::gen(r), y: f64::gen(r) }
    }
    fn val(&self) -> String {
        format!("(struct (\"x\" {}) (\"y\" {}))", self.x.val(), self.y.val())
    }
    fn same(&self, o: &Self) -> bool {
        self.x.same(&o.x) && self.y.same(&o.y)
    }
    fn lit(&self) -> Option<String> {
        Some(format!("{{ x = {}, y = {} }}", self.x.lit()?, self.y.lit()?))
    }
    fn obs_fn(defs: &mut Vec<String>) -> String {
        format!(
            "(\\x -> cat3 \"{{x=\" ({} x.x) (cat3 \";y=\" ({} x.y) \"}}\"))",
            i32::obs_fn(defs),
            f64::obs_fn(defs)
        )
    }
    fn obs(&self) -> String {
        format!("{{x={};y={}}}", self.x.obs(), self.y.obs())
    }
    fn conforms(&self, g: &Gv) -> Result<(), String> {
        conforms_product(g, &names(&["x", "y"]), true, "struct", &mut |i, f| match i {
            0 => self.x.conforms(f),
            _ => self.y.conforms(f),
        })
    }
}

impl Marsh for Rec {
    fn head() -> &'static str {
        "struct"
    }
    fn tcode() -> String {
        format!(
            "(struct (\"zeta\" string) (\"alpha\" (vec string)) (\"pos\" {}) (\"opt\" (option u8)))",
            Point::tcode()
        )
    }
    fn gtype() -> String {
        format!(
            "{{ zeta : String, alpha : Array String, pos : {}, opt : Option Byte }}",
            Point::gtype()
        )
    }
    fn gen(r: &mut Rng) -> Self {
        Rec {
            zeta: String::gen(r),
            alpha: Vec::<String>::gen(r),
            pos: Point::gen(r),
            opt: Option::<u8>::gen(r),
        }
    }
    fn val(&self) -> String {
        format!(
            "(struct (\"zeta\" {}) (\"alpha\" {}) (\"pos\" {}) (\"opt\" {}))",
            self.zeta.val(),
            self.alpha.val(),
            self.pos.val(),
            self.opt.val()
        )
    }
    fn same(&self, o: &Self) -> bool {
        self.zeta.same(&o.zeta) && self.alpha.same(&o.alpha) && self.pos.same(&o.pos) && self.opt.same(&o.opt)
    }
    fn lit(&self) -> Option<String> {
        Some(format!(
            "{{ zeta = {}, alpha = {}, pos = {}, opt = {} }}",
            self.zeta.lit()?,
            self.alpha.lit()?,
            self.pos.lit()?,
            self.opt.lit()?
        ))
    }
    fn obs_fn(defs: &mut Vec<String>) -> String {
        format!(
            "(\\x -> cat3 \"{{zeta=\" ({} x.zeta) (cat3 \";alpha=\" ({} x.alpha) (cat3 \";pos=\" ({} x.pos) (cat3 \";opt=\" ({} x.opt) \"}}\"))))",
            String::obs_fn(defs),
            Vec::<String>::obs_fn(defs),
            Point::obs_fn(defs),
            Option::<u8>::obs_fn(defs)
        )
    }
    fn obs(&self) -> String {
        format!(
            "{{zeta={};alpha={};pos={};opt={}}}",
            self.zeta.obs(),
            self.alpha.obs(),
            self.pos.obs(),
            self.opt.obs()
        )
    }
    fn conforms(&self, g: &Gv) -> Result<(), String> {
        conforms_product(g, &names(&["zeta", "alpha", "pos", "opt"]), true, "struct", &mut |i, f| match i {
            0 => self.zeta.conforms(f),
            1 => self.alpha.conforms(f),
            2 => self.pos.conforms(f),
            _ => self.opt.conforms(f),
        })
    }
}

impl Marsh for Wrap {
    fn head() -> &'static str {
        "newtype"
    }
    fn tcode() -> String {
        "(newtype i64)".into()
    }
    fn gtype() -> String {
        "Int".into()
    }
    fn gen(r: &mut Rng) -> Self {
        Wrap(i64::gen(r))
    }
    fn val(&self) -> String {
        format!("(newtype {})", self.0.val())
    }
    fn same(&self, o: &Self) -> bool {
        self.0 == o.0
    }
    fn lit(&self) -> Option<String> {
        self.0.lit()
    }
    fn obs_fn(defs: &mut Vec<String>) -> String {
        i64::obs_fn(defs)
    }
    fn obs(&self) -> String {
        self.0.obs()
    }
    fn conforms(&self, g: &Gv) -> Result<(), String> {
        self.0.conforms(g)
    }
}

impl Marsh for Pair {
    fn head() -> &'static str {
        "tstruct"
    }
    fn tcode() -> String {
        "(tstruct u8 string)".into()
    }
    fn gtype() -> String {
        "(Byte, String)".into()
    }
    fn gen(r: &mut Rng) -> Self {
        Pair(u8::gen(r), String::gen(r))
    }
    fn val(&self) -> String {
        format!("(tstruct {} {})", self.0.val(), self.1.val())
    }
    fn same(&self, o: &Self) -> bool {
        self.0 == o.0 && self.1 == o.1
    }
    fn lit(&self) -> Option<String> {
        Some(format!("({}, {})", self.0.lit()?, self.1.lit()?))
    }
    fn obs_fn(defs: &mut Vec<String>) -> String {
        <(u8, String)>::obs_fn(defs)
    }
    fn obs(&self) -> String {
        format!("({};{})", self.0.obs(), self.1.obs())
    }
    fn conforms(&self, g: &Gv) -> Result<(), String> {
        conforms_product(g, &names(&["_0", "_1"]), false, "tstruct", &mut |i, f| match i {
            0 => self.0.conforms(f),
            _ => self.1.conforms(f),
        })
    }
}

impl Marsh for Unit {
    fn head() -> &'static str {
        "ustruct"
    }
    fn tcode() -> String {
        "ustruct".into()
    }
    fn gtype() -> String {
        "()".into()
    }
    fn gen(_: &mut Rng) -> Self {
        Unit
    }
    fn val(&self) -> String {
        "ustruct".into()
    }
    fn same(&self, _: &Self) -> bool {
        true
    }
    fn lit(&self) -> Option<String> {
        Some("()".into())
    }
    fn obs_fn(defs: &mut Vec<String>) -> String {
        "(\\x -> \"U\")".into()
    }
    fn obs(&self) -> String {
        "U".into()
    }
    fn conforms(&self, _: &Gv) -> Result<(), String> {
        Ok(())
    }
}

impl Marsh for Color {
    fn head() -> &'static str {
        "enum"
    }
    fn tcode() -> String {
        "(enum \"c11t.Color\" (u) (u) (u))".into()
    }
    fn gtype() -> String {
        "Color".into()
    }
    fn boundaries() -> Vec<Self> {
        vec![Color::Red, Color::Green, Color::Blue]
    }
    fn gen(r: &mut Rng) -> Self {
        r.pick(&[Color::Red, Color::Green, Color::Blue]).clone()
    }
    fn val(&self) -> String {
        format!("(var {} (u))", self.clone() as u32)
    }
    fn same(&self, o: &Self) -> bool {
        self == o
    }
    fn lit(&self) -> Option<String> {
        Some(self.obs())
    }
    fn obs_fn(defs: &mut Vec<String>) -> String {
        def_match(defs, "Color", &["Red -> \"Red\"", "Green -> \"Green\"", "Blue -> \"Blue\""])
    }
    fn obs(&self) -> String {
        format!("{:?}", self)
    }
    fn conforms(&self, g: &Gv) -> Result<(), String> {
        if g.nullary() == Some(self.clone() as u32) {
            Ok(())
        } else {
            Err("enum".into())
        }
    }
}

impl Marsh for Shape {
    fn head() -> &'static str {
        "enum"
    }
    fn tcode() -> String {
        format!(
            "(enum \"c11t.Shape\" (u) (t f64) (s (\"w\" u32) (\"h\" u32)) (t string (option i32)) (t {}) (u))",
            Point::tcode()
        )
    }
    fn gtype() -> String {
        "Shape".into()
    }
    fn boundaries() -> Vec<Self> {
        vec![Shape::Empty, Shape::Last]
    }
    fn gen(r: &mut Rng) -> Self {
        match r.below(6) {
            0 => Shape::Empty,
            1 => Shape::Circle(f64::gen(r)),
            2 => Shape::Rect { w: u32::gen(r), h: u32::gen(r) },
            3 => Shape::Tagged(String::gen(r), Option::<i32>::gen(r)),
            4 => Shape::Nested(Point::gen(r)),
            _ => Shape::Last,
        }
    }
    fn val(&self) -> String {
        match self {
            Shape::Empty => "(var 0 (u))".into(),
            Shape::Circle(r) => format!("(var 1 (t {}))", r.val()),
            Shape::Rect { w, h } => format!("(var 2 (s (\"w\" {}) (\"h\" {})))", w.val(), h.val()),
            Shape::Tagged(s, o) => format!("(var 3 (t {} {}))", s.val(), o.val()),
            Shape::Nested(p) => format!("(var 4 (t {}))", p.val()),
            Shape::Last => "(var 5 (u))".into(),
        }
    }
    fn same(&self, o: &Self) -> bool {
        match (self, o) {
            (Shape::Empty, Shape::Empty) | (Shape::Last, Shape::Last) => true,
            (Shape::Circle(a), Shape::Circle(b)) => a.same(b),
            (Shape::Rect { w, h }, Shape::Rect { w: w2, h: h2 }) => w == w2 && h == h2,
            (Shape::Tagged(a, b), Shape::Tagged(a2, b2)) => a == a2 && b == b2,
            (Shape::Nested(a), Shape::Nested(b)) => a.same(b),
            _ => false,
        }
    }
    fn lit(&self) -> Option<String> {
        Some(match self {
            Shape::Empty => "Empty".into(),
            Shape::Circle(r) => format!("(Circle {})", r.lit()?),
            Shape::Rect { w, h } => format!("(Rect {{ w = {}, h = {} }})", w.lit()?, h.lit()?),
            Shape::Tagged(s, o) => format!("(Tagged {} {})", s.lit()?, o.lit()?),
            Shape::Nested(p) => format!("(Nested {})", p.lit()?),
            Shape::Last => "Last".into(),
        })
    }
    fn obs_fn(defs: &mut Vec<String>) -> String {
        let f = f64::obs_fn(defs);
        let u = u32::obs_fn(defs);
        let st = String::obs_fn(defs);
        let o = Option::<i32>::obs_fn(defs);
        let p = Point::obs_fn(defs);
        def_match(
            defs,
            "Shape",
            &[
                "Empty -> \"Empty\"",
                &format!("Circle r -> cat3 \"Circle(\" ({} r) \")\"", f),
                &format!("Rect r -> cat3 \"Rect{{w=\" ({u} r.w) (cat3 \";h=\" ({u} r.h) \"}}\")", u = u),
                &format!("Tagged s o -> cat3 \"Tagged(\" ({} s) (cat3 \";\" ({} o) \")\")", st, o),
                &format!("Nested p -> cat3 \"Nested(\" ({} p) \")\"", p),
                "Last -> \"Last\"",
            ],
        )
    }
    fn obs(&self) -> String {
        match self {
            Shape::Empty => "Empty".into(),
            Shape::Circle(r) => format!("Circle({})", r.obs()),
            Shape::Rect { w, h } => format!("Rect{{w={};h={}}}", w.obs(), h.obs()),
            Shape::Tagged(s, o) => format!("Tagged({};{})", s.obs(), o.obs()),
            Shape::Nested(p) => format!("Nested({})", p.obs()),
            Shape::Last => "Last".into(),
        }
    }
    fn conforms(&self, g: &Gv) -> Result<(), String> {
        let e = || Err("enum".to_string());
        match (self, g.ctor()) {
            (Shape::Empty, Some((0, []))) => Ok(()),
            (Shape::Circle(r), Some((1, [x]))) => r.conforms(x),
            (Shape::Rect { w, h }, Some((2, [x]))) => {
                conforms_product(x, &names(&["w", "h"]), true, "enum", &mut |i, f| match i {
                    0 => w.conforms(f),
                    _ => h.conforms(f),
                })
            }
            (Shape::Tagged(s, o), Some((3, [x, y]))) => {
                s.conforms(x)?;
                o.conforms(y)
            }
            (Shape::Nested(p), Some((4, [x]))) => p.conforms(x),
            (Shape::Last, Some((5, []))) => Ok(()),
            _ => e(),
        }
    }
}
