//! Canonical view of a marshalled gluon value (walked through the public `ValueRef` API).
use gluon::vm::api::ValueRef;
use gluon::vm::Variants;
use gluon::Thread;

#[derive(Clone, Debug, PartialEq)]
pub enum Gv {
    B(u8),
    I(i64),
    F(u64),
    S(String),
    /// `ValueRepr::Tag`
    Tag(u32),
    /// `DataStruct` allocated without field names
    Data(u32, Vec<Gv>),
    /// `DataStruct` with a field map: positional values + (name, value) sorted by name
    Rec(Vec<Gv>, Vec<(String, Gv)>),
    /// array with its `Repr`
    Arr(String, Vec<Gv>),
    Other(String),
}

pub fn walk(vm: &Thread, v: Variants) -> Gv {
    match v.as_ref() {
        ValueRef::Byte(b) => Gv::B(b),
        ValueRef::Int(i) => Gv::I(i),
        ValueRef::Float(f) => Gv::F(f.to_bits()),
        ValueRef::String(s) => Gv::S(s.to_string()),
        ValueRef::Data(d) => {
            // `Data`'s derived Debug is the only public way to tell `Tag(n)` from an allocated
            // `DataStruct` with zero fields.
            let dbg = format!("{:?}", d);
            if dbg.starts_with("Data(Tag(") {
                return Gv::Tag(d.tag());
            }
            let fields: Vec<Gv> = (0..d.len())
                .map(|i| walk(vm, d.get_variant(i).unwrap()))
                .collect();
            let mut names: Vec<String> = d.field_names().map(|n| n.to_string()).collect();
            names.sort();
            if names.is_empty() {
                Gv::Data(d.tag(), fields)
            } else {
                let named = names
                    .into_iter()
                    .map(|n| {
                        let x = match d.lookup_field(vm, &n) {
                            Some(x) => walk(vm, x),
                            None => Gv::Other("missing".into()),
                        };
                        (n, x)
                    })
                    .collect();
                Gv::Rec(fields, named)
            }
        }
        ValueRef::Array(a) => {
            let repr = format!("{:?}", a.repr());
            let xs = a.iter().map(|x| walk(vm, x)).collect();
            Gv::Arr(repr, xs)
        }
        ValueRef::Userdata(_) => Gv::Other("userdata".into()),
        ValueRef::Thread(_) => Gv::Other("thread".into()),
        ValueRef::Closure(_) => Gv::Other("closure".into()),
        ValueRef::Internal => Gv::Other("internal".into()),
    }
}

impl Gv {
    pub fn sexp(&self) -> String {
        match self {
            Gv::B(b) => format!("(b {})", b),
            Gv::I(i) => format!("(i {})", i),
            Gv::F(f) => format!("(f {})", f),
            Gv::S(s) => format!("(s {})", gv::quote(s)),
            Gv::Tag(t) => format!("(tag {})", t),
            Gv::Data(t, fs) => {
                let mut s = format!("(data {}", t);
                for f in fs {
                    s.push(' ');
                    s.push_str(&f.sexp());
                }
                s.push(')');
                s
            }
            Gv::Rec(fs, named) => {
                let mut s = String::from("(rec (");
                for (i, f) in fs.iter().enumerate() {
                    if i > 0 {
                        s.push(' ');
                    }
                    s.push_str(&f.sexp());
                }
                s.push_str(") (");
                for (i, (n, f)) in named.iter().enumerate() {
                    if i > 0 {
                        s.push(' ');
                    }
                    s.push_str(&format!("({} {})", gv::quote(n), f.sexp()));
                }
                s.push_str("))");
                s
            }
            Gv::Arr(r, xs) => {
                let mut s = format!("(arr {}", r);
                for f in xs {
                    s.push(' ');
                    s.push_str(&f.sexp());
                }
                s.push(')');
                s
            }
            Gv::Other(o) => format!("(other {})", o),
        }
    }

    /// A constructor without arguments, as gluon code sees it (`Tag n` or a field-less data).
    pub fn nullary(&self) -> Option<u32> {
        match self {
            Gv::Tag(t) => Some(*t),
            Gv::Data(t, fs) if fs.is_empty() => Some(*t),
            _ => None,
        }
    }
    /// Constructor with arguments.
    pub fn ctor(&self) -> Option<(u32, &[Gv])> {
        match self {
            Gv::Tag(t) => Some((*t, &[])),
            Gv::Data(t, fs) => Some((*t, &fs[..])),
            _ => None,
        }
    }
    /// Product value (tuple/record): positional fields and names if present.
    pub fn product(&self) -> Option<(&[Gv], Option<&[(String, Gv)]>)> {
        match self {
            Gv::Tag(0) => Some((&[], None)),
            Gv::Data(0, fs) => Some((&fs[..], None)),
            Gv::Rec(fs, named) => Some((&fs[..], Some(&named[..]))),
            _ => None,
        }
    }
}
