//! C07 — resource limits are enforced and tail calls run in constant stack.
//!
//! The parent process is a scheduler: every piece of work that touches the real implementation
//! is a *task* run in a child process (so that an abort / native stack overflow / hang of the
//! implementation is an outcome).  A task returns correspondence cases (request for the Lean
//! driver + the implementation's payload), property-oracle failures, counts and observations.
//!
//!  gc        random op sequences on the real `gluon_vm::gc::Gc`  ~ `GcAccount.step`
//!  verify    every function of compiled programs: real bytecode + declared max_stack_size
//!            ~ `StackVerify.verify`; Rust-side height interpreter as the independent oracle
//!  stack     recursion families: bisected stack-limit threshold and observed peak frame count of
//!            the real VM ~ `CallStack.run` on the script derived from the real bytecode
//!  mem       allocation-heavy programs: ladder of memory limits, `allocated_memory() <= limit`,
//!            accounting == sum of heap objects, OOM `needed` ~ `GcAccount.firstOom`
//!  deep      10^6-deep recursion / data: must end in ok / StackOverflow / OutOfMemory, no crash
//!  interrupt `Thread::interrupt` from another OS thread stops an endless loop promptly
#[path = "c07/bytecode.rs"]
mod bytecode;
#[path = "c07/families.rs"]
mod families;

use bytecode::{compile, fn_sexp, heights, Compiled, FnDump, Heights};
use gluon::compiler_pipeline::Executable;
use gluon::vm::gc::{CollectScope, DataDef, Gc, GcPtr, Generation, Trace};
use gluon::vm::stack::State;
use gluon::vm::thread::{HookFlags, ThreadInternal};
use gluon::vm::types::Instruction;
use gluon::vm::Error as VmError;
use gluon::{RootedThread, Thread, ThreadExt};
use gv::{Args, Out};
use serde_json::{json, Value};
use std::sync::atomic::{AtomicUsize, Ordering};
use std::sync::Arc;
use std::time::{Duration, Instant};

#[derive(Debug, Clone, PartialEq)]
pub enum Outcome {
    Ok(String),
    Stack(u32),
    Oom { limit: usize, needed: usize },
    Interrupted,
    Other(String),
    Panic(String),
}

impl Outcome {
    fn class(&self) -> String {
        match self {
            Outcome::Ok(_) => "ok".into(),
            Outcome::Stack(_) => "err:stack".into(),
            Outcome::Oom { .. } => "err:oom".into(),
            Outcome::Interrupted => "err:interrupted".into(),
            // an OutOfMemory raised inside an extern primitive comes back as `Error::Panic(text)`
            Outcome::Other(m) if m.contains("Thread is out of memory") => "err:oom-as-panic".into(),
            Outcome::Other(m) => format!("err:other:{}", gv::surf::classify_error(m)),
            Outcome::Panic(m) => format!("panic:{}", m.chars().take(60).collect::<String>()),
        }
    }
}

fn new_vm() -> RootedThread {
    let vm = gv::vm::new_vm();
    gv::vm::settings(&vm, false, false);
    vm
}

/// Run the compiled module (exactly the bytecode that was dumped).
fn run(vm: &Thread, name: &str, c: Compiled) -> Outcome {
    let r = gv::catch(|| {
        futures::executor::block_on(c.value.run_expr(
            &mut vm.module_compiler(&mut vm.get_database()),
            vm.root_thread(),
            name,
            "",
            (),
        ))
    });
    match r {
        Err(p) => Outcome::Panic(p),
        Ok(Ok(v)) => Outcome::Ok(gv::surf::canon_value(v.value.get_variant())),
        Ok(Err(gluon::Error::VM(VmError::StackOverflow(n)))) => Outcome::Stack(n),
        Ok(Err(gluon::Error::VM(VmError::OutOfMemory { limit, needed }))) => Outcome::Oom { limit, needed },
        Ok(Err(gluon::Error::VM(VmError::Interrupted))) => Outcome::Interrupted,
        Ok(Err(e)) => Outcome::Other(e.to_string()),
    }
}

#[derive(Default, Clone, Debug)]
struct Limits {
    stack: Option<u32>,
    mem: Option<usize>,
    hook: bool,
}

#[derive(Debug)]
struct Obs {
    outcome: Outcome,
    before: usize,
    after: usize,
    heap_sum: usize,
    peak_frames: usize,
    values_after: u32,
    frames_after: usize,
    fns: Vec<FnDump>,
}

/// Fresh VM, compile, configure the limits, run, observe.
fn run_fresh(name: &str, src: &str, lim: &Limits) -> Result<Obs, String> {
    let vm = new_vm();
    let c = compile(&vm, name, src)?;
    let fns = c.fns.clone();
    let peak = Arc::new(AtomicUsize::new(0));
    if let Some(s) = lim.stack {
        vm.context().set_max_stack_size(s);
    }
    if lim.hook {
        let p = peak.clone();
        let mut ctx = vm.context();
        ctx.set_hook(Some(Box::new(move |_, info| {
            p.fetch_max(info.stack_info_len(), Ordering::Relaxed);
            std::task::Poll::Ready(Ok(()))
        })));
        ctx.set_hook_mask(HookFlags::CALL_FLAG);
    }
    let before = vm.allocated_memory();
    if let Some(m) = lim.mem {
        vm.set_memory_limit(m);
    }
    let outcome = run(&vm, name, c);
    let after = vm.allocated_memory();
    let (_, objs) = vm.verif_heap();
    let heap_sum = objs.iter().map(|o| o.1).sum();
    let (values_after, frames_after) = {
        let mut ctx = vm.context();
        let f = ctx.frame_level();
        (ctx.stack_frame::<State>().len(), f)
    };
    Ok(Obs { outcome, before, after, heap_sum, peak_frames: peak.load(Ordering::Relaxed), values_after, frames_after, fns })
}

/// What a task hands back to the parent.
#[derive(Default)]
struct TaskOut {
    cases: Vec<(String, String)>,
    oracle: Vec<Value>,
    counts: std::collections::BTreeMap<String, u64>,
    classes: Vec<String>,
    samples: Vec<Value>,
    obs: Value,
}

impl TaskOut {
    fn count(&mut self, k: &str) {
        *self.counts.entry(k.to_string()).or_default() += 1;
    }
    fn fail(&mut self, fp: &str, what: &str, replay: Value) {
        self.oracle.push(json!({"fingerprint": fp, "what": what, "replay": replay}));
    }
    fn to_json(&self) -> String {
        json!({"cases": self.cases, "oracle": self.oracle, "counts": self.counts, "classes": self.classes,
               "samples": self.samples, "obs": self.obs})
        .to_string()
    }
}

// ------------------------------------------------------------------------------------ gc task

struct Roots<T>(Vec<GcPtr<T>>);
unsafe impl<T: Trace> Trace for Roots<T> {
    fn trace(&self, gc: &mut Gc) {
        for p in &self.0 {
            p.trace(gc);
        }
    }
}
impl<T> CollectScope for Roots<T> {
    fn scope<F>(&self, gc: &mut Gc, f: F)
    where
        F: FnOnce(&mut Gc),
    {
        f(gc)
    }
}

fn gc_debug_field(gc: &Gc, field: &str) -> u64 {
    let s = format!("{:?}", gc);
    let key = format!("{}: ", field);
    let i = s.find(&key).expect("field in Debug of Gc") + key.len();
    s[i..].chars().take_while(|c| c.is_ascii_digit()).collect::<String>().parse().unwrap()
}

type VStr = <&'static str as DataDef>::Value;

fn task_gc(seed: u64, n: u64, t: &mut TaskOut) {
    let mut rng = gv::rng::Rng::new(seed, 0xC07A);
    // `GcHeader::value_offset()` is private: observed on a scratch heap, must be the same for
    // every object
    let hdr0 = {
        let mut g = Gc::new(Generation::default(), usize::MAX);
        let _ = g.alloc("abc").unwrap();
        let h = g.allocated_memory() - DataDef::size(&"abc");
        unsafe { g.clear() };
        h
    };
    for seq in 0..n {
        let limit: usize = match rng.below(8) {
            0 => usize::MAX / 4,
            1 => 40 + rng.below(200) as usize,
            _ => 200 + rng.below(4000) as usize,
        };
        let mut gc = Gc::new(Generation::default(), limit);
        let mut cur_limit = limit;
        // newest first, like the model's `objs`
        let mut objs: Vec<(usize, usize)> = vec![]; // (address, size)
        let mut ptrs: Vec<GcPtr<VStr>> = vec![];
        let nops = 3 + rng.below(40);
        let mut ops = String::new();
        let mut results = String::new();
        let mut pure = true; // no alloc_ignore_limit / set_limit so far
        let mut kinds = std::collections::BTreeSet::new();
        let mut saw_oom = false;
        let mut saw_collect = false;
        let mut hdr: Option<usize> = Some(hdr0);
        for _ in 0..nops {
            let len = match rng.below(4) {
                0 => rng.below(8) as usize,
                1 => rng.below(64) as usize,
                _ => rng.below(600) as usize,
            };
            let s = "x".repeat(len);
            let size = DataDef::size(&s.as_str());
            let marks: Vec<bool> = objs.iter().map(|_| rng.chance(2, 3)).collect();
            let marks_s: Vec<&str> = marks.iter().map(|m| if *m { "1" } else { "0" }).collect();
            let keep = || -> Roots<_> {
                Roots(
                    ptrs.iter()
                        .zip(marks.iter())
                        .filter(|(_, m)| **m)
                        .map(|(p, _): (&GcPtr<_>, _)| unsafe { p.unrooted() })
                        .collect(),
                )
            };
            let res: Result<(), (usize, usize)>;
            let k = rng.below(10);
            let mut new_ptr = None;
            match k {
                0..=3 => {
                    kinds.insert("alloc");
                    ops.push_str(&format!("(a {}) ", size));
                    match gc.alloc(s.as_str()) {
                        Ok(p) => {
                            new_ptr = Some(unsafe { p.unrooted() });
                            res = Ok(());
                        }
                        Err(VmError::OutOfMemory { limit, needed }) => res = Err((limit, needed)),
                        Err(e) => panic!("unexpected gc error {}", e),
                    }
                }
                4..=5 => {
                    kinds.insert("alloc_and_collect");
                    ops.push_str(&format!("(ac ({}) {}) ", marks_s.join(" "), size));
                    let roots = keep();
                    match unsafe { gc.alloc_and_collect(roots, s.as_str()) } {
                        Ok(p) => {
                            new_ptr = Some(unsafe { gluon::vm::gc::GcRef::from(p).unrooted() });
                            res = Ok(());
                        }
                        Err(VmError::OutOfMemory { limit, needed }) => res = Err((limit, needed)),
                        Err(e) => panic!("unexpected gc error {}", e),
                    }
                }
                6 => {
                    kinds.insert("alloc_ignore_limit");
                    pure = false;
                    ops.push_str(&format!("(i {}) ", size));
                    let p = gc.alloc_ignore_limit(s.as_str());
                    new_ptr = Some(unsafe { p.unrooted() });
                    res = Ok(());
                }
                7..=8 => {
                    kinds.insert("collect");
                    ops.push_str(&format!("(c ({})) ", marks_s.join(" ")));
                    let roots = keep();
                    unsafe { gc.collect(roots) };
                    res = Ok(());
                }
                _ => {
                    kinds.insert("set_memory_limit");
                    let l = 100 + rng.below(4000) as usize;
                    if l < cur_limit {
                        pure = false;
                    }
                    cur_limit = l;
                    ops.push_str(&format!("(l {}) ", l));
                    gc.set_memory_limit(l);
                    res = Ok(());
                }
            }
            // which objects survived (a collection may have run)
            let live: std::collections::HashMap<usize, usize> =
                gc.verif_objects().iter().map(|o| (o.0, o.1)).collect();
            let mut k2 = 0;
            let before_n = objs.len();
            // a freed object's address may be reused by the object allocated in the same step
            let new_addr = new_ptr.as_ref().map(|p| &**p as *const _ as *const () as usize);
            while k2 < objs.len() {
                if live.contains_key(&objs[k2].0) && Some(objs[k2].0) != new_addr {
                    k2 += 1;
                } else {
                    objs.remove(k2);
                    ptrs.remove(k2);
                }
            }
            if objs.len() < before_n {
                saw_collect = true;
            }
            if let Some(p) = new_ptr {
                let addr = &*p as *const _ as *const () as usize;
                let sz = *live.get(&addr).expect("new object is in the heap list");
                let h0 = *hdr.get_or_insert(sz - size);
                if sz != h0 + size {
                    t.fail("gc:object-size", &format!("object of value size {} is accounted as {}", size, sz), json!({"task": "gc", "seed": seed, "seq": seq}));
                }
                objs.insert(0, (addr, sz));
                ptrs.insert(0, p);
            }
            let allocated = gc.allocated_memory();
            match res {
                Ok(()) => results.push_str(&format!("(ok {}) ", allocated)),
                Err((l, nd)) => {
                    saw_oom = true;
                    results.push_str(&format!("((oom {} {}) {}) ", l, nd, allocated))
                }
            }
            // property oracle, straight from the statement
            let sum: usize = live.values().sum();
            if sum != allocated {
                t.fail("gc:accounting-drift", &format!("allocated_memory() = {} but the heap holds {} bytes", allocated, sum), json!({"task": "gc", "seed": seed, "seq": seq, "ops": ops}));
            }
            if pure && allocated > cur_limit {
                t.fail("gc:over-limit", &format!("allocated_memory() = {} exceeds the limit {}", allocated, cur_limit), json!({"task": "gc", "seed": seed, "seq": seq, "ops": ops}));
            }
        }
        let req = format!("gc {} {} ({})", hdr.unwrap_or(hdr0), limit, ops.trim_end());
        let payload = format!(
            "(({}) {} {} {})",
            results.trim_end(),
            gc.allocated_memory(),
            gc_debug_field(&gc, "collect_limit"),
            gc.verif_objects().len()
        );
        t.cases.push((req, payload));
        t.count("gc:sequences");
        if kinds.len() >= 3 {
            t.classes.push(format!("gc:{:?}:oom={}:freed={}", kinds, saw_oom, saw_collect));
        }
        ptrs.clear();
        unsafe { gc.clear() };
    }
}

// -------------------------------------------------------------------------------- verify task

fn is_forward(f: &FnDump) -> bool {
    f.instrs.iter().enumerate().all(|(pc, i)| match i {
        Instruction::Jump(t) | Instruction::CJump(t) => (*t as usize) > pc,
        _ => true,
    })
}

/// Tail-position discipline of one compiled function: the kinds of its call instructions (pc order)
/// against the `TailPos` model (correspondence) and against the property's own rule (oracle).
fn tailpos_fn(f: &FnDump, what: &str, replay: &Value, t: &mut TaskOut) {
    let real: Vec<bool> = f
        .instrs
        .iter()
        .filter_map(|i| match i {
            Instruction::TailCall(_) => Some(true),
            Instruction::Call(_) => Some(false),
            _ => None,
        })
        .collect();
    let (shape, expected) = match &f.tail {
        Some(x) => x,
        None => {
            if !real.is_empty() {
                t.count("tailpos:skipped:call-count");
            }
            return;
        }
    };
    if real.is_empty() {
        return;
    }
    let payload: Vec<&str> = real.iter().map(|b| if *b { "T" } else { "N" }).collect();
    t.cases.push((format!("tailpos {}", shape), format!("({})", payload.join(" "))));
    t.count("tailpos:functions");
    for (k, ((want, ctx), got)) in expected.iter().zip(real.iter()).enumerate() {
        if *want {
            t.count(&format!("tailpos:tail-call-in:{}", ctx));
        }
        if *want && !*got {
            t.fail(
                &format!("tail-position-lost:{}", ctx),
                &format!("call #{} of `{}` ({}) is in tail position ({}) but is compiled as Call, not TailCall: the frame is not reused", k, f.name, what, ctx),
                replay.clone(),
            );
        } else if !*want && *got {
            t.fail(
                &format!("tail-call-in-non-tail-position:{}", ctx),
                &format!("call #{} of `{}` ({}) is not in tail position ({}) but is compiled as TailCall", k, f.name, what, ctx),
                replay.clone(),
            );
        }
    }
    if expected.iter().any(|e| e.0) && expected.iter().any(|e| !e.0) {
        use std::hash::{Hash, Hasher};
        let mut h = std::collections::hash_map::DefaultHasher::new();
        shape.hash(&mut h);
        t.classes.push(format!("tailpos:{:016x}", h.finish()));
    }
}

/// Correspondence case + oracle for every function of a compiled program.
fn verify_fns(fns: &[FnDump], what: &str, replay: &Value, t: &mut TaskOut) {
    for f in fns {
        tailpos_fn(f, what, replay, t);
        match heights(f) {
            Heights::Unsupported(w) => t.count(&format!("verify:skipped:{}", w)),
            Heights::Bad(pc, w) => {
                let kind = w.split(' ').next().unwrap_or("?").to_string();
                t.fail(
                    &format!("static-height:{}:{}", kind, bytecode::instr_sexp(&f.instrs[pc.min(f.instrs.len() - 1)]).split(|c| c == ' ' || c == ')').next().unwrap().trim_start_matches('(')),
                    &format!("frame height of `{}` ({}) is not well defined at pc {}: {}", f.name, what, pc, w),
                    replay.clone(),
                );
                t.cases.push((format!("verify {}", fn_sexp(f)), "(unverifiable)".into()));
            }
            Heights::Ok(hs, peak) => {
                if peak > f.max_stack_size {
                    t.fail(
                        "static-bound-exceeded",
                        &format!("`{}` ({}) reaches frame height {} but declares max_stack_size {}", f.name, what, peak, f.max_stack_size),
                        replay.clone(),
                    );
                } else if peak < f.max_stack_size {
                    t.count("verify:bound-loose");
                } else {
                    t.count("verify:bound-exact");
                }
                if !is_forward(f) {
                    t.fail("backward-jump", &format!("`{}` ({}) contains a backward jump: a body may run unboundedly long between two interrupt polls", f.name, what), replay.clone());
                }
                let exits: Vec<String> = f
                    .instrs
                    .iter()
                    .enumerate()
                    .filter(|(_, i)| matches!(i, Instruction::Call(_) | Instruction::TailCall(_) | Instruction::Return))
                    .filter_map(|(pc, _)| hs[pc].map(|h| format!("({} {})", pc, h)))
                    .collect();
                // the implementation's claim: the declared bound suffices ("within")
                t.cases.push((
                    format!("verify {}", fn_sexp(f)),
                    format!("(ok {} within {} ({}))", peak, if is_forward(f) { "fwd" } else { "back" }, exits.join(" ")),
                ));
                t.count("verify:functions");
                let calls = f.instrs.iter().filter(|i| matches!(i, Instruction::Call(_) | Instruction::TailCall(_))).count();
                let branches = f.instrs.iter().filter(|i| matches!(i, Instruction::CJump(_))).count();
                if calls >= 1 && branches >= 1 {
                    use std::hash::{Hash, Hasher};
                    let mut h = std::collections::hash_map::DefaultHasher::new();
                    fn_sexp(f).hash(&mut h);
                    t.classes.push(format!("verify:{:016x}", h.finish()));
                }
            }
        }
    }
}

fn task_verify_surf(seed: u64, n: u64, t: &mut TaskOut) {
    let vm = new_vm();
    let mut rng = gv::rng::Rng::new(seed, 0xC07B);
    for i in 0..n {
        let mut g = gv::surf::Gen::new(&mut rng);
        let (e, _) = g.program(2 + (i % 4) as u32);
        let src = gv::surf::program_text(&e);
        for c in gv::surf::constructs(&e) {
            t.count(&format!("construct:{}", c));
        }
        match compile(&vm, &format!("s{}", i), &src) {
            Err(e) => t.count(&format!("verify:compile-error:{}", gv::surf::classify_error(&e).chars().take(40).collect::<String>())),
            Ok(c) => verify_fns(&c.fns, "generated program", &json!({"task": "verify", "source": src}), t),
        }
    }
}

// --------------------------------------------------------------------------------- stack task

fn stack_run(name: &str, src: &str, limit: u32, hook: bool) -> Result<Obs, String> {
    run_fresh(name, src, &Limits { stack: Some(limit), mem: None, hook })
}

/// Smallest stack limit under which the program completes (None: does not complete below `cap`).
fn threshold(name: &str, src: &str, cap: u32) -> Result<Option<u32>, String> {
    let ok = |l: u32| -> Result<bool, String> {
        match stack_run(name, src, l, false)?.outcome {
            Outcome::Ok(_) => Ok(true),
            Outcome::Stack(_) => Ok(false),
            o => Err(format!("unexpected outcome {:?} under stack limit {}", o, l)),
        }
    };
    let mut hi = 16u32;
    while !ok(hi)? {
        if hi >= cap {
            return Ok(None);
        }
        hi = (hi * 2).min(cap);
    }
    let mut lo = 0u32; // fails (the host's push + frame need at least 1)
    while hi - lo > 1 {
        let mid = lo + (hi - lo) / 2;
        if ok(mid)? {
            hi = mid
        } else {
            lo = mid
        }
    }
    Ok(Some(hi))
}

fn task_stack(family: &str, n: u64, known_threshold: Option<u32>, seed: u64, t: &mut TaskOut) {
    let src = families::source(family, n);
    let name = "fam";
    let fp_family = family.split(':').next().unwrap().to_string();
    let replay = json!({"task": "stack", "family": family, "n": n, "source": src});
    let fam_tail = families::is_tail(family);
    // unlimited run: the value and the dump
    let base = match run_fresh(name, &src, &Limits { hook: true, ..Default::default() }) {
        Ok(o) => o,
        Err(e) => {
            t.fail(&format!("family-does-not-compile:{}", fp_family), &e, replay);
            return;
        }
    };
    let expected = match (families::expected_value(family, n), &base.outcome) {
        (Some(v), _) => v,
        (None, Outcome::Ok(v)) => v.clone(),
        (None, o) => {
            t.fail(&format!("family-fails:{}:{}", fp_family, o.class()), &format!("{:?}", o), replay.clone());
            return;
        }
    };
    if base.outcome != Outcome::Ok(expected.clone()) {
        t.fail(&format!("wrong-result:{}", fp_family), &format!("expected {} got {:?}", expected, base.outcome), replay.clone());
        return;
    }
    verify_fns(&base.fns, family, &replay, t);
    let thr = match known_threshold {
        Some(x) => Some(x),
        None => match threshold(name, &src, 1 << 27) {
            Ok(x) => x,
            Err(e) => {
                t.fail(&format!("limit-outcome:{}", fp_family), &e, replay.clone());
                return;
            }
        },
    };
    let thr = match thr {
        Some(x) => x,
        None => {
            t.count("stack:no-threshold");
            return;
        }
    };
    let scripted = gv::catch(|| families::script(family, n, &base.fns)).unwrap_or_else(|p| Err(families::SimError(p)));
    let (tbl, evs) = match scripted {
        Ok(x) => x,
        Err(e) => {
            t.count(&format!("stack:script-unavailable:{}", fp_family));
            t.samples.push(json!({"script-unavailable": family, "why": e.0}));
            t.obs = json!({"family": family, "n": n, "threshold": thr, "peak_frames": base.peak_frames});
            return;
        }
    };
    let mut rng = gv::rng::Rng::new(seed ^ n, 0xC07C);
    let mut limits = vec![thr, thr.saturating_sub(1), thr + 1, 1, 2];
    if known_threshold.is_none() {
        for _ in 0..3 {
            limits.push(1 + rng.below(thr as u64 + 8) as u32);
        }
    }
    limits.sort();
    limits.dedup();
    let mut peak_at_thr = 0;
    for l in limits {
        let o = match stack_run(name, &src, l, true) {
            Ok(o) => o,
            Err(e) => {
                t.fail(&format!("limit-outcome:{}", fp_family), &e, replay.clone());
                continue;
            }
        };
        let payload = match &o.outcome {
            Outcome::Ok(v) => {
                if *v != expected {
                    t.fail(&format!("wrong-result-under-limit:{}", fp_family), &format!("stack limit {}: {}", l, v), replay.clone());
                }
                if l == thr {
                    peak_at_thr = o.peak_frames;
                }
                format!("(ok {} {} {})", o.values_after, o.frames_after, o.peak_frames)
            }
            Outcome::Stack(reported) => {
                if *reported != l {
                    t.fail("stack-overflow-reports-wrong-limit", &format!("limit {} reported as {}", l, reported), replay.clone());
                }
                "overflow".to_string()
            }
            other => {
                // the property: completes or fails with the corresponding error
                t.fail(&format!("limit-outcome:{}:{}", fp_family, other.class()), &format!("stack limit {} on {}: {:?}", l, family, other), replay.clone());
                format!("(unexpected {})", gv::quote(&other.class()))
            }
        };
        t.cases.push((format!("stack {} ({}) ({})", l, tbl, evs), payload));
        t.count(&format!("stack:{}:{}", fp_family, if o.outcome.class() == "ok" { "ok" } else { "overflow" }));
        t.classes.push(format!("stack:{}:n={}:{}", family, n, if l >= thr { "ok" } else { "overflow" }));
    }
    if fam_tail && base.peak_frames != peak_at_thr && peak_at_thr != 0 {
        t.fail(&format!("peak-frames-depend-on-limit:{}", fp_family), "frame count differs with and without a limit", replay.clone());
    }
    t.obs = json!({"family": family, "n": n, "threshold": thr, "peak_frames": base.peak_frames});
}

// ----------------------------------------------------------------------------------- mem task

fn mem_check(o: &Obs, limit: Option<usize>, what: &str, replay: &Value, t: &mut TaskOut) {
    if o.heap_sum != o.after {
        t.fail(
            "mem:accounting-drift",
            &format!("{}: allocated_memory() = {} but the thread heap holds {} bytes", what, o.after, o.heap_sum),
            replay.clone(),
        );
    }
    if let Some(l) = limit {
        // memory that was allocated before the limit was configured is not the program's
        if o.after > l.max(o.before) {
            let kind = match &o.outcome {
                Outcome::Ok(_) => "ok".to_string(),
                x => x.class().split(':').take(2).collect::<Vec<_>>().join(":"),
            };
            t.fail(
                &format!("mem:over-limit:{}", kind),
                &format!("{}: allocated_memory() = {} after the run exceeds the limit {} (before the run: {})", what, o.after, l, o.before),
                replay.clone(),
            );
        }
    }
}

fn task_mem(name: &str, src: &str, t: &mut TaskOut) {
    let kind = name.split('#').next().unwrap();
    let replay = json!({"task": "mem", "name": name, "source": src});
    let base = match run_fresh("mem", src, &Limits::default()) {
        Ok(o) => o,
        Err(e) => {
            t.fail(&format!("family-does-not-compile:{}", kind), &e, replay);
            return;
        }
    };
    mem_check(&base, None, "no limit", &replay, t);
    verify_fns(&base.fns, kind, &replay, t);
    let base_class = base.outcome.class();
    if base_class != "ok" {
        t.count(&format!("mem:base-outcome:{}", base_class));
    }
    // ladder: every new maximum of `needed`
    let mut records: Vec<usize> = vec![];
    let mut l = 1usize;
    let mut complete = false;
    for _ in 0..500 {
        let replay_l = json!({"task": "mem", "name": name, "source": src, "limit": l});
        let o = match run_fresh("mem", src, &Limits { mem: Some(l), ..Default::default() }) {
            Ok(o) => o,
            Err(e) => {
                t.fail(&format!("family-does-not-compile:{}", kind), &e, replay_l);
                return;
            }
        };
        mem_check(&o, Some(l), &format!("limit {}", l), &replay_l, t);
        match &o.outcome {
            Outcome::Oom { limit, needed } => {
                if *limit != l || *needed < l {
                    t.fail("mem:oom-report", &format!("limit {}: OutOfMemory {{ limit: {}, needed: {} }}", l, limit, needed), replay_l);
                    return;
                }
                records.push(*needed);
                l = *needed + 1;
            }
            other => {
                if other.class() != base_class {
                    t.fail(
                        &format!("mem:limit-outcome:{}", other.class().split(':').take(2).collect::<Vec<_>>().join(":")),
                        &format!("memory limit {}: {:?} (without a limit: {})", l, other, base_class),
                        replay_l,
                    );
                } else {
                    complete = true;
                }
                break;
            }
        }
    }
    t.count(&format!("mem:{}:{}", kind, if complete { "ladder-complete" } else { "ladder-truncated" }));
    t.count("mem:ladder-steps");
    *t.counts.entry("mem:records".into()).or_default() += records.len() as u64;
    if !complete || base_class != "ok" {
        return;
    }
    let recs: Vec<String> = records.iter().map(|r| r.to_string()).collect();
    let recs = recs.join(" ");
    // outcome at limits around every record
    let mut lims: Vec<usize> = vec![];
    let step = (records.len() / 12).max(1);
    for (i, r) in records.iter().enumerate() {
        if i % step == 0 || i + 1 == records.len() {
            lims.extend_from_slice(&[*r, r + 1, r.saturating_sub(1)]);
        }
    }
    lims.sort();
    lims.dedup();
    for l in lims {
        if l == 0 {
            continue;
        }
        let replay_l = json!({"task": "mem", "name": name, "source": src, "limit": l});
        let o = match run_fresh("mem", src, &Limits { mem: Some(l), ..Default::default() }) {
            Ok(o) => o,
            Err(_) => continue,
        };
        mem_check(&o, Some(l), &format!("limit {}", l), &replay_l, t);
        let payload = match &o.outcome {
            Outcome::Ok(_) => "ok".to_string(),
            Outcome::Oom { limit, needed } => format!("(oom {} {})", limit, needed),
            other => format!("(unexpected {})", gv::quote(&other.class())),
        };
        t.cases.push((format!("firstoom {} ({})", l, recs), payload));
        t.classes.push(format!("mem:{}:records={}:{}", kind, records.len(), o.outcome.class()));
    }
}

fn task_mem_surf(seed: u64, n: u64, t: &mut TaskOut) {
    let mut rng = gv::rng::Rng::new(seed, 0xC07D);
    for i in 0..n {
        let mut g = gv::surf::Gen::new(&mut rng);
        let (e, _) = g.program(2 + (i % 4) as u32);
        let src = gv::surf::program_text(&e);
        let base = match run_fresh("ms", &src, &Limits::default()) {
            Ok(o) => o,
            Err(_) => {
                t.count("mem-surf:compile-error");
                continue;
            }
        };
        let replay = json!({"task": "mem-surf", "source": src});
        mem_check(&base, None, "no limit", &replay, t);
        let base_class = base.outcome.class();
        if base_class.starts_with("panic") {
            // D16 and friends belong to C01/C06; not a limit question
            t.count("mem-surf:base-panics");
            continue;
        }
        t.count(&format!("mem-surf:base:{}", base_class.split(' ').next().unwrap()));
        let used = base.after.saturating_sub(base.before);
        for _ in 0..3 {
            let l = base.before + rng.below(2 * used as u64 + 200) as usize;
            let replay_l = json!({"task": "mem-surf", "source": src, "limit": l});
            let o = match run_fresh("ms", &src, &Limits { mem: Some(l), ..Default::default() }) {
                Ok(o) => o,
                Err(_) => continue,
            };
            mem_check(&o, Some(l), &format!("limit {}", l), &replay_l, t);
            let c = o.outcome.class();
            t.count(&format!("mem-surf:limited:{}", if c == "err:oom" { "oom" } else if c == base_class { "same" } else { "other" }));
            if c != "err:oom" && c != base_class {
                t.fail(
                    &format!("mem:limit-outcome:{}", c.split(':').take(2).collect::<Vec<_>>().join(":")),
                    &format!("memory limit {}: {} (without a limit: {})", l, c, base_class),
                    replay_l,
                );
            }
            for k in gv::surf::constructs(&e) {
                if c == "err:oom" {
                    t.classes.push(format!("mem-surf:oom-in:{}", k));
                }
            }
        }
    }
}

// ---------------------------------------------------------------------------- deep / interrupt

fn deep_source(family: &str, n: u64) -> String {
    match family {
        "deep-list-tail" => format!(
            "{}rec let build n acc = if n #Int== 0 then acc else build (n #Int- 1) (Cons n acc)\nrec let len l acc =\n    match l with\n    | Nil -> acc\n    | Cons _ t -> len t (acc #Int+ 1)\nlen (build {} Nil) 0\n", families::L_TYPE, n),
        "deep-list-nontail" => format!(
            "{}rec let build n = if n #Int== 0 then Nil else Cons n (build (n #Int- 1))\nrec let len l acc =\n    match l with\n    | Nil -> acc\n    | Cons _ t -> len t (acc #Int+ 1)\nlen (build {}) 0\n", families::L_TYPE, n),
        "deep-closure-chain" => format!(
            "rec let mk n f = if n #Int== 0 then f else mk (n #Int- 1) (\\x -> f (x #Int+ 1))\nin\nlet g = mk {} (\\x -> x)\ng 0\n", n),
        f => families::source(f, n),
    }
}

fn task_deep(family: &str, n: u64, lim: &Limits, t: &mut TaskOut) {
    let src = deep_source(family, n);
    match run_fresh("deep", &src, lim) {
        Err(e) => t.obs = json!({"class": format!("compile-error {}", e.chars().take(60).collect::<String>())}),
        Ok(o) => {
            let replay = json!({"task": "deep", "family": family, "n": n, "stack": lim.stack, "mem": lim.mem});
            mem_check(&o, lim.mem, "deep", &replay, t);
            t.obs = json!({"class": o.outcome.class(), "after": o.after});
        }
    }
}

fn interrupt_source(family: &str) -> &'static str {
    match family {
        "loop-tail" => "rec let loop n = loop n\nloop 0\n",
        "loop-mutual" => "rec\nlet a n = b n\nlet b n = a n\nin\na 0\n",
        "loop-closure" => "rec let go k n = k n\nrec let self n = go self n\nself 0\n",
        "loop-extern" => "let s = import! std.string.prim\nrec let loop n = if s.len \"abc\" #Int== 3 then loop n else 0\nloop 0\n",
        "loop-alloc" => "type L = | Nil | Cons Int L\nrec let loop n = let t = Cons n Nil in loop n\nloop 0\n",
        _ => panic!("unknown interrupt family"),
    }
}

fn task_interrupt(family: &str, delay_ms: u64, t: &mut TaskOut) {
    let src = interrupt_source(family);
    let vm = new_vm();
    let c = match compile(&vm, "intr", src) {
        Ok(c) => c,
        Err(e) => {
            t.obs = json!({"class": format!("compile-error {}", e)});
            return;
        }
    };
    let vm2 = vm.clone();
    let requested = Arc::new(std::sync::Mutex::new(None));
    let r2 = requested.clone();
    let h = std::thread::spawn(move || {
        std::thread::sleep(Duration::from_millis(delay_ms));
        *r2.lock().unwrap() = Some(Instant::now());
        vm2.interrupt();
    });
    let o = run(&vm, "intr", c);
    let done = Instant::now();
    h.join().unwrap();
    let lat = requested.lock().unwrap().map(|t0| done.saturating_duration_since(t0).as_millis() as u64);
    t.obs = json!({"class": o.class(), "latency_ms": lat});
}

// ------------------------------------------------------------------------------------- child

fn child() {
    gv::child::serve(|input| {
        let v: Value = serde_json::from_str(input).unwrap();
        let mut t = TaskOut::default();
        match v["t"].as_str().unwrap() {
            "gc" => task_gc(v["seed"].as_u64().unwrap(), v["n"].as_u64().unwrap(), &mut t),
            "verify-surf" => task_verify_surf(v["seed"].as_u64().unwrap(), v["n"].as_u64().unwrap(), &mut t),
            "stack" => task_stack(
                v["family"].as_str().unwrap(),
                v["n"].as_u64().unwrap(),
                v["threshold"].as_u64().map(|x| x as u32),
                v["seed"].as_u64().unwrap_or(1),
                &mut t,
            ),
            "mem" => task_mem(v["name"].as_str().unwrap(), v["source"].as_str().unwrap(), &mut t),
            "mem-surf" => task_mem_surf(v["seed"].as_u64().unwrap(), v["n"].as_u64().unwrap(), &mut t),
            "deep" => task_deep(
                v["family"].as_str().unwrap(),
                v["n"].as_u64().unwrap(),
                &Limits { stack: v["stack"].as_u64().map(|x| x as u32), mem: v["mem"].as_u64().map(|x| x as usize), hook: false },
                &mut t,
            ),
            "interrupt" => task_interrupt(v["family"].as_str().unwrap(), v["delay_ms"].as_u64().unwrap_or(30), &mut t),
            other => panic!("unknown task {}", other),
        }
        t.to_json()
    });
}

fn probe(args: &[String]) {
    let src = std::fs::read_to_string(&args[0]).unwrap();
    let lim = Limits {
        stack: args.get(1).and_then(|s| s.parse::<u32>().ok()),
        mem: args.get(2).and_then(|s| s.parse::<usize>().ok()),
        hook: true,
    };
    match run_fresh("probe", &src, &lim) {
        Err(e) => println!("compile error: {}", e),
        Ok(o) => {
            for f in &o.fns {
                println!("{:?} {} args={} max={} splits={:?}", f.path, f.name, f.args, f.max_stack_size, f.splits);
                let h = heights(f);
                for (pc, i) in f.instrs.iter().enumerate() {
                    let hh = match &h {
                        Heights::Ok(v, _) => format!("{:?}", v[pc]),
                        _ => "?".into(),
                    };
                    println!("   {:3} h={:8} {:?}", pc, hh, i);
                }
                match &h {
                    Heights::Ok(_, peak) => println!("   peak={} max={}", peak, f.max_stack_size),
                    x => println!("   {:?}", x),
                }
            }
            println!(
                "outcome {:?}; allocated {} -> {} heap_sum {} peak_frames {} values_after {} frames_after {}",
                o.outcome, o.before, o.after, o.heap_sum, o.peak_frames, o.values_after, o.frames_after
            );
        }
    }
}

/// Merge a task result into the output files. Returns the observation.
fn merge(out: &mut Out, res: &Result<String, String>, task: &Value, known_crash: Option<(&str, &str)>) -> Option<Value> {
    match res {
        Ok(s) => {
            let v: Value = serde_json::from_str(s).unwrap();
            for c in v["cases"].as_array().unwrap() {
                out.case(c[0].as_str().unwrap(), c[1].as_str().unwrap());
            }
            for o in v["oracle"].as_array().unwrap() {
                out.oracle_fail(o["fingerprint"].as_str().unwrap(), o["what"].as_str().unwrap(), o["replay"].clone());
            }
            for (k, n) in v["counts"].as_object().unwrap() {
                out.add(k, n.as_u64().unwrap());
            }
            for c in v["classes"].as_array().unwrap() {
                out.class(c.as_str().unwrap().to_string());
            }
            for s in v["samples"].as_array().unwrap() {
                out.sample(s.clone());
            }
            Some(v["obs"].clone())
        }
        Err(class) => {
            // the implementation took the process down (or hung) on this task
            let kind = task["t"].as_str().unwrap_or("?");
            let fam = task["family"].as_str().or(task["name"].as_str()).unwrap_or("-");
            let fam = fam.split('#').next().unwrap();
            let (fp, what) = match known_crash {
                Some((fp, what)) => (fp.to_string(), what.to_string()),
                None => (
                    format!("crash:{}:{}:{}", kind, fam, class),
                    format!("the implementation ended the process ({}) while running task {}", class, task),
                ),
            };
            out.oracle_fail(&fp, &what, task.clone());
            out.count(&format!("crash:{}:{}", kind, class));
            None
        }
    }
}

fn run_tasks(out: &mut Out, tasks: &[Value], chunk: usize, timeout: Duration) -> Vec<Option<Value>> {
    let inputs: Vec<String> = tasks.iter().map(|t| t.to_string()).collect();
    let results = gv::child::batch(&["--child"], &inputs, chunk, timeout);
    tasks.iter().zip(results.iter()).map(|(t, r)| merge(out, r, t, None)).collect()
}

/// One deep-recursion / deep-data task in its own child process; the stderr of a dead child tells a
/// native stack overflow from other crashes.
fn run_deep(out: &mut Out, task: &Value, allowed: &[&str]) {
        let exit = gv::child::run(&["--child"], format!("{}\n", serde_json::to_string(&task.to_string()).unwrap()).as_bytes(), Duration::from_secs(600));
        let fam = task["family"].as_str().unwrap();
        let (class, stderr, stdout) = match &exit {
            gv::child::Exit::Ok(o) => ("exit:0".to_string(), String::new(), o.clone()),
            gv::child::Exit::Code(c, o, e) => (format!("exit:{}", c), e.clone(), o.clone()),
            gv::child::Exit::Signal(s, o, e) => (format!("signal:{}", s), e.clone(), o.clone()),
            gv::child::Exit::Timeout(o) => ("timeout".to_string(), String::new(), o.clone()),
        };
        let answer = stdout.lines().find_map(|l| l.strip_prefix("R ")).and_then(|r| serde_json::from_str::<String>(r).ok());
        match answer {
            Some(a) => {
                let obs = merge(out, &Ok(a), task, None).unwrap_or(Value::Null);
                let c = obs["class"].as_str().unwrap_or("?").to_string();
                out.count(&format!("deep:{}:{}", fam, c));
                out.class(format!("deep:{}:{}:{}", fam, task["stack"], c));
                if !allowed.contains(&c.as_str()) {
                    out.oracle_fail(
                        &format!("limit-outcome:{}:{}", fam, c.split(':').take(2).collect::<Vec<_>>().join(":")),
                        &format!("{} ended with {} (allowed: {:?})", task, c, allowed),
                        task.clone(),
                    );
                }
            }
            None => {
                let native = stderr.contains("overflowed its stack");
                let fp = if native { format!("native-stack-exhausted:{}", fam) } else { format!("crash:deep:{}:{}", fam, class) };
                out.count(&format!("deep:{}:{}", fam, if native { "native-stack-overflow" } else { "crash" }));
                out.oracle_fail(
                    &fp,
                    &format!("{}: the process died ({}){}", task, class, if native { ": the host's native stack overflowed" } else { "" }),
                    task.clone(),
                );
            }
        }
}

fn main() {
    gv::quiet_panics();
    let raw: Vec<String> = std::env::args().skip(1).collect();
    if raw.first().map(|s| s.as_str()) == Some("--child") {
        child();
        return;
    }
    if raw.first().map(|s| s.as_str()) == Some("--probe") {
        probe(&raw[1..]);
        return;
    }
    if raw.first().map(|s| s.as_str()) == Some("--probe-random") {
        let k: u64 = raw[1].parse().unwrap();
        let mut bad = 0;
        let mut used_all: std::collections::BTreeMap<&str, u64> = Default::default();
        for seed in 0..k {
            let (src, used) = families::random_source(seed, 30);
            for u in used {
                *used_all.entry(u).or_default() += 1;
            }
            match run_fresh("r", &src, &Limits::default()) {
                Ok(o) if matches!(o.outcome, Outcome::Ok(_)) => (),
                Ok(o) => {
                    bad += 1;
                    println!("seed {} outcome {:?}\n{}", seed, o.outcome, src);
                }
                Err(e) => {
                    bad += 1;
                    println!("seed {} compile error {}\n{}", seed, e, src);
                }
            }
        }
        println!("{} bad of {}; contexts {:?}", bad, k, used_all);
        return;
    }
    if raw.first().map(|s| s.as_str()) == Some("--probe-family") {
        let n: u64 = raw[2].parse().unwrap();
        let src = families::source(&raw[1], n);
        println!("{}", src);
        let o = run_fresh("fam", &src, &Limits { hook: true, ..Default::default() }).unwrap();
        println!("{:?} peak_frames {}", o.outcome, o.peak_frames);
        match families::script(&raw[1], n, &o.fns) {
            Ok((tbl, evs)) => println!("(1 stack 100000 ({}) ({}))", tbl, evs),
            Err(e) => println!("script error {:?}", e),
        }
        println!("threshold {:?}", threshold("fam", &src, 1 << 27));
        return;
    }
    let args = Args::parse();
    let mut out = Out::new(&args.out);
    let thorough = args.thorough();
    let seed = args.seed;

    if let Some(rp) = &args.replay {
        let v: Value = serde_json::from_str(&std::fs::read_to_string(rp).unwrap()).unwrap();
        let mut task = v["case"].clone();
        if task["t"].is_null() {
            task["t"] = task["task"].clone();
        }
        let kind = task["t"].as_str().unwrap_or("").to_string();
        match kind.as_str() {
            "gc" => {
                let n = task["seq"].as_u64().map(|x| x + 1).unwrap_or(100);
                task["n"] = json!(n);
            }
            "verify" | "mem-surf" => {
                // a single program: compile + verify + limit ladder
                let src = task["source"].as_str().unwrap().to_string();
                println!("{}", src);
                task = json!({"t": "mem", "name": "replay#0", "source": src});
            }
            "deep" => {
                println!("task {}", task);
                run_deep(&mut out, &task, &["ok", "err:stack", "err:oom"]);
                out.finish();
                println!("see oracle.jsonl in the output directory");
                return;
            }
            _ => (),
        }
        println!("task {}", task);
        let r = gv::child::batch(&["--child"], &[task.to_string()], 1, Duration::from_secs(1200));
        match &r[0] {
            Ok(s) => {
                let v: Value = serde_json::from_str(s).unwrap();
                println!("observation: {}", v["obs"]);
                for o in v["oracle"].as_array().unwrap() {
                    println!("ORACLE FAILURE {}: {}", o["fingerprint"], o["what"]);
                }
                println!("{} correspondence cases", v["cases"].as_array().unwrap().len());
            }
            Err(c) => println!("the child process ended: {}", c),
        }
        merge(&mut out, &r[0], &task, None);
        out.finish();
        return;
    }

    // ---- gc
    let n_gc = if thorough { 100 } else { 16 };
    let tasks: Vec<Value> = (0..n_gc).map(|i| json!({"t": "gc", "seed": seed.wrapping_mul(1000) + i, "n": 100})).collect();
    run_tasks(&mut out, &tasks, 8, Duration::from_secs(600));

    // ---- verify on generated programs
    let n_v = if thorough { 60 } else { 8 };
    let tasks: Vec<Value> = (0..n_v).map(|i| json!({"t": "verify-surf", "seed": seed.wrapping_mul(1000) + i, "n": 150})).collect();
    run_tasks(&mut out, &tasks, 4, Duration::from_secs(900));

    // ---- stack families: thresholds at small sizes (bisected), then constancy for tail families
    let small: &[u64] = if thorough { &[0, 1, 2, 3, 4, 5, 8, 13, 40, 100, 333, 1000, 3000] } else { &[0, 1, 2, 3, 7, 40, 200, 1000] };
    let fams = families::stack_families(seed, if thorough { 60 } else { 12 });
    let light: &[u64] = &[2, 40, 1000];
    let mut tasks = vec![];
    for f in &fams {
        for &n in if f.light { light } else { small } {
            tasks.push(json!({"t": "stack", "family": f.name, "n": n, "seed": seed}));
        }
    }
    let obs = run_tasks(&mut out, &tasks, 6, Duration::from_secs(900));
    let mut thr: std::collections::BTreeMap<String, Vec<(u64, u64, u64)>> = Default::default();
    for o in obs.iter().flatten() {
        if let (Some(f), Some(n), Some(t), Some(p)) = (o["family"].as_str(), o["n"].as_u64(), o["threshold"].as_u64(), o["peak_frames"].as_u64()) {
            thr.entry(f.to_string()).or_default().push((n, t, p));
        }
    }
    // big sizes: tail families at the threshold found for the small ones
    let big: &[u64] = if thorough { &[10_000, 100_000, 1_000_000] } else { &[10_000, 100_000] };
    let mut tasks = vec![];
    for f in fams.iter().filter(|f| f.tail) {
        if let Some(v) = thr.get(&f.name) {
            let t_max = v.iter().filter(|x| x.0 >= 2).map(|x| x.1).max().unwrap_or(0);
            for &n in big {
                tasks.push(json!({"t": "stack", "family": f.name, "n": n, "threshold": t_max, "seed": seed}));
            }
            if f.name == "tail-direct" && !thorough {
                tasks.push(json!({"t": "stack", "family": f.name, "n": 1_000_000, "threshold": t_max, "seed": seed}));
            }
        }
    }
    let obs2 = run_tasks(&mut out, &tasks, 1, Duration::from_secs(1800));
    for o in obs2.iter().flatten() {
        if let (Some(f), Some(n), Some(t), Some(p)) = (o["family"].as_str(), o["n"].as_u64(), o["threshold"].as_u64(), o["peak_frames"].as_u64()) {
            thr.entry(f.to_string()).or_default().push((n, t, p));
        }
    }
    // the oracle for "tail calls run in constant stack" / "non-tail recursion is bounded by the limit"
    for f in &fams {
        let v = match thr.get(&f.name) {
            Some(v) => v,
            None => continue,
        };
        let steady: Vec<&(u64, u64, u64)> = v.iter().filter(|x| x.0 >= 2).collect();
        if f.tail {
            let t0 = steady.iter().map(|x| x.1).min().unwrap_or(0);
            let t1 = steady.iter().map(|x| x.1).max().unwrap_or(0);
            let p0 = steady.iter().map(|x| x.2).min().unwrap_or(0);
            let p1 = steady.iter().map(|x| x.2).max().unwrap_or(0);
            if t0 != t1 || p0 != p1 {
                out.oracle_fail(
                    &format!("tail-call-grows:{}", f.name.split(':').next().unwrap()),
                    &format!("stack need of the tail-recursive family {} depends on the iteration count: (n, threshold, peak frames) = {:?}", f.name, v),
                    json!({"task": "stack", "family": f.name, "n": steady.last().map(|x| x.0)}),
                );
            }
            out.count(&format!("tail-constant:{}", f.name.split(':').next().unwrap()));
            out.sample(json!({"family": f.name, "n_threshold_peakframes": v}));
        } else {
            // deeper recursion must need more stack
            let mut w: Vec<(u64, u64, u64)> = v.clone();
            w.sort();
            for p in w.windows(2) {
                if p[1].1 <= p[0].1 && p[1].0 > p[0].0 {
                    out.oracle_fail(
                        &format!("nontail-not-growing:{}", f.name.split(':').next().unwrap()),
                        &format!("deeper recursion does not need more stack: {:?}", w),
                        json!({"task": "stack", "family": f.name, "n": p[1].0}),
                    );
                }
            }
            out.sample(json!({"family": f.name, "n_threshold_peakframes": w}));
        }
    }

    // ---- memory
    let mut rng = gv::rng::Rng::new(seed, 0xC07E);
    let n_mem = if thorough { 300 } else { 45 };
    let mut tasks: Vec<Value> = vec![];
    // corpus first: minimised past failures (corpus/C07/*.json with a `mem` case)
    if let Ok(rd) = std::fs::read_dir("/verif/corpus/C07") {
        let mut files: Vec<_> = rd.flatten().map(|e| e.path()).collect();
        files.sort();
        for f in files {
            if let Ok(v) = serde_json::from_str::<Value>(&std::fs::read_to_string(&f).unwrap_or_default()) {
                let c = &v["case"];
                if c["task"] == "mem" || c["t"] == "mem" {
                    tasks.push(json!({"t": "mem", "name": c["name"], "source": c["source"]}));
                    out.count("corpus:mem");
                }
            }
        }
    }
    tasks.extend(
        families::mem_programs(&mut rng, n_mem)
            .into_iter()
            .map(|(name, src)| json!({"t": "mem", "name": name, "source": src})),
    );
    run_tasks(&mut out, &tasks, 3, Duration::from_secs(900));
    let n_ms = if thorough { 40 } else { 5 };
    let tasks: Vec<Value> = (0..n_ms).map(|i| json!({"t": "mem-surf", "seed": seed.wrapping_mul(1000) + i, "n": 60})).collect();
    run_tasks(&mut out, &tasks, 2, Duration::from_secs(900));

    // ---- deep recursion / deep data: one child each
    let mut deep: Vec<(Value, Vec<&str>)> = vec![
        (json!({"t": "deep", "family": "nontail-direct", "n": 1_000_000u64, "stack": 100_000}), vec!["err:stack"]),
        (json!({"t": "deep", "family": "nontail-closure", "n": 300_000u64, "stack": 50_000}), vec!["err:stack"]),
        (json!({"t": "deep", "family": "nontail-direct", "n": 1_000_000u64, "mem": 4_000_000_000u64}), vec!["ok", "err:oom", "err:stack"]),
        (json!({"t": "deep", "family": "deep-list-nontail", "n": 200_000u64, "stack": 10_000, "mem": 1_000_000_000u64}), vec!["err:stack"]),
        (json!({"t": "deep", "family": "deep-list-tail", "n": 1_000_000u64, "mem": 1_000_000u64}), vec!["err:oom"]),
        (json!({"t": "deep", "family": "deep-list-tail", "n": 1_000_000u64, "mem": 2_000_000_000u64}), vec!["ok", "err:oom"]),
    ];
    deep.push((json!({"t": "deep", "family": "deep-closure-chain", "n": 1_000_000u64, "mem": 2_000_000_000u64}), vec!["ok", "err:oom"]));
    if thorough {
        deep.push((json!({"t": "deep", "family": "nontail-mutual", "n": 1_000_000u64, "stack": 1_000_000}), vec!["err:stack"]));
    }
    for (task, allowed) in &deep {
        run_deep(&mut out, task, allowed);
    }

    // ---- interrupt
    for fam in ["loop-tail", "loop-mutual", "loop-closure", "loop-extern", "loop-alloc"] {
        for delay in if thorough { vec![0u64, 5, 30, 200] } else { vec![0u64, 30] } {
            let task = json!({"t": "interrupt", "family": fam, "delay_ms": delay});
            let r = gv::child::batch(&["--child"], &[task.to_string()], 1, Duration::from_secs(60));
            match &r[0] {
                Ok(_) => {
                    let obs = merge(&mut out, &r[0], &task, None).unwrap_or(Value::Null);
                    let class = obs["class"].as_str().unwrap_or("?");
                    let lat = obs["latency_ms"].as_u64().unwrap_or(0);
                    out.count(&format!("interrupt:{}:{}", fam, class));
                    out.class(format!("interrupt:{}:{}", fam, class));
                    if class != "err:interrupted" {
                        out.oracle_fail(&format!("interrupt-wrong-outcome:{}", fam), &format!("endless loop {} ended with {}", fam, class), task.clone());
                    } else if lat > 5000 {
                        out.oracle_fail(&format!("interrupt-slow:{}", fam), &format!("{} ms between the request and Interrupted", lat), task.clone());
                    }
                }
                Err(class) => {
                    out.oracle_fail(
                        &format!("interrupt-ignored:{}:{}", fam, class),
                        &format!("an interrupt request did not stop the endless loop {} ({})", fam, class),
                        task.clone(),
                    );
                }
            }
        }
    }
    // the model's `execute` loop on a few (request poll, segments) pairs — no implementation side,
    // the payload is the specification of promptness itself
    for (k, segs) in [(0u64, 5u64), (3, 10), (10, 10), (11, 10), (1, 1)] {
        let ran = k.min(segs);
        let end = if k < segs { "interrupted" } else { "finished" };
        out.case(&format!("intr {} {}", k, segs), &format!("({} {})", ran, end));
    }
    out.finish();
}
