//! C07 — resource limits are enforced and tail calls run in constant stack.
#[path = "c07/bytecode.rs"]
mod bytecode;

use bytecode::{compile, fn_sexp, heights, Compiled, Heights};
use gluon::compiler_pipeline::Executable;
use gluon::vm::thread::ThreadInternal;
use gluon::vm::Error as VmError;
use gluon::{RootedThread, Thread, ThreadExt};
use gv::{Args, Out};
use std::time::Duration;

#[derive(Debug, Clone, PartialEq)]
pub enum Outcome {
    Ok(String),
    Stack(u32),
    Oom { limit: usize, needed: usize },
    Interrupted,
    Other(String),
    Panic(String),
}

impl Outcome {
    fn class(&self) -> String {
        match self {
            Outcome::Ok(_) => "ok".into(),
            Outcome::Stack(_) => "err:stack".into(),
            Outcome::Oom { .. } => "err:oom".into(),
            Outcome::Interrupted => "err:interrupted".into(),
            Outcome::Other(m) => format!("err:other:{}", gv::surf::classify_error(m)),
            Outcome::Panic(m) => format!("panic:{}", m.chars().take(60).collect::<String>()),
        }
    }
}

fn new_vm() -> RootedThread {
    let vm = gv::vm::new_vm();
    gv::vm::settings(&vm, false, false);
    vm
}

/// Run the compiled module (exactly the bytecode that was dumped).
fn run(vm: &Thread, name: &str, c: Compiled) -> Outcome {
    let r = gv::catch(|| {
        futures::executor::block_on(c.value.run_expr(
            &mut vm.module_compiler(&mut vm.get_database()),
            vm.root_thread(),
            name,
            "",
            (),
        ))
    });
    match r {
        Err(p) => Outcome::Panic(p),
        Ok(Ok(v)) => Outcome::Ok(gv::surf::canon_value(v.value.get_variant())),
        Ok(Err(gluon::Error::VM(VmError::StackOverflow(n)))) => Outcome::Stack(n),
        Ok(Err(gluon::Error::VM(VmError::OutOfMemory { limit, needed }))) => Outcome::Oom { limit, needed },
        Ok(Err(gluon::Error::VM(VmError::Interrupted))) => Outcome::Interrupted,
        Ok(Err(e)) => Outcome::Other(e.to_string()),
    }
}

fn probe(args: &[String]) {
    let src = std::fs::read_to_string(&args[0]).unwrap();
    let vm = new_vm();
    if let Some(l) = args.get(1).and_then(|s| s.parse::<u32>().ok()) {
        vm.context().set_max_stack_size(l);
    }
    if let Some(l) = args.get(2).and_then(|s| s.parse::<usize>().ok()) {
        vm.set_memory_limit(l);
    }
    match compile(&vm, "probe", &src) {
        Err(e) => println!("compile error: {}", e),
        Ok(c) => {
            for f in &c.fns {
                println!("{:?} {} args={} max={} splits={:?}", f.path, f.name, f.args, f.max_stack_size, f.splits);
                let h = heights(f);
                for (pc, i) in f.instrs.iter().enumerate() {
                    let hh = match &h {
                        Heights::Ok(v, _) => format!("{:?}", v[pc]),
                        _ => "?".into(),
                    };
                    println!("   {:3} h={:8} {:?}", pc, hh, i);
                }
                match &h {
                    Heights::Ok(_, peak) => println!("   peak={} max={}", peak, f.max_stack_size),
                    x => println!("   {:?}", x),
                }
                println!("   {}", fn_sexp(f));
            }
            let before = vm.allocated_memory();
            let o = run(&vm, "probe", c);
            println!("outcome {:?}; allocated {} -> {}", o, before, vm.allocated_memory());
            let (_, objs) = vm.verif_heap();
            println!("heap objects {} sum {}", objs.len(), objs.iter().map(|o| o.1).sum::<usize>());
        }
    }
}

fn probe_surf(n: usize, seed: u64) {
    let vm = new_vm();
    let mut rng = gv::rng::Rng::new(seed, 77);
    let mut stats: std::collections::BTreeMap<String, usize> = Default::default();
    for i in 0..n {
        let mut g = gv::surf::Gen::new(&mut rng);
        let (e, _) = g.program(2 + (i % 4) as u32);
        let src = gv::surf::program_text(&e);
        match compile(&vm, &format!("s{}", i), &src) {
            Err(e) => {
                *stats.entry(format!("compile-error:{}", gv::surf::classify_error(&e))).or_default() += 1;
            }
            Ok(c) => {
                for f in &c.fns {
                    let k = match heights(f) {
                        Heights::Ok(_, peak) if peak == f.max_stack_size => "exact".to_string(),
                        Heights::Ok(_, peak) if peak < f.max_stack_size => {
                            println!("LOOSE peak {} max {} in {}\n{}", peak, f.max_stack_size, f.name, src);
                            "loose".to_string()
                        }
                        Heights::Ok(_, peak) => {
                            println!("EXCEEDED peak {} max {} in {}\n{}", peak, f.max_stack_size, f.name, src);
                            "exceeded".to_string()
                        }
                        Heights::Unsupported(w) => format!("unsupported:{}", w),
                        Heights::Bad(pc, w) => {
                            println!("BAD pc {} {} in {} {:?}\n{}", pc, w, f.name, f.splits, src);
                            format!("bad:{}", w.split(' ').next().unwrap())
                        }
                    };
                    *stats.entry(k).or_default() += 1;
                }
            }
        }
    }
    println!("{:#?}", stats);
}

fn main() {
    gv::quiet_panics();
    let raw: Vec<String> = std::env::args().skip(1).collect();
    if raw.first().map(|s| s.as_str()) == Some("--probe") {
        probe(&raw[1..]);
        return;
    }
    if raw.first().map(|s| s.as_str()) == Some("--probe-surf") {
        probe_surf(raw[1].parse().unwrap(), raw.get(2).and_then(|s| s.parse().ok()).unwrap_or(1));
        return;
    }
    let args = Args::parse();
    let out = Out::new(&args.out);
    let _ = Duration::from_secs(1);
    out.finish();
}
