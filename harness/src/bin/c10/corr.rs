//! Correspondence: the real `FileMap::comments_between(span)` forward / `.rev()` / mixed on
//! generated strings vs the Lean model `GluonModel.Comments`.
use gluon_base::pos::{BytePos, Span};
use gluon_base::source::{FileMap, Source};
use gv::{quote, Out};

fn whole(fm: &FileMap) -> Span<BytePos> {
    fm.span()
}

fn items(v: &[String]) -> String {
    let mut s = String::from("(items");
    for i in v {
        s.push(' ');
        s.push_str(&quote(i));
    }
    s.push(')');
    s
}

pub fn fwd(src: &str) -> String {
    let fm = FileMap::new("g".into(), src.to_string());
    match gv::catch(|| {
        fm.comments_between(whole(&fm))
            .map(|s| s.to_string())
            .collect::<Vec<_>>()
    }) {
        Ok(v) => items(&v),
        Err(_) => "panic".into(),
    }
}

pub fn rev(src: &str) -> String {
    let fm = FileMap::new("g".into(), src.to_string());
    match gv::catch(|| {
        fm.comments_between(whole(&fm))
            .rev()
            .map(|s| s.to_string())
            .collect::<Vec<_>>()
    }) {
        Ok(v) => items(&v),
        Err(_) => "panic".into(),
    }
}

pub fn mix(src: &str, pat: &str) -> String {
    let fm = FileMap::new("g".into(), src.to_string());
    let mut out = String::from("(calls");
    let mut it = fm.comments_between(whole(&fm));
    for c in pat.chars() {
        let r = gv::catch(std::panic::AssertUnwindSafe(|| {
            if c == 'f' {
                it.next().map(|s| s.to_string())
            } else {
                it.next_back().map(|s| s.to_string())
            }
        }));
        match r {
            Ok(Some(s)) => {
                out.push(' ');
                out.push_str(&quote(&s));
            }
            Ok(None) => out.push_str(" none"),
            Err(_) => {
                out.push_str(" panic");
                break;
            }
        }
    }
    out.push(')');
    out
}

const PIECES: &[&str] = &[
    " ", "  ", "    ", "\t", "\n", "\n", "\r\n", "\r", "// a", "//", "///", "/// d", "//// x", "// b  ",
    "//c", "/* b */", "/**/", "/*", "*/", "/*/", "/", "*", "x", "let", "=", "1", "}", ",",
    "\u{a0}", "\u{e9}", "\u{2028}", "\u{3000}", "/* // */", "/* m\n n */", "/** d */", "// \u{e9}",
    "/*\u{3000}*/", "\"s\"", "x // t", "\n\n", "\n    ", "\r\n    ",
];

fn class_of(payload: &str) -> String {
    if payload == "panic" || payload.ends_with("panic)") {
        return "panic".into();
    }
    let n = payload.matches('"').count() / 2;
    format!("n{}", n.min(6))
}

fn shape(src: &str) -> String {
    let mut s = String::new();
    if src.contains("//") {
        s.push('L');
    }
    if src.contains("/*") {
        s.push('B');
    }
    if src.contains("\r\n") {
        s.push('R');
    }
    if src.contains("\n\n") || src.contains("\n\r\n") {
        s.push('K');
    }
    if !src.is_ascii() {
        s.push('U');
    }
    if src.chars().any(|c| c.is_alphanumeric()) {
        s.push('T');
    }
    s
}

fn emit(out: &mut Out, op: &str, src: &str, payload: String, extra: Option<&str>) {
    let req = match extra {
        Some(p) => format!("{} {} {}", op, quote(src), quote(p)),
        None => format!("{} {}", op, quote(src)),
    };
    out.count(&format!("corr:{}:{}", op, class_of(&payload)));
    let sh = shape(src);
    if sh.len() >= 2 {
        out.class(format!("corr:{}:{}:{}", op, sh, class_of(&payload)));
    }
    if out.n_cases % 3001 == 7 {
        out.sample(serde_json::json!({"request": req, "impl": payload}));
    }
    out.case(&req, &payload);
}

pub fn one(out: &mut Out, src: &str) {
    emit(out, "fwd", src, fwd(src), None);
    emit(out, "rev", src, rev(src), None);
}

pub fn run(out: &mut Out, rng: &mut gv::rng::Rng, thorough: bool) {
    // 1. exhaustive over a 7-letter alphabet
    let alpha: Vec<char> = vec![' ', '\n', '\r', '/', '*', 'a', '\u{3000}'];
    let max_len = if thorough { 6 } else { 4 };
    for n in 0..=max_len {
        let mut idx = vec![0usize; n];
        loop {
            let s: String = idx.iter().map(|i| alpha[*i]).collect();
            one(out, &s);
            let mut k = 0;
            while k < n {
                idx[k] += 1;
                if idx[k] < alpha.len() {
                    break;
                }
                idx[k] = 0;
                k += 1;
            }
            if k == n {
                break;
            }
        }
    }
    out.stats
        .insert("corr_exhaustive_up_to_len".into(), (max_len as u64).into());
    // 2. random piece sequences (comments, whitespace, code tokens on either side)
    let n_rand = if thorough { 60000 } else { 4000 };
    for i in 0..n_rand {
        let n = rng.range(0, 9) as usize;
        let mut s = String::new();
        for _ in 0..n {
            s.push_str(*rng.pick(PIECES));
        }
        one(out, &s);
        if i % 2 == 0 {
            let m = rng.range(1, 6) as usize;
            let pat: String = (0..m).map(|_| if rng.chance(1, 2) { 'f' } else { 'b' }).collect();
            let p = mix(&s, &pat);
            emit(out, "mix", &s, p, Some(&pat));
        }
    }
}
