//! Syntax-class families (wave 2): program texts for every production class of
//! parser/src/grammar.lalrpop that the expression generator (gen.rs) never emits — kind
//! annotations on type parameters (exhaustively enumerated), explicit `forall`, implicit
//! arguments / implicit argument types, GADT-style constructors, open variants, attributes and
//! doc comments (on bindings and on fields), type-level records with type fields / row tails /
//! effect rows / `(->)` / projections / holes, `do` / `seq`, record patterns with type fields and
//! implicit imports, tuple and nested constructor patterns, `rec` groups of values and types,
//! shebang lines. Everything is a function of an index (fixed pools), so the set of reportable
//! failure classes is closed.
use gv::rng::Rng;

// ------------------------------------------------------------------------------- kinds

#[derive(Clone, Debug, PartialEq, Eq)]
pub enum Kd {
    T,
    R,
    H,
    Fn(Box<Kd>, Box<Kd>),
}

impl Kd {
    /// protocol form for the Lean driver: `T` | `R` | `H` | `(fn a r)`
    pub fn sexp(&self) -> String {
        match self {
            Kd::T => "T".into(),
            Kd::R => "R".into(),
            Kd::H => "H".into(),
            Kd::Fn(a, r) => format!("(fn {} {})", a.sexp(), r.sexp()),
        }
    }
    /// Minimal spelling per the grammar (AtomicKind "->" Kind): parentheses only around a
    /// function kind on the left of an arrow.
    pub fn text(&self) -> String {
        match self {
            Kd::T => "Type".into(),
            Kd::R => "Row".into(),
            Kd::H => "_".into(),
            Kd::Fn(a, r) => {
                let l = match **a {
                    Kd::Fn(..) => format!("({})", a.text()),
                    _ => a.text(),
                };
                format!("{} -> {}", l, r.text())
            }
        }
    }
    /// A spelling with redundant parentheses (`variant` selects where) — same AST.
    pub fn text_redundant(&self, variant: u64) -> String {
        match self {
            Kd::Fn(a, r) => {
                let l = match **a {
                    Kd::Fn(..) => format!("({})", a.text_redundant(variant / 2)),
                    _ if variant % 2 == 1 => format!("({})", a.text()),
                    _ => a.text(),
                };
                let rr = if variant % 3 == 0 { format!("({})", r.text_redundant(variant / 3)) } else { r.text_redundant(variant / 3) };
                format!("{} -> {}", l, rr)
            }
            _ if variant % 2 == 1 => format!("(({}))", self.text()),
            _ => format!("({})", self.text()),
        }
    }
    pub fn depth(&self) -> u32 {
        match self {
            Kd::Fn(a, r) => 1 + a.depth().max(r.depth()),
            _ => 0,
        }
    }
}

/// All kinds of arrow depth ≤ `d` over {Type, Row, _}: 3, 12, 147, …
pub fn all_kinds(d: u32) -> Vec<Kd> {
    let atoms = vec![Kd::T, Kd::R, Kd::H];
    if d == 0 {
        return atoms;
    }
    let sub = all_kinds(d - 1);
    let mut v = atoms;
    for a in &sub {
        for r in &sub {
            v.push(Kd::Fn(Box::new(a.clone()), Box::new(r.clone())));
        }
    }
    v
}

/// A random kind of depth ≤ 4 (outside the exhaustive range).
pub fn random_kind(rng: &mut Rng, d: u32) -> Kd {
    if d == 0 || rng.chance(1, 4) {
        return [Kd::T, Kd::R, Kd::H, Kd::T][rng.below(4) as usize].clone();
    }
    Kd::Fn(Box::new(random_kind(rng, d - 1)), Box::new(random_kind(rng, d - 1)))
}

pub const KIND_SHAPES: u64 = 9;

/// Program number `shape` around kind `k`. Returns (class name, text, some parameter carries an
/// explicit kind that is exactly `Type`).
pub fn kind_program(k: &Kd, shape: u64) -> (&'static str, String, bool) {
    let kt = k.text();
    let is_t = *k == Kd::T;
    match shape {
        // phantom parameter
        0 => ("phantom", format!("type T (p : {}) = Int\n()\n", kt), is_t),
        // the parameter is used at its kind: well-kinded for every k, and ill-kinded as soon
        // as either annotation is printed differently
        1 => ("applied", format!("type T (f : {}) (x : {}) = f x\n()\n", Kd::Fn(Box::new(k.clone()), Box::new(Kd::T)).text(), kt), is_t),
        // among unannotated parameters, record body
        2 => ("among", format!("type T a (p : {}) b = {{ x : a, y : b }}\n()\n", kt), is_t),
        // variant body
        3 => ("variant", format!("type V (p : {}) =\n    | A\n    | B Int\n()\n", kt), is_t),
        // redundant parentheses, tight spacing
        4 => ("redundant", format!("type T (p:{}) = Int\n()\n", k.text_redundant(1)), is_t),
        5 => ("redundant", format!("type T (p : {}) (q : {}) = Int\n()\n", k.text_redundant(2), k.text_redundant(3)), is_t),
        // mutually recursive type bindings
        6 => (
            "rec-types",
            format!("rec\ntype A (p : {}) = | MkA (B p)\ntype B (p : {}) = | MkB\nin\n()\n", kt, kt),
            is_t,
        ),
        // long names: the parameter list does not fit the line
        7 => (
            "long",
            format!(
                "type A_rather_long_type_alias_name (a_rather_long_type_parameter_name : {}) (another_quite_long_parameter_name : {}) (the_third_parameter : {}) = Int\n()\n",
                kt, kt, kt
            ),
            is_t,
        ),
        // as both sides of a longer arrow, next to a parameter with a mixed kind
        _ => (
            "both-sides",
            format!("type T (p : {}) (q : Type -> Row -> _) = Int\n()\n", Kd::Fn(Box::new(k.clone()), Box::new(k.clone())).text()),
            false,
        ),
    }
}

// ------------------------------------------------------------- other production classes

/// (production class, declaration text ending in a newline; the body expression follows)
pub const DECLS: &[(&str, &str)] = &[
    // explicit forall
    ("forall", "let id_ : forall a . a -> a = \\x -> x\n"),
    ("forall", "let const_ : forall a b . a -> b -> a = \\x y -> x\n"),
    ("forall", "let apply_ f x : forall a b . (a -> b) -> a -> b = f x\n"),
    ("forall", "let nested : forall a . a -> (forall b . b -> a) = \\x y -> x\n"),
    ("forall", "type Nat f g = forall a . f a -> g a\n"),
    ("forall", "type Wrap = { run : forall a . a -> a }\n"),
    // implicit arguments and implicit argument types
    ("implicit", "let shw ?s x : [Show a] -> a -> String = s.show x\n"),
    ("implicit", "let eq_ ?e l r : [Eq a] -> a -> a -> Bool = e.(==) l r\n"),
    ("implicit", "let two ?d ?e x : [Show a] -> [Eq a] -> a -> a = x\n"),
    ("implicit", "let pick ?d x = x\nlet d = 1\nlet picked = pick ?d 2\n"),
    ("implicit", "let pick2 ?d ?e x y = x\nlet picked2 = pick2 ?1 ?\"s\" 3 4\n"),
    ("implicit", "let only_implicit = pick ?d\n"),
    ("implicit", "type Dict a = { run : [Show a] -> a -> String, other : [Eq a] -> [Show a] -> a }\n"),
    // GADT-style constructors, existential, open variants
    ("gadt", "type Expr a =\n    | IntLit : Int -> Expr Int\n    | BoolLit : Bool -> Expr Bool\n    | Cond : Expr Bool -> Expr a -> Expr a -> Expr a\n"),
    ("gadt", "type Ex =\n    | Pack : forall b . b -> (b -> Int) -> Ex\n"),
    ("gadt", "type Imp a =\n    | MkImp : [Show a] -> a -> Imp a\n"),
    ("gadt", "type Mixed a =\n    | Plain a Int\n    | Gadt : a -> Mixed a\n"),
    ("gadt", "type One a = | Only : (a -> a) -> { x : a } -> One a\n"),
    ("variant", "type Opt a =\n    | N\n    | S a\n"),
    ("variant", "type Open r = | A Int | B .. r\n"),
    ("variant", "type Rest r = .. r\n"),
    ("variant", "type Fa = forall a . (| FA a | FB)\n"),
    ("variant", "type Args a = | C1 (Option a) (Array a) (a -> a) { x : a } (a, a)\n"),
    ("variant", "type Poly r a = (| PA a .. r)\n"),
    ("variant", "type Atom r = Option (.. r)\n"),
    // attributes and doc comments
    ("attribute", "#[infix(left, 6)]\nlet (+++) x y = x + y\n"),
    ("attribute", "#[infix(right, 0)]\nlet (<||) f x = f x\n"),
    ("attribute", "#[implicit]\ntype Sh a = { sh : a -> String }\n"),
    ("attribute", "#[derive(Eq, Show)]\ntype Color = | Red | Green\n"),
    ("attribute", "#[doc(hidden)]\nlet hidden = 1\n"),
    ("attribute", "#[inline(never)]\n#[doc(hidden)]\nlet two_attrs = 1\n"),
    ("attribute", "#[noargs]\nlet no_args = 1\n"),
    ("attribute", "#[nested(a(b, c), [1, 2], {x = \"s\"}, 'c', 1.5, 2b, +)]\nlet nested_attr = 1\n"),
    ("attribute", "#[implicit]\nlet inst : Sh Int = { sh = \\_ -> \"i\" }\n"),
    ("doc", "/// A line doc comment\nlet documented = 1\n"),
    ("doc", "/// first line\n/// second line\nlet documented2 x = x\n"),
    ("doc", "/** block doc */\nlet documented3 = 1\n"),
    ("doc", "/// doc and attribute\n#[doc(hidden)]\nlet both = 1\n"),
    ("doc", "/// on a type\ntype Documented = Int\n"),
    ("doc", "/// on a variant type\n#[derive(Show)]\ntype DocVar = | DA | DB Int\n"),
    ("doc", "let rdoc = {\n    /// field doc\n    x = 1,\n    #[attr]\n    y = 2,\n}\n"),
    ("doc", "type RDoc = {\n    /// the x\n    x : Int,\n    /// the y\n    #[attr(1)]\n    y : String\n}\n"),
    ("doc", "rec\n/// first of a group\nlet ev n = od n\n/// second of a group\nlet od n = ev n\nin\n"),
    // type-level records, rows, effects, builtin function constructor, projections, holes
    ("row", "type OpenRec r = { x : Int | r }\n"),
    ("row", "type OpenRec2 r = { x : Int, y : String | r }\n"),
    ("row", "type Mod = { Name = String, Pair a = (a, a), make : Int -> Int }\n"),
    ("row", "type Mod2 = { Name, Other, make : Int }\n"),
    ("row", "type Empty = {}\n"),
    ("row", "type OnlyTail r = { | r }\n"),
    ("effect", "type Eff r a = [| st : State Int, err : Error String | r |] a\n"),
    ("effect", "type Eff2 a = [| one : Option |] a\n"),
    ("effect", "let run_eff : forall r a . Eff [| st : State Int | r |] a -> Eff [| | r |] a = run\n"),
    ("type", "type Fun2 = (->) Int String\n"),
    ("type", "let proj : m.T = x\n"),
    ("type", "let proj2 : std.types.Option Int = None\n"),
    ("type", "let hole : _ = 1\n"),
    ("type", "let hole2 : Array _ = [1]\n"),
    ("type", "let arr : Array (Option Int) = [Some 1, None]\n"),
    ("type", "let tup : (Int, String, (Float, Char)) = (1, \"s\", (1.0, 'c'))\n"),
    ("type", "let unit_ : () = ()\n"),
    ("type", "let hof : (Int -> Int) -> (Int -> Int -> Int) -> Int = \\f g -> f 1\n"),
    ("type", "let builtin : Byte -> Float -> Char -> String -> Bool = f\n"),
    ("type", "let applied : Result (Option Int) (Array (Option String)) = Ok None\n"),
    // do / seq
    ("do", "let d1 =\n    do x = Some 1\n    Some (x + 1)\n"),
    ("do", "let d2 =\n    do { a, b } = Some { a = 1, b = 2 }\n    Some a\n"),
    ("do", "let d3 =\n    do y : Int = Some 1\n    Some y\n"),
    ("do", "let d4 =\n    do (a, b) = Some (1, 2)\n    do _ = Some a\n    Some b\n"),
    ("do", "let d5 =\n    do Some z = Some (Some 1)\n    Some z\n"),
    ("seq", "let s1 =\n    seq Some 1\n    Some 2\n"),
    ("seq", "let s2 =\n    seq Some 1\n    seq Some 2\n    Some 3\n"),
    ("seq", "let s3 =\n    Some 1\n    Some 2\n    Some 3\n"),
    ("do", "let d6 = do x = Some 1 in Some x\n"),
    ("seq", "let s4 = seq Some 1 in Some 2\n"),
    // patterns
    ("pattern", "let { x, y } = r\n"),
    ("pattern", "let { x = (a, b), y = { z } } = r\n"),
    ("pattern", "let { Name, make } = m\n"),
    ("pattern", "let { ? } = m\n"),
    ("pattern", "let { x, ? } = m\n"),
    ("pattern", "let { Name, x = Some q, ? } = m\n"),
    ("pattern", "let (a, b, c) = t\n"),
    ("pattern", "let whole@{ x, y } = r\n"),
    ("pattern", "let m1 =\n    match l with\n    | Cons x (Cons y Nil) -> x\n    | all@(Cons _ _) -> 1\n    | _ -> 0\n"),
    ("pattern", "let m2 =\n    match p with\n    | (Some a, { x, y = 1 }) -> a\n    | (None, { x = \"s\" }) -> 2\n    | ((a, b), c) -> 3\n"),
    ("pattern", "let m3 =\n    match v with\n    | { Name, x } -> x\n    | { } -> 1\n"),
    ("pattern", "let m4 =\n    match v with\n    | (+) -> 1\n    | Some (-1) -> 2\n    | Some 'c' -> 3\n"),
    ("pattern", "let (Some sx) = o\n"),
    ("pattern", "let lam = \\a b c -> a\n"),
    // record expressions with type fields
    ("record", "let rt = { Name, x = 1 }\n"),
    ("record", "let rt2 = { Option, Name, make = 1, .. base }\n"),
    ("record", "let rt3 = { (+) = add, (-), x }\n"),
    ("record", "let rt4 = { .. base }\n"),
    ("record", "let prj = a.b.c.(+) 1 2\n"),
    // rec groups
    ("rec", "rec let even n = if n == 0 then True else odd (n - 1)\nlet odd n = if n == 0 then False else even (n - 1)\n"),
    ("rec", "rec\nlet ev2 n : Int -> Bool = od2 n\nlet od2 n : Int -> Bool = ev2 n\nin\n"),
    ("rec", "rec\ntype Tree a = | Leaf | Node (Forest a)\ntype Forest a = | FNil | FCons (Tree a) (Forest a)\nin\n"),
    ("rec", "rec type L a = | LNil | LCons a (L a)\n"),
];

/// body expressions
pub const BODIES: &[(&str, &str)] = &[
    ("unit", "()\n"),
    ("record", "{ x = 1, y }\n"),
    ("implicit-app", "f ?x y\n"),
    ("record-types", "{ Name, Other, value = 1 }\n"),
    ("match", "match x with\n| { a, ? } -> a\n"),
    ("do", "do q = g\nwrap q\n"),
    ("lambda", "\\x -> x\n"),
    ("int", "1\n"),
];

pub fn pool_size() -> u64 {
    (DECLS.len() * DECLS.len()) as u64
}

/// Program `si` of the pool: one or two declarations and a body. Returns (class, text).
pub fn program(si: u64) -> (String, String) {
    let n = DECLS.len() as u64;
    let a = (si % n) as usize;
    let b = ((si / n) % n) as usize;
    let mut rng = Rng::new(si, 5050);
    let body = BODIES[rng.below(BODIES.len() as u64) as usize];
    let mut s = String::new();
    if si % 7 == 3 {
        s.push_str("#!/usr/bin/env gluon\n");
    }
    s.push_str(DECLS[a].1);
    let class = if a == b {
        DECLS[a].0.to_string()
    } else {
        if si % 5 == 1 {
            s.push('\n');
        }
        s.push_str(DECLS[b].1);
        format!("{}+{}", DECLS[a].0, DECLS[b].0)
    };
    s.push_str(body.1);
    (class, s)
}

/// Single declarations (exhaustive part): declaration `i` with body `j`.
pub fn single(i: usize, j: usize) -> (String, String) {
    (DECLS[i].0.to_string(), format!("{}{}", DECLS[i].1, BODIES[j % BODIES.len()].1))
}
