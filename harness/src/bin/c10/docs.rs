//! Correspondence for the layout engine: random documents built with the REAL `pretty` 0.10 API
//! (`Arena`, `DocAllocator`, `DocBuilder`), the resulting `Doc` tree walked and sent to the Lean
//! model (`GluonModel.PrettyDoc`), rendered by the real `render_fmt` at several widths and
//! compared with the model's `render` by string equality.
//! Plus an oracle on the real crate alone: documents built only from text / hardline / line /
//! line_ / softline / group / nest / append must have the same non-whitespace characters at
//! every width.
use gv::{quote, Out};
use pretty::{Arena, Doc, DocAllocator, DocBuilder, RefDoc};

type B<'a> = DocBuilder<'a, Arena<'a, ()>, ()>;

const WORDS: &[&str] = &[
    "a", "x", "let", "=", "{", "}", "(", ")", ",", "->", "match", "with", "|", "foo_bar", "1",
    "a_rather_long_identifier_name", "\"string literal\"", "\u{e9}t\u{e9}", "\u{3000}", "/* c */", "// c",
    "compute_the_result_of_the_thing_with_a_very_long_name_indeed",
];

pub const WIDTHS: &[usize] = &[0, 1, 4, 10, 20, 40, 60, 80, 100, 200];

struct G<'r> {
    rng: &'r mut gv::rng::Rng,
    /// only combinators whose alternatives carry the same visible text
    uniform_only: bool,
}

impl<'r> G<'r> {
    fn leaf<'a>(&mut self, a: &'a Arena<'a, ()>) -> B<'a> {
        let n = if self.uniform_only { 8 } else { 12 };
        match self.rng.below(n) {
            0 | 1 | 2 => a.text(*self.rng.pick(WORDS)),
            3 => a.line(),
            4 => a.line_(),
            5 => a.softline(),
            6 => a.hardline(),
            7 => a.space(),
            8 => a.nil(),
            9 => a.text(",").flat_alt(a.nil()),    // format/src/pretty_print.rs:46
            10 => a.fail().flat_alt(a.nil()),      // format/src/pretty_print.rs:991
            _ => {
                if self.rng.chance(1, 3) { a.fail() } else { a.softline_() }
            }
        }
    }

    fn doc<'a>(&mut self, a: &'a Arena<'a, ()>, d: u32) -> B<'a> {
        if d == 0 {
            return self.leaf(a);
        }
        let n = if self.uniform_only { 9 } else { 13 };
        match self.rng.below(n) {
            0 => self.leaf(a),
            1 | 2 | 3 => {
                let k = self.rng.range(2, 5);
                let mut r = a.nil();
                for _ in 0..k {
                    let x = self.doc(a, d - 1);
                    r = r.append(x);
                }
                r
            }
            4 | 5 => self.doc(a, d - 1).group(),
            6 | 7 => {
                let k = *self.rng.pick(&[0isize, 1, 2, 4, 4, 8]);
                self.doc(a, d - 1).nest(k)
            }
            8 => {
                let x = self.doc(a, d - 1);
                a.text("(").append(x).append(")")
            }
            9 | 10 => {
                let x = self.doc(a, d - 1);
                let y = self.doc(a, d - 1);
                x.flat_alt(y)
            }
            _ => {
                let x = self.doc(a, d - 1);
                let y = self.doc(a, d - 1);
                x.union(y)
            }
        }
    }
}

fn sexp<'a>(d: &Doc<'a, RefDoc<'a, ()>, ()>, out: &mut String, feat: &mut Feat) -> bool {
    match d {
        Doc::Nil => out.push('n'),
        Doc::Fail => {
            feat.fail = true;
            out.push('f')
        }
        Doc::Line => out.push('l'),
        Doc::OwnedText(s) => out.push_str(&format!("(t {})", quote(s))),
        Doc::BorrowedText(s) => out.push_str(&format!("(t {})", quote(s))),
        Doc::SmallText(s) => out.push_str(&format!("(t {})", quote(s))),
        Doc::Append(l, r) => {
            out.push_str("(a ");
            if !sexp(l, out, feat) {
                return false;
            }
            out.push(' ');
            if !sexp(r, out, feat) {
                return false;
            }
            out.push(')');
        }
        Doc::Group(x) => {
            feat.group = true;
            out.push_str("(g ");
            if !sexp(x, out, feat) {
                return false;
            }
            out.push(')');
        }
        Doc::Nest(k, x) => {
            if *k < 0 {
                return false;
            }
            feat.nest = true;
            out.push_str(&format!("(ne {} ", k));
            if !sexp(x, out, feat) {
                return false;
            }
            out.push(')');
        }
        Doc::FlatAlt(b, f) => {
            feat.flat_alt = true;
            out.push_str("(fa ");
            if !sexp(b, out, feat) {
                return false;
            }
            out.push(' ');
            if !sexp(f, out, feat) {
                return false;
            }
            out.push(')');
        }
        Doc::Union(l, r) => {
            feat.union = true;
            out.push_str("(u ");
            if !sexp(l, out, feat) {
                return false;
            }
            out.push(' ');
            if !sexp(r, out, feat) {
                return false;
            }
            out.push(')');
        }
        // not generated
        Doc::Annotated(..) | Doc::Column(..) | Doc::Nesting(..) => return false,
    }
    true
}

#[derive(Default)]
struct Feat {
    fail: bool,
    group: bool,
    nest: bool,
    flat_alt: bool,
    union: bool,
}

fn render<'a>(d: &Doc<'a, RefDoc<'a, ()>, ()>, w: usize) -> Option<String> {
    let mut s = String::new();
    match d.render_fmt(w, &mut s) {
        Ok(()) => Some(s),
        Err(_) => None,
    }
}

pub fn one(out: &mut Out, rng: &mut gv::rng::Rng, uniform_only: bool) {
    let arena = Arena::<()>::new();
    let depth = rng.range(1, 5) as u32;
    let b = G { rng, uniform_only }.doc(&arena, depth);
    let d: &Doc<'_, RefDoc<'_, ()>, ()> = &*b.1;
    let mut sx = String::new();
    let mut feat = Feat::default();
    if !sexp(d, &mut sx, &mut feat) {
        out.count("docs:skipped");
        return;
    }
    let mut payload = String::from("(r");
    let mut distinct = std::collections::BTreeSet::new();
    let mut tokens: Vec<String> = vec![];
    for w in WIDTHS {
        match gv::catch(|| render(d, *w)) {
            Ok(Some(s)) => {
                payload.push(' ');
                payload.push_str(&quote(&s));
                tokens.push(s.chars().filter(|c| !c.is_whitespace()).collect());
                distinct.insert(s);
            }
            Ok(None) => {
                payload.push_str(" fail");
                distinct.insert("<fail>".into());
            }
            Err(p) => {
                out.oracle_fail(
                    "panic:pretty-render",
                    &format!("pretty render panicked at width {}: {}", w, p),
                    serde_json::json!({"doc": sx, "width": w}),
                );
                return;
            }
        }
    }
    payload.push(')');
    let ws: Vec<String> = WIDTHS.iter().map(|w| w.to_string()).collect();
    let req = format!("render {} {}", sx, ws.join(" "));
    if uniform_only {
        // oracle on the real crate alone
        if tokens.len() == WIDTHS.len() && tokens.iter().any(|t| *t != tokens[0]) {
            out.oracle_fail(
                "pretty:tokens-depend-on-width",
                "a document without flat_alt/union/fail has different non-whitespace text at two widths",
                serde_json::json!({"doc": sx}),
            );
        } else {
            out.count("docs:uniform-oracle-pass");
        }
    }
    out.count(if uniform_only { "docs:uniform" } else { "docs:general" });
    out.class(format!(
        "docs:{}{}{}{}{}:{}",
        if feat.group { "G" } else { "" },
        if feat.nest { "N" } else { "" },
        if feat.flat_alt { "A" } else { "" },
        if feat.union { "U" } else { "" },
        if feat.fail { "F" } else { "" },
        distinct.len()
    ));
    if out.n_cases % 2503 == 11 {
        out.sample(serde_json::json!({"request": req, "impl": payload}));
    }
    out.case(&req, &payload);
}

pub fn run(out: &mut Out, rng: &mut gv::rng::Rng, thorough: bool) {
    let n = if thorough { 40000 } else { 3000 };
    for i in 0..n {
        one(out, rng, i % 4 == 3);
    }
}
