//! Generator of gluon programs as text. Layout style (default): multi-line with the offside
//! rule (`let … \n body` aligned), every construct remembers its start column; `in` style:
//! the same programs on one line with explicit `in`.
use gv::rng::Rng;

pub struct Gen<'a> {
    pub rng: &'a mut Rng,
    pub long_names: bool,
    /// one-line style with explicit `in`
    pub use_in: bool,
    /// include an operator that has no fixity in scope
    pub undefined_op: bool,
    /// literal-spelling family: literals of every spelling in most atom and pattern positions
    pub lit_heavy: bool,
    pub used: std::collections::BTreeSet<&'static str>,
    pub s: String,
}

const IDS: &[&str] = &["x", "y", "z", "f", "g", "acc", "value", "xs"];
const LONG_IDS: &[&str] = &[
    "a_rather_long_identifier_name",
    "another_quite_long_binding_name",
    "compute_the_result_of_the_thing",
    "intermediate_value_number_one",
];
const CTORS: &[&str] = &["Some", "None", "Cons", "Nil", "Ok", "Err"];
/// operators that have a fixity with the implicit prelude
const OPS: &[&str] = &["+", "-", "*", "/", "==", "<", "<=", "&&", "||", "++", "<|"];
const LITS: &[&str] = &[
    "1", "42", "0", "3.14", "0.5", "\"s\"", "\"a\\\"q\\n\"", "'c'", "'\\n'", "10b", "r\"raw\\x\"",
    "r#\"a\"b\"#", "\"\"", "0xFF", "1000", "\"// not a comment\"", "\"/* nor this */\"",
];
/// Every literal spelling the tokenizer accepts (parser/src/token.rs numeric_literal :685-778,
/// char_literal, string_literal / escape_code :525-546, raw strings): ints, negative ints, floats
/// with trailing zeros and integral values, hex in both cases and negative, bytes, chars with
/// every escape and non-ASCII, strings with every escape, raw strings with 0..2 hashes. There are
/// no exponents, digit separators or other radices in gluon.
pub const FULL_LITS: &[&str] = &[
    "0", "1", "42", "007", "9223372036854775807", "-1", "-42", "-0", "-9223372036854775808",
    "1.0", "-1.0", "2.50", "-2.50", "0.5", "-0.5", "3.14", "100.0", "-100.0", "0.000001",
    "123456789.125", "1.10", "-0.0", "0.0", "10.", "-3.",
    "0x1F", "-0x1F", "0xff", "0xFF", "0x0", "-0x0", "0x7fffffffffffffff", "0x00ff",
    "0b", "1b", "255b", "10b", "007b",
    "'a'", "'Z'", "'\u{e9}'", "'\\n'", "'\\t'", "'\\r'", "'\\\\'", "'\\''", "'\"'", "'\\\"'", "'\\/'", "' '",
    "\"\"", "\"s\"", "\"a\\\"q\\n\"", "\"\\t\\r\\\\\\/\\'\"", "\"\u{e9} \u{fc} \u{3000}\"", "\"// not a comment\"",
    "\"/* nor this */\"", "\"  two  spaces  \"", "\"-1.0\"",
    "r\"raw\\x\"", "r#\"a\"b\"#", "r##\"x\"#y\"##", "r\"\"", "r#\"\"#", "r\"\u{e9}\"",
];
/// literal patterns
const PAT_LITS: &[&str] = &[
    "0", "1", "-1", "42", "0x1F", "-0x1F", "1.0", "-1.0", "2.50", "10b", "'c'", "'\\n'", "'\u{e9}'", "\"s\"", "\"a\\\"q\"",
    "\"\"", "r\"raw\"", "007",
];

impl<'a> Gen<'a> {
    pub fn new(rng: &'a mut Rng, long_names: bool, use_in: bool, undefined_op: bool) -> Self {
        Gen { rng, long_names, use_in, undefined_op, lit_heavy: false, used: Default::default(), s: String::new() }
    }
    fn col(&self) -> usize {
        let ls = self.s.rfind('\n').map_or(0, |i| i + 1);
        self.s[ls..].chars().count()
    }
    pub fn w_nl(&mut self) {
        self.s.push('\n');
    }
    fn w(&mut self, t: &str) {
        self.s.push_str(t);
    }
    /// line break to column `ind` (a space in `in` style)
    fn nl(&mut self, ind: usize) {
        if self.use_in {
            self.s.push(' ');
        } else {
            self.s.push('\n');
            for _ in 0..ind {
                self.s.push(' ');
            }
        }
    }
    /// separator between a binding and its body
    fn body_sep(&mut self, ind: usize) {
        if self.use_in {
            self.s.push_str(" in ");
        } else {
            self.nl(ind);
        }
    }
    fn id(&mut self) -> String {
        if self.long_names && self.rng.chance(1, 2) {
            self.rng.pick(LONG_IDS).to_string()
        } else {
            self.rng.pick(IDS).to_string()
        }
    }
    fn lit(&mut self) -> String {
        self.used.insert("lit");
        if self.lit_heavy {
            self.rng.pick(FULL_LITS).to_string()
        } else {
            self.rng.pick(LITS).to_string()
        }
    }
    fn op(&mut self) -> String {
        if self.undefined_op && self.rng.chance(1, 3) {
            self.used.insert("undefined-op");
            "<+>".to_string()
        } else {
            self.rng.pick(OPS).to_string()
        }
    }
    fn atom(&mut self) {
        if self.lit_heavy && self.rng.chance(2, 3) {
            let t = self.lit();
            return self.w(&t);
        }
        let t = match self.rng.below(8) {
            0 | 1 | 2 => self.id(),
            3 | 4 => self.lit(),
            5 => {
                self.used.insert("proj");
                format!("{}.{}", self.id(), self.id())
            }
            6 => self.rng.pick(CTORS).to_string(),
            _ => {
                self.used.insert("opref");
                format!("({})", self.rng.pick(OPS))
            }
        };
        self.w(&t);
    }
    fn pat(&mut self, d: u32) -> String {
        if self.lit_heavy && self.rng.chance(1, 2) {
            self.used.insert("pat-lit");
            return self.rng.pick(PAT_LITS).to_string();
        }
        match self.rng.below(if d == 0 { 3 } else { 9 }) {
            0 | 1 => self.id(),
            2 => "_".into(),
            3 => {
                let c = self.rng.pick(CTORS).to_string();
                let n = self.rng.below(3);
                let mut s = c;
                for _ in 0..n {
                    s.push(' ');
                    s.push_str(&self.pat_atom(d - 1));
                }
                s
            }
            4 => {
                self.used.insert("pat-record");
                let n = self.rng.below(4);
                if n == 0 {
                    return "{ }".into();
                }
                let fs: Vec<String> = (0..n)
                    .map(|_| {
                        if self.rng.chance(1, 3) {
                            format!("{} = {}", self.id(), self.pat(d - 1))
                        } else {
                            self.id()
                        }
                    })
                    .collect();
                format!("{{ {} }}", fs.join(", "))
            }
            5 => {
                self.used.insert("pat-tuple");
                format!("({}, {})", self.pat(d - 1), self.pat(d - 1))
            }
            6 => {
                self.used.insert("pat-lit");
                self.rng.pick(PAT_LITS).to_string()
            }
            7 => {
                self.used.insert("pat-as");
                format!("{}@{}", self.id(), self.pat_atom(d - 1))
            }
            _ => self.id(),
        }
    }
    fn pat_atom(&mut self, d: u32) -> String {
        let p = self.pat(d);
        if (p.contains(' ') && !p.starts_with('{') && !p.starts_with('(')) || p.contains('@') {
            format!("({})", p)
        } else {
            p
        }
    }
    pub fn typ(&mut self, d: u32) -> String {
        match self.rng.below(if d == 0 { 3 } else { 8 }) {
            0 => "Int".into(),
            1 => "String".into(),
            2 => "a".into(),
            3 => format!("{} -> {}", self.typ_atom(d - 1), self.typ(d - 1)),
            4 => {
                self.used.insert("type-record");
                let n = self.rng.below(4);
                if n == 0 {
                    return "{ }".into();
                }
                let fs: Vec<String> =
                    (0..n).map(|_| format!("{} : {}", self.id(), self.typ(d - 1))).collect();
                format!("{{ {} }}", fs.join(", "))
            }
            5 => format!("Array {}", self.typ_atom(d - 1)),
            6 => format!("({}, {})", self.typ(d - 1), self.typ(d - 1)),
            _ => format!("Option {}", self.typ_atom(d - 1)),
        }
    }
    fn typ_atom(&mut self, d: u32) -> String {
        let t = self.typ(d);
        if t.contains(' ') && !t.starts_with('{') && !t.starts_with('(') {
            format!("({})", t)
        } else {
            t
        }
    }
    /// an expression that is closed on the right (safe as operand / argument / field value)
    fn closed(&mut self, d: u32) {
        if d == 0 {
            return self.atom();
        }
        match self.rng.below(10) {
            0 | 1 => self.atom(),
            2 => {
                self.used.insert("record");
                let n = self.rng.below(4);
                if n == 0 {
                    return self.w("{ }");
                }
                self.w("{ ");
                for i in 0..n {
                    if i > 0 {
                        self.w(", ");
                    }
                    let f = self.id();
                    self.w(&f);
                    if !self.rng.chance(1, 4) {
                        self.w(" = ");
                        self.operand(d - 1);
                    }
                }
                if self.rng.chance(1, 6) {
                    self.used.insert("record-base");
                    let b = self.id();
                    self.w(&format!(", ..{}", b));
                }
                self.w(" }");
            }
            3 => {
                self.used.insert("array");
                let n = self.rng.below(4);
                self.w("[");
                for i in 0..n {
                    if i > 0 {
                        self.w(", ");
                    }
                    self.operand(d - 1);
                }
                self.w("]");
            }
            4 => {
                self.used.insert("tuple");
                let n = self.rng.below(3);
                if n == 0 {
                    return self.w("()");
                }
                self.w("(");
                for i in 0..n + 1 {
                    if i > 0 {
                        self.w(", ");
                    }
                    self.operand(d - 1);
                }
                self.w(")");
            }
            5 => {
                self.used.insert("annot");
                self.w("(");
                self.operand(d - 1);
                let t = self.typ(1);
                self.w(&format!(" : {})", t));
            }
            _ => {
                self.used.insert("paren");
                self.w("(");
                self.expr(d - 1);
                self.w(")");
            }
        }
    }
    /// application / infix chain of closed things
    fn operand(&mut self, d: u32) {
        match self.rng.below(6) {
            0 | 1 if d > 0 => {
                self.used.insert("app");
                let n = self.rng.range(1, 3);
                if self.rng.chance(3, 4) {
                    let f = self.id();
                    self.w(&f);
                } else {
                    self.closed(d - 1);
                }
                for _ in 0..n {
                    self.w(" ");
                    self.closed(d.saturating_sub(1));
                }
            }
            2 | 3 if d > 0 => {
                self.used.insert("infix");
                let n = self.rng.range(1, 4);
                self.app_or_closed(d - 1);
                for _ in 0..n {
                    let o = self.op();
                    self.w(&format!(" {} ", o));
                    self.app_or_closed(d - 1);
                }
            }
            _ => self.closed(d),
        }
    }
    fn app_or_closed(&mut self, d: u32) {
        if d > 0 && self.rng.chance(1, 3) {
            let f = self.id();
            self.w(&format!("{} ", f));
            self.closed(d - 1);
        } else {
            self.closed(d);
        }
    }
    /// right-hand side of a binding / alternative: inline if small, otherwise on its own lines
    fn rhs(&mut self, d: u32, ind: usize) {
        if d == 0 || self.rng.chance(1, 2) {
            self.w(" ");
            self.operand(d);
        } else {
            self.nl(ind + 4);
            if self.use_in {
                // an open expression in a non-tail position needs parentheses on one line
                self.w("(");
                self.expr(d);
                self.w(")");
            } else {
                self.expr(d);
            }
        }
    }
    /// any expression; starts at the current column
    pub fn expr(&mut self, d: u32) {
        let ind = self.col();
        if d == 0 {
            return self.operand(0);
        }
        match self.rng.below(13) {
            0 | 1 | 2 => {
                self.used.insert("let");
                let n = self.rng.below(3);
                let name = if n == 0 && self.rng.chance(1, 3) { self.pat_atom(1) } else { self.id() };
                self.w(&format!("let {}", name));
                for _ in 0..n {
                    let a = self.id();
                    self.w(&format!(" {}", a));
                }
                if self.rng.chance(1, 5) {
                    self.used.insert("let-annot");
                    let t = self.typ(2);
                    self.w(&format!(" : {}", t));
                }
                self.w(" =");
                self.rhs(d - 1, ind);
                self.body_sep(ind);
                self.expr(d - 1);
            }
            3 => {
                self.used.insert("lambda");
                let n = self.rng.range(1, 3);
                self.w("\\");
                for _ in 0..n {
                    let a = self.id();
                    self.w(&format!("{} ", a));
                }
                self.w("->");
                if self.rng.chance(1, 2) {
                    self.w(" ");
                    self.operand(d - 1);
                } else {
                    self.nl(ind + 4);
                    self.expr(d - 1);
                }
            }
            4 => {
                self.used.insert("if");
                self.w("if ");
                self.operand(d - 1);
                if self.rng.chance(1, 2) {
                    self.w(" then ");
                    self.operand(d - 1);
                    if self.rng.chance(1, 4) {
                        self.used.insert("else-if");
                        self.w(" else if ");
                        self.operand(d - 1);
                        self.w(" then ");
                        self.operand(d - 1);
                    }
                    self.w(" else ");
                    self.operand(d - 1);
                } else {
                    self.w(" then");
                    self.nl(ind + 4);
                    if self.use_in {
                        self.operand(d - 1);
                    } else {
                        self.expr(d - 1);
                    }
                    self.nl(ind);
                    self.w("else");
                    self.nl(ind + 4);
                    self.expr(d - 1);
                }
            }
            5 | 6 => {
                self.used.insert("match");
                let n = self.rng.range(1, 3);
                self.w("match ");
                self.operand(d - 1);
                self.w(" with");
                for i in 0..n {
                    self.nl(ind);
                    let p = self.pat(2);
                    self.w(&format!("| {} ->", p));
                    if self.use_in && i + 1 < n {
                        self.w(" ");
                        self.operand(d - 1);
                    } else if self.use_in {
                        self.w(" ");
                        self.expr(d - 1);
                    } else {
                        self.rhs(d - 1, ind);
                    }
                }
            }
            7 => {
                self.used.insert("type-alias");
                let t = self.typ(2);
                let name = self.rng.pick(&["T", "Rec", "Alias"]).to_string();
                let par = if self.rng.chance(1, 2) { "a " } else { "" };
                self.w(&format!("type {} {}= {}", name, par, t));
                self.body_sep(ind);
                self.expr(d - 1);
            }
            8 => {
                self.used.insert("type-variant");
                let n = self.rng.range(1, 3);
                let name = self.rng.pick(&["V", "Tree"]).to_string();
                let par = if self.rng.chance(1, 2) { "a " } else { "" };
                self.w(&format!("type {} {}=", name, par));
                let multi = !self.use_in && self.rng.chance(1, 2);
                for i in 0..n {
                    if multi {
                        self.nl(ind + 4);
                    } else {
                        self.w(" ");
                    }
                    let k = self.rng.below(3);
                    let args: String = (0..k).map(|_| format!(" {}", self.typ_atom(1))).collect();
                    self.w(&format!("| {}{}", ["A", "B", "C"][i as usize], args));
                }
                self.body_sep(ind);
                self.expr(d - 1);
            }
            9 => {
                self.used.insert("rec-let");
                let f = self.id();
                let a = self.id();
                self.w(&format!("rec let {} {} =", f, a));
                self.rhs(d - 1, ind);
                self.body_sep(ind);
                self.expr(d - 1);
            }
            10 if !self.use_in => {
                self.used.insert("block");
                self.operand(d - 1);
                self.nl(ind);
                self.operand(d - 1);
            }
            _ => self.operand(d),
        }
    }
}
