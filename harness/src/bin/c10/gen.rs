//! Generator of gluon programs (text, one-line style with explicit `in`; the multi-line
//! styles are obtained by formatting and by perturbing the token gaps).
use gv::rng::Rng;

pub struct Gen<'a> {
    pub rng: &'a mut Rng,
    pub long_names: bool,
    pub used: std::collections::BTreeSet<&'static str>,
}

const IDS: &[&str] = &["x", "y", "z", "f", "g", "acc", "value", "xs"];
const LONG_IDS: &[&str] = &[
    "a_rather_long_identifier_name",
    "another_quite_long_binding_name",
    "compute_the_result_of_the_thing",
    "intermediate_value_number_one",
];
const CTORS: &[&str] = &["Some", "None", "Cons", "Nil", "Ok", "Err"];
const OPS: &[&str] = &["+", "-", "*", "/", "==", "<", "&&", "||", "|>", "<|", "++", "<>", ">>=", "<<"];
const LITS: &[&str] = &[
    "1", "42", "0", "3.14", "1.0e-3", "\"s\"", "\"a\\\"q\\n\"", "'c'", "'\\n'", "10b", "r\"raw\\x\"",
    "r#\"a\"b\"#", "\"\"", "0xFF", "1_000",
];

impl<'a> Gen<'a> {
    pub fn new(rng: &'a mut Rng, long_names: bool) -> Self {
        Gen { rng, long_names, used: Default::default() }
    }
    fn id(&mut self) -> String {
        if self.long_names && self.rng.chance(1, 2) {
            self.rng.pick(LONG_IDS).to_string()
        } else {
            self.rng.pick(IDS).to_string()
        }
    }
    fn lit(&mut self) -> String {
        self.used.insert("lit");
        self.rng.pick(LITS).to_string()
    }
    fn atom(&mut self) -> String {
        match self.rng.below(8) {
            0 | 1 | 2 => self.id(),
            3 | 4 => self.lit(),
            5 => {
                self.used.insert("proj");
                format!("{}.{}", self.id(), self.id())
            }
            6 => self.rng.pick(CTORS).to_string(),
            _ => {
                self.used.insert("opref");
                format!("({})", self.rng.pick(OPS))
            }
        }
    }
    fn pat(&mut self, d: u32) -> String {
        match self.rng.below(if d == 0 { 3 } else { 9 }) {
            0 | 1 => self.id(),
            2 => "_".into(),
            3 => {
                let c = self.rng.pick(CTORS).to_string();
                let n = self.rng.below(3);
                let mut s = c;
                for _ in 0..n {
                    s.push(' ');
                    s.push_str(&self.pat_atom(d - 1));
                }
                s
            }
            4 => {
                self.used.insert("pat-record");
                let n = self.rng.below(4);
                if n == 0 {
                    return "{ }".into();
                }
                let fs: Vec<String> = (0..n)
                    .map(|_| {
                        if self.rng.chance(1, 3) {
                            format!("{} = {}", self.id(), self.pat(d - 1))
                        } else {
                            self.id()
                        }
                    })
                    .collect();
                format!("{{ {} }}", fs.join(", "))
            }
            5 => {
                self.used.insert("pat-tuple");
                format!("({}, {})", self.pat(d - 1), self.pat(d - 1))
            }
            6 => {
                self.used.insert("pat-lit");
                self.rng.pick(&["1", "\"s\"", "'c'", "0"]).to_string()
            }
            7 => {
                self.used.insert("pat-as");
                format!("{}@{}", self.id(), self.pat_atom(d - 1))
            }
            _ => self.id(),
        }
    }
    fn pat_atom(&mut self, d: u32) -> String {
        let p = self.pat(d);
        if p.contains(' ') && !p.starts_with('{') && !p.starts_with('(') {
            format!("({})", p)
        } else if p.contains('@') {
            format!("({})", p)
        } else {
            p
        }
    }
    fn typ(&mut self, d: u32) -> String {
        match self.rng.below(if d == 0 { 3 } else { 8 }) {
            0 => "Int".into(),
            1 => "String".into(),
            2 => "a".into(),
            3 => format!("{} -> {}", self.typ_atom(d - 1), self.typ(d - 1)),
            4 => {
                self.used.insert("type-record");
                let n = self.rng.below(4);
                if n == 0 {
                    return "{ }".into();
                }
                let fs: Vec<String> =
                    (0..n).map(|_| format!("{} : {}", self.id(), self.typ(d - 1))).collect();
                format!("{{ {} }}", fs.join(", "))
            }
            5 => format!("Array {}", self.typ_atom(d - 1)),
            6 => format!("({}, {})", self.typ(d - 1), self.typ(d - 1)),
            _ => format!("Option {}", self.typ_atom(d - 1)),
        }
    }
    fn typ_atom(&mut self, d: u32) -> String {
        let t = self.typ(d);
        if t.contains(' ') && !t.starts_with('{') && !t.starts_with('(') {
            format!("({})", t)
        } else {
            t
        }
    }
    /// an expression that is closed on the right (safe as operand / argument / field value)
    fn closed(&mut self, d: u32) -> String {
        if d == 0 {
            return self.atom();
        }
        match self.rng.below(10) {
            0 | 1 => self.atom(),
            2 => {
                self.used.insert("record");
                let n = self.rng.below(4);
                if n == 0 {
                    return "{ }".into();
                }
                let mut fs: Vec<String> = (0..n)
                    .map(|_| {
                        if self.rng.chance(1, 4) {
                            self.id()
                        } else {
                            format!("{} = {}", self.id(), self.operand(d - 1))
                        }
                    })
                    .collect();
                if self.rng.chance(1, 6) {
                    self.used.insert("record-base");
                    let b = self.id();
                    fs.push(format!("..{}", b));
                }
                format!("{{ {} }}", fs.join(", "))
            }
            3 => {
                self.used.insert("array");
                let n = self.rng.below(4);
                let es: Vec<String> = (0..n).map(|_| self.operand(d - 1)).collect();
                format!("[{}]", es.join(", "))
            }
            4 => {
                self.used.insert("tuple");
                let n = self.rng.below(3);
                if n == 0 {
                    return "()".into();
                }
                let es: Vec<String> = (0..n + 1).map(|_| self.operand(d - 1)).collect();
                format!("({})", es.join(", "))
            }
            5 => {
                self.used.insert("paren");
                format!("({})", self.expr(d - 1))
            }
            6 => {
                self.used.insert("annot");
                format!("({} : {})", self.operand(d - 1), self.typ(1))
            }
            _ => format!("({})", self.expr(d - 1)),
        }
    }
    /// application / infix chain of closed things
    fn operand(&mut self, d: u32) -> String {
        match self.rng.below(6) {
            0 | 1 if d > 0 => {
                self.used.insert("app");
                let n = self.rng.range(1, 3);
                let mut s = if self.rng.chance(3, 4) { self.id() } else { self.closed(d - 1) };
                for _ in 0..n {
                    s.push(' ');
                    s.push_str(&self.closed(d.saturating_sub(1)));
                }
                s
            }
            2 | 3 if d > 0 => {
                self.used.insert("infix");
                let n = self.rng.range(1, 4);
                let mut s = self.app_or_closed(d - 1);
                for _ in 0..n {
                    s.push(' ');
                    s.push_str(self.rng.pick(OPS));
                    s.push(' ');
                    s.push_str(&self.app_or_closed(d - 1));
                }
                s
            }
            _ => self.closed(d),
        }
    }
    fn app_or_closed(&mut self, d: u32) -> String {
        if d > 0 && self.rng.chance(1, 3) {
            let f = self.id();
            format!("{} {}", f, self.closed(d - 1))
        } else {
            self.closed(d)
        }
    }
    /// any expression; open on the right (let/if/match/lambda extend as far as possible)
    pub fn expr(&mut self, d: u32) -> String {
        if d == 0 {
            return self.operand(0);
        }
        match self.rng.below(12) {
            0 | 1 => {
                self.used.insert("let");
                let n = self.rng.below(3);
                let args: String = (0..n).map(|_| format!(" {}", self.id())).collect();
                let name = if n == 0 && self.rng.chance(1, 3) { self.pat_atom(1) } else { self.id() };
                let ann = if self.rng.chance(1, 5) {
                    self.used.insert("let-annot");
                    format!(" : {}", self.typ(2))
                } else {
                    String::new()
                };
                format!("let {}{}{} = {} in {}", name, args, ann, self.expr(d - 1), self.expr(d - 1))
            }
            2 => {
                self.used.insert("lambda");
                let n = self.rng.range(1, 3);
                let args: Vec<String> = (0..n).map(|_| self.id()).collect();
                format!("\\{} -> {}", args.join(" "), self.expr(d - 1))
            }
            3 => {
                self.used.insert("if");
                let c = self.operand(d - 1);
                let t = self.operand(d - 1);
                if self.rng.chance(1, 4) {
                    self.used.insert("else-if");
                    format!("if {} then {} else if {} then {} else {}", c, t, self.operand(d - 1), self.operand(d - 1), self.expr(d - 1))
                } else {
                    format!("if {} then {} else {}", c, t, self.expr(d - 1))
                }
            }
            4 | 5 => {
                self.used.insert("match");
                let n = self.rng.range(1, 3);
                let mut s = format!("match {} with", self.operand(d - 1));
                for i in 0..n {
                    let body = if i + 1 == n { self.expr(d - 1) } else { self.operand(d - 1) };
                    s.push_str(&format!(" | {} -> {}", self.pat(2), body));
                }
                s
            }
            6 => {
                self.used.insert("type-alias");
                let t = self.typ(2);
                format!("type {} {}= {} in {}", self.rng.pick(&["T", "Rec", "Alias"]), if self.rng.chance(1, 2) { "a " } else { "" }, t, self.expr(d - 1))
            }
            7 => {
                self.used.insert("type-variant");
                let n = self.rng.range(1, 3);
                let mut s = format!("type {} {}=", self.rng.pick(&["V", "Tree"]), if self.rng.chance(1, 2) { "a " } else { "" });
                for i in 0..n {
                    let k = self.rng.below(3);
                    let args: String = (0..k).map(|_| format!(" {}", self.typ_atom(1))).collect();
                    s.push_str(&format!(" | {}{}", ["A", "B", "C"][i as usize], args));
                }
                format!("{} in {}", s, self.expr(d - 1))
            }
            8 => {
                self.used.insert("rec-let");
                format!(
                    "rec let {} {} = {} in {}",
                    self.id(),
                    self.id(),
                    self.expr(d - 1),
                    self.expr(d - 1)
                )
            }
            _ => self.operand(d),
        }
    }
}
