//! A small tokenizer for gluon source text, written from parser/src/token.rs, used only by
//! the oracle (to find token gaps, comments and literals in a text). Independent of the
//! formatter and of `CommentIter`.
#[derive(Clone, Copy, Debug, PartialEq, Eq)]
pub enum K {
    Ident,
    Kw,
    Punct,
    Op,
    Lit,
    Line,     // `// …`   (not `///`)
    Block,    // `/* … */` (not `/** … */`)
    DocLine,  // `/// …`
    DocBlock, // `/** … */`
    Attr,     // `#[…]`
    Shebang,
}

#[derive(Clone, Debug)]
pub struct Tok {
    pub k: K,
    pub start: usize,
    pub end: usize,
}

impl Tok {
    pub fn text<'a>(&self, src: &'a str) -> &'a str {
        &src[self.start..self.end]
    }
    pub fn is_comment(&self) -> bool {
        matches!(self.k, K::Line | K::Block)
    }
}

const KEYWORDS: &[&str] = &[
    "let", "rec", "in", "type", "match", "with", "if", "then", "else", "do", "seq", "forall",
];

fn is_op_char(c: char) -> bool {
    "!#$%&*+-./<=>?@\\^|~:".contains(c)
}

/// Returns `None` if the text cannot be tokenized (unterminated string/comment).
pub fn tokenize(src: &str) -> Option<Vec<Tok>> {
    let b = src.as_bytes();
    let n = b.len();
    let mut i = 0;
    let mut out = vec![];
    if src.starts_with("#!") {
        let e = src.find('\n').unwrap_or(n);
        out.push(Tok { k: K::Shebang, start: 0, end: e });
        i = e;
    }
    while i < n {
        let c = src[i..].chars().next().unwrap();
        if c.is_whitespace() {
            i += c.len_utf8();
            continue;
        }
        let start = i;
        if src[i..].starts_with("//") {
            let e = src[i..].find('\n').map(|k| i + k).unwrap_or(n);
            let mut e2 = e;
            while e2 > i && (b[e2 - 1] == b'\r' || b[e2 - 1] == b' ' || b[e2 - 1] == b'\t') {
                e2 -= 1;
            }
            let k = if src[i..].starts_with("///") { K::DocLine } else { K::Line };
            out.push(Tok { k, start, end: e2 });
            i = e;
            continue;
        }
        if src[i..].starts_with("/*") {
            // token.rs block_comment: the closing `*/` must start at offset >= 2
            let k2 = src[i + 2..].find("*/")?;
            let e = i + 2 + k2 + 2;
            let text = &src[i..e];
            let k = if text.starts_with("/**") && text.len() >= 6 { K::DocBlock } else { K::Block };
            out.push(Tok { k, start, end: e });
            i = e;
            continue;
        }
        if src[i..].starts_with("#[") {
            let e = src[i..].find(']').map(|k| i + k + 1)?;
            out.push(Tok { k: K::Attr, start, end: e });
            i = e;
            continue;
        }
        if c == '"' {
            let mut j = i + 1;
            loop {
                if j >= n {
                    return None;
                }
                match b[j] {
                    b'\\' => j += 2,
                    b'"' => {
                        j += 1;
                        break;
                    }
                    _ => j += 1,
                }
            }
            out.push(Tok { k: K::Lit, start, end: j.min(n) });
            i = j.min(n);
            continue;
        }
        if c == 'r' && i + 1 < n && (b[i + 1] == b'"' || b[i + 1] == b'#') {
            let mut j = i + 1;
            let mut hashes = 0;
            while j < n && b[j] == b'#' {
                hashes += 1;
                j += 1;
            }
            if j < n && b[j] == b'"' {
                let close: String = std::iter::once('"').chain(std::iter::repeat('#').take(hashes)).collect();
                let k2 = src[j + 1..].find(&close)?;
                let e = j + 1 + k2 + close.len();
                out.push(Tok { k: K::Lit, start, end: e });
                i = e;
                continue;
            }
        }
        if c == '\'' {
            // char literal: '\x' or 'x'
            let mut j = i + 1;
            if j < n && b[j] == b'\\' {
                j += 2;
            } else if j < n {
                j += src[j..].chars().next().unwrap().len_utf8();
            }
            if j < n && b[j] == b'\'' {
                out.push(Tok { k: K::Lit, start, end: j + 1 });
                i = j + 1;
                continue;
            }
            return None;
        }
        if c.is_ascii_digit() {
            let mut j = i;
            while j < n && (b[j].is_ascii_alphanumeric() || b[j] == b'_') {
                j += 1;
            }
            if j + 1 < n && b[j] == b'.' && b[j + 1].is_ascii_digit() {
                j += 1;
                while j < n && (b[j].is_ascii_alphanumeric() || b[j] == b'_') {
                    j += 1;
                }
                // exponent sign
                if j < n && (b[j] == b'-' || b[j] == b'+') && (b[j - 1] == b'e' || b[j - 1] == b'E') {
                    j += 1;
                    while j < n && b[j].is_ascii_digit() {
                        j += 1;
                    }
                }
            }
            out.push(Tok { k: K::Lit, start, end: j });
            i = j;
            continue;
        }
        if c.is_alphabetic() || c == '_' {
            let mut j = i;
            while j < n {
                let ch = src[j..].chars().next().unwrap();
                if ch.is_alphanumeric() || ch == '_' || ch == '\'' {
                    j += ch.len_utf8();
                } else {
                    break;
                }
            }
            if j < n && b[j] == b'!' {
                j += 1;
            }
            let t = &src[i..j];
            let k = if KEYWORDS.contains(&t) { K::Kw } else { K::Ident };
            out.push(Tok { k, start, end: j });
            i = j;
            continue;
        }
        if is_op_char(c) {
            let mut j = i;
            while j < n && is_op_char(b[j] as char) {
                // do not swallow a comment start
                if src[j..].starts_with("//") || src[j..].starts_with("/*") {
                    break;
                }
                j += 1;
            }
            if j == i {
                j = i + 1;
            }
            let t = &src[i..j];
            let k = match t {
                "=" | "->" | "|" | ":" | "\\" | "." | ".." | "?" | "@" | "<-" => K::Punct,
                _ => K::Op,
            };
            out.push(Tok { k, start, end: j });
            i = j;
            continue;
        }
        // brackets, comma, anything else: single char
        out.push(Tok { k: K::Punct, start, end: i + c.len_utf8() });
        i += c.len_utf8();
    }
    Some(out)
}

/// Class of a token for fingerprints: the text for keywords/punctuation, the kind otherwise.
pub fn class(t: &Tok, src: &str) -> String {
    match t.k {
        K::Kw | K::Punct => t.text(src).to_string(),
        K::Ident => {
            let s = t.text(src);
            if s.chars().next().map_or(false, |c| c.is_uppercase()) { "Ctor".into() } else { "id".into() }
        }
        K::Op => "op".into(),
        K::Lit => "lit".into(),
        K::Line | K::Block => "cmt".into(),
        K::DocLine | K::DocBlock => "doc".into(),
        K::Attr => "attr".into(),
        K::Shebang => "shebang".into(),
    }
}
