//! The property oracle: the C10 statement evaluated directly on the real `format_expr`.
use super::lex::{self, Tok, K};
use gluon::{RootedThread, ThreadExt};
use gluon_base::ast::{DisplayEnv, IdentEnv};
use gluon_base::mk_ast_arena;
use gluon_base::types::TypeCache;
use std::marker::PhantomData;

pub struct MockEnv<T>(PhantomData<T>);
impl<T: AsRef<str>> DisplayEnv for MockEnv<T> {
    type Ident = T;
    fn string<'a>(&'a self, ident: &'a Self::Ident) -> &'a str {
        ident.as_ref()
    }
}
impl<T> IdentEnv for MockEnv<T>
where
    T: AsRef<str> + for<'a> From<&'a str>,
{
    fn from_str(&mut self, s: &str) -> Self::Ident {
        T::from(s)
    }
}

/// Remove every position from a `{:?}` rendering: `BytePos(123)` / `ByteIndex(123)` -> `@`.
fn strip_positions(s: &str) -> String {
    let mut out = String::with_capacity(s.len());
    let mut i = 0;
    let b = s.as_bytes();
    while i < b.len() {
        let rest = &s[i..];
        let mut matched = false;
        for pre in ["BytePos(", "ByteIndex(", "ByteOffset("] {
            if rest.starts_with(pre) {
                let mut j = i + pre.len();
                while j < b.len() && (b[j].is_ascii_digit() || b[j] == b'-') {
                    j += 1;
                }
                if j < b.len() && b[j] == b')' {
                    out.push('@');
                    i = j + 1;
                    matched = true;
                }
                break;
            }
        }
        if !matched && rest.starts_with("implicit?") {
            // the generated name of a `?` import carries a byte position
            let mut j = i + "implicit?".len();
            while j < b.len() && b[j].is_ascii_digit() {
                j += 1;
            }
            out.push_str("implicit?@");
            i = j;
            matched = true;
        }
        if !matched {
            let c = rest.chars().next().unwrap();
            out.push(c);
            i += c.len_utf8();
        }
    }
    out
}

/// Parse with the real parser (identifiers as plain strings) and render the tree without
/// positions. `Err` = does not parse.
pub fn ast(src: &str) -> Result<String, String> {
    mk_ast_arena!(arena);
    let mut env: MockEnv<String> = MockEnv(PhantomData);
    let tc: TypeCache<String, gluon_base::types::ArcType<String>> = TypeCache::new();
    let r = gv::catch(|| {
        match gluon_parser::parse_partial_expr((*arena).borrow(), &mut env, &tc, src) {
            Ok(e) => Ok(strip_positions(&format!("{:?}", e))),
            Err((_, errs)) => Err(format!("{}", errs)),
        }
    });
    match r {
        Ok(x) => x,
        Err(p) => Err(format!("parser panic: {}", p)),
    }
}

pub enum Fmt {
    Ok(String),
    Refused(String),
    Panic(String),
}

/// `format_expr` at another line width, through the verification hook
/// `Formatter::verif_pretty_expr_width` (format/src/lib.rs:49, cfg gluon_verif); the path to the
/// expression replicates src/lib.rs `format_expr_async` (reparse_infix, refuse on parse errors of
/// this file, skip the implicit prelude).
pub fn format_width(vm: &RootedThread, src: &str, width: usize) -> Fmt {
    use gluon::compiler_pipeline::InfixReparseable;
    use gluon_base::ast::{Expr, SpannedExpr};
    use gluon_base::error::Salvage;
    use gluon_base::pos::{BytePos, Span};
    use gluon_base::symbol::Symbol;
    fn has_parse_error(file: &str, err: &gluon::Error) -> bool {
        match err {
            gluon::Error::Multiple(errors) => errors.iter().any(|e| has_parse_error(file, e)),
            gluon::Error::Parse(err) => err.source_name() == file,
            _ => false,
        }
    }
    fn skip_implicit_prelude<'a, 'ast>(
        span: Span<BytePos>,
        mut l: &'a SpannedExpr<'ast, Symbol>,
    ) -> &'a SpannedExpr<'ast, Symbol> {
        loop {
            match l.value {
                Expr::LetBindings(_, ref e) if !span.contains(l.span) => l = e,
                _ => break l,
            }
        }
    }
    let file = "c10_input";
    let r = gv::catch(|| -> Result<String, String> {
        let mut db = vm.get_database();
        let expr = {
            let mut compiler = vm.module_compiler(&mut db);
            match futures::executor::block_on(src.reparse_infix(&mut compiler, vm, file, src)) {
                Ok(e) => e.expr,
                Err(Salvage { value: Some(e), error }) => {
                    if has_parse_error(file, &error) {
                        return Err(format!("{}", error));
                    }
                    e.expr
                }
                Err(Salvage { value: None, error }) => return Err(format!("{}", error)),
            }
        };
        let file_map = db.get_filemap(file).ok_or_else(|| "no filemap".to_string())?;
        let e = skip_implicit_prelude(file_map.span(), expr.expr());
        Ok(gluon_format::Formatter::default().verif_pretty_expr_width(width, &*file_map, e))
    });
    match r {
        Ok(Ok(s)) => Fmt::Ok(s),
        Ok(Err(e)) => Fmt::Refused(e),
        Err(p) => Fmt::Panic(p),
    }
}

pub fn format(vm: &RootedThread, src: &str) -> Fmt {
    match gv::catch(|| vm.format_expr(&mut gluon_format::Formatter::default(), "c10_input", src)) {
        Ok(Ok(s)) => Fmt::Ok(s),
        Ok(Err(e)) => Fmt::Refused(format!("{}", e)),
        Err(p) => Fmt::Panic(p),
    }
}

fn comments_of(src: &str, toks: &[Tok]) -> Vec<String> {
    toks.iter().filter(|t| t.is_comment()).map(|t| t.text(src).to_string()).collect()
}
/// The literal lexemes of a text according to the REAL tokenizer (hook
/// `gluon_parser::verif_tokens(input, false)`): (token kind, exact source spelling), in order.
/// `None` if the tokenizer reports an error.
pub fn real_literals(src: &str) -> Option<Vec<(String, String)>> {
    let (toks, err) = gv::catch(|| gluon_parser::verif_tokens(src, false)).ok()?;
    if err.is_some() {
        return None;
    }
    let mut out = vec![];
    for (dbg, start, end, _, _) in toks {
        let kind: String = dbg.chars().take_while(|c| c.is_alphanumeric()).collect();
        if kind.ends_with("Literal") {
            // absolute positions are 1-based byte offsets
            let (a, b) = ((start as usize).saturating_sub(1), (end as usize).saturating_sub(1));
            let lex = src.get(a..b)?.to_string();
            out.push((kind, lex));
        }
    }
    Some(out)
}

fn literals_of(src: &str, toks: &[Tok]) -> Vec<String> {
    toks.iter().filter(|t| t.k == K::Lit).map(|t| t.text(src).to_string()).collect()
}

#[derive(Debug, Clone)]
pub struct Failure {
    /// `panic` | `refused` | `output-does-not-parse` | `ast-changed` | `comment-dropped` |
    /// `comment-duplicated` | `comment-altered` | `comment-reordered` | `literal-changed` |
    /// `not-idempotent`
    pub kind: String,
    pub detail: String,
    /// for comment-* kinds: the comment concerned
    pub comment: Option<String>,
    pub formatted: Option<String>,
    /// coarse, construct-specific descriptor of the failure (used in fingerprints of failures
    /// that are not tied to an inserted comment)
    pub tag: String,
}

pub enum Verdict {
    /// the input is outside the property's precondition (does not parse) or the tokenizer of
    /// the oracle cannot handle it
    Skip(&'static str),
    Pass,
    Fail(Failure),
}

fn fail(kind: &str, detail: String, comment: Option<String>, formatted: Option<&str>) -> Verdict {
    let tag = match kind {
        "output-does-not-parse" | "refused" => match detail.find("Unexpected token: ") {
            Some(i) => {
                let w: String = detail[i + 18..].chars().take_while(|c| c.is_alphanumeric()).collect();
                format!("unexpected-{}", w)
            }
            None => {
                if detail.contains("end of file") { "unexpected-eof".into() } else { "other".into() }
            }
        },
        _ => "x".to_string(),
    };
    Verdict::Fail(Failure {
        kind: kind.into(),
        detail,
        comment,
        formatted: formatted.map(|s| s.to_string()),
        tag,
    })
}

fn with_tag(v: Verdict, tag: String) -> Verdict {
    match v {
        Verdict::Fail(mut f) => {
            f.tag = tag;
            Verdict::Fail(f)
        }
        v => v,
    }
}

/// The AST constructor / field names at the first difference of two position-free renderings:
/// `Constructor/Ident`, `Infix/App`, or the preceding field name (`name`) when the difference is
/// inside a string.
fn ast_diff_tag(a: &str, b: &str) -> String {
    let i = a.bytes().zip(b.bytes()).position(|(x, y)| x != y).unwrap_or(a.len().min(b.len()));
    let is_w = |c: u8| c.is_ascii_alphanumeric() || c == b'_';
    let ab = a.as_bytes();
    let mut st = i;
    while st > 0 && is_w(ab[st - 1]) {
        st -= 1;
    }
    let word = |s: &str| -> String { s.bytes().skip(st).take_while(|c| is_w(*c)).map(|c| c as char).collect() };
    let (wa, wb) = (word(a), word(b));
    if !wa.is_empty() || !wb.is_empty() {
        return format!("{}/{}", wa, wb).chars().take(48).collect();
    }
    // inside punctuation or a string: the previous word
    let mut e = st;
    while e > 0 && !is_w(ab[e - 1]) {
        e -= 1;
    }
    let mut s0 = e;
    while s0 > 0 && is_w(ab[s0 - 1]) {
        s0 -= 1;
    }
    a[s0..e].to_string()
}

fn line_tag(src: &str) -> String {
    match lex::tokenize(src) {
        Some(t) if !t.is_empty() => lex::class(&t[0], src),
        _ => "blank".into(),
    }
}

/// Evaluate the property statement on one input text.
pub fn check(vm: &RootedThread, src: &str) -> Verdict {
    check_with(src, &|s| format(vm, s))
}

/// The same at another line width (through the hook).
pub fn check_width(vm: &RootedThread, src: &str, width: usize) -> Verdict {
    check_with(src, &|s| format_width(vm, s, width))
}

pub fn check_with(src: &str, format: &dyn Fn(&str) -> Fmt) -> Verdict {
    let a0 = match ast(src) {
        Ok(a) => a,
        Err(_) => return Verdict::Skip("input-does-not-parse"),
    };
    let t0 = match lex::tokenize(src) {
        Some(t) => t,
        None => return Verdict::Skip("oracle-tokenizer"),
    };
    let f1 = match format(src) {
        Fmt::Ok(s) => s,
        Fmt::Refused(e) => {
            // `format_expr` refuses on parse errors; an operator chain with conflicting or
            // missing fixities at a definition is reported by the infix re-parse, which is part
            // of parsing: outside the precondition.
            if e.contains("Conflicting fixities") || e.contains("No fixity specified") {
                return Verdict::Skip("infix-error");
            }
            return fail("refused", e.chars().take(300).collect(), None, None);
        }
        Fmt::Panic(p) => return fail("panic", p, None, None),
    };
    let a1 = match ast(&f1) {
        Ok(a) => a,
        Err(e) => return fail("output-does-not-parse", e.chars().take(300).collect(), None, Some(&f1)),
    };
    let t1 = match lex::tokenize(&f1) {
        Some(t) => t,
        None => return fail("output-does-not-parse", "oracle tokenizer".into(), None, Some(&f1)),
    };
    // comments: same sequence
    let c0 = comments_of(src, &t0);
    let c1 = comments_of(&f1, &t1);
    if c0 != c1 {
        // classify
        let mut s0 = c0.clone();
        s0.sort();
        let mut s1 = c1.clone();
        s1.sort();
        if s0 == s1 {
            let i = c0.iter().zip(c1.iter()).position(|(a, b)| a != b).unwrap();
            return fail("comment-reordered", format!("{:?} -> {:?}", c0, c1), Some(c0[i].clone()), Some(&f1));
        }
        for c in &c0 {
            let n0 = c0.iter().filter(|x| *x == c).count();
            let n1 = c1.iter().filter(|x| *x == c).count();
            if n1 < n0 {
                let altered = c1.iter().any(|x| !c0.contains(x));
                return fail(
                    if altered { "comment-altered" } else { "comment-dropped" },
                    format!("{:?} -> {:?}", c0, c1),
                    Some(c.clone()),
                    Some(&f1),
                );
            }
        }
        for c in &c1 {
            let n0 = c0.iter().filter(|x| *x == c).count();
            let n1 = c1.iter().filter(|x| *x == c).count();
            if n1 > n0 {
                return fail("comment-duplicated", format!("{:?} -> {:?}", c0, c1), Some(c.clone()), Some(&f1));
            }
        }
    }
    if a0 != a1 {
        let i = a0.bytes().zip(a1.bytes()).position(|(x, y)| x != y).unwrap_or(0);
        let lo = i.saturating_sub(60);
        let cut = |s: &str| -> String { s.chars().skip(lo).take(160).collect() };
        return with_tag(
            fail("ast-changed", format!("…{} ≠ …{}", cut(&a0), cut(&a1)), None, Some(&f1)),
            ast_diff_tag(&a0, &a1),
        );
    }
    // literals byte-for-byte: by the real tokenizer (kind and spelling) and by the oracle's own
    match (real_literals(src), real_literals(&f1)) {
        (Some(r0), Some(r1)) => {
            if r0 != r1 {
                let i = r0.iter().zip(r1.iter()).position(|(a, b)| a != b).unwrap_or(r0.len().min(r1.len()));
                let kind = r0.get(i).map(|x| x.0.clone()).unwrap_or_else(|| "count".into());
                return with_tag(
                    fail("literal-changed", format!("{:?} -> {:?}", r0.get(i), r1.get(i)), None, Some(&f1)),
                    kind,
                );
            }
        }
        (Some(_), None) => return fail("output-does-not-parse", "tokenizer error in the output".into(), None, Some(&f1)),
        _ => {}
    }
    let l0 = literals_of(src, &t0);
    let l1 = literals_of(&f1, &t1);
    if l0 != l1 {
        return fail("literal-changed", format!("{:?} -> {:?}", l0, l1), None, Some(&f1));
    }
    match format(&f1) {
        Fmt::Ok(f2) => {
            if f2 != f1 {
                let tag = f1
                    .lines()
                    .zip(f2.lines())
                    .find(|(x, y)| x != y)
                    .map(|(x, y)| format!("{}>{}", line_tag(x), line_tag(y)))
                    .unwrap_or_else(|| "line-count".into());
                return with_tag(fail("not-idempotent", first_diff(&f1, &f2), None, Some(&f1)), tag);
            }
        }
        Fmt::Refused(e) => return fail("output-does-not-parse", e.chars().take(300).collect(), None, Some(&f1)),
        Fmt::Panic(p) => return fail("panic", format!("second format: {}", p), None, Some(&f1)),
    }
    Verdict::Pass
}

fn first_diff(a: &str, b: &str) -> String {
    for (i, (x, y)) in a.lines().zip(b.lines()).enumerate() {
        if x != y {
            return format!("line {}: {:?} -> {:?}", i + 1, x, y);
        }
    }
    format!("line count {} -> {}", a.lines().count(), b.lines().count())
}


/// Render the type of `type T = <ty>` with the real type printer at the given widths
/// (`TypeFormatter::width`, base/src/types/pretty_print.rs:98). `Err` = the text does not parse.
pub fn type_at_widths(ty_src: &str, widths: &[usize]) -> Result<Vec<Result<String, String>>, String> {
    use gluon_base::ast::Expr;
    use gluon_base::types::pretty_print::TypeFormatter;
    let src = format!("type T = {}\n()\n", ty_src);
    mk_ast_arena!(arena);
    let mut env: MockEnv<String> = MockEnv(PhantomData);
    let tc: TypeCache<String, gluon_base::types::ArcType<String>> = TypeCache::new();
    let r = gv::catch(|| {
        match gluon_parser::parse_partial_expr((*arena).borrow(), &mut env, &tc, &src[..]) {
            Ok(e) => match &e.value {
                Expr::TypeBindings(binds, _) => {
                    let typ = binds[0].alias.value.unresolved_type();
                    Ok(widths
                        .iter()
                        .map(|w| gv::catch(|| format!("{}", TypeFormatter::new(typ).width(*w))))
                        .collect::<Vec<_>>())
                }
                _ => Err("not a type binding".to_string()),
            },
            Err((_, errs)) => Err(format!("{}", errs)),
        }
    });
    match r {
        Ok(x) => x,
        Err(p) => Err(format!("parser panic: {}", p)),
    }
}
