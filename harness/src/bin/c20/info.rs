//! Independent reading of the typed AST for the C20 property oracle (no model, and none of the
//! completion crate's own traversal): identifier occurrences with the type the checker stored,
//! binder scope regions, field contexts, shapes known to matter.
use gluon_base::{
    ast::{Expr, Pattern, PatternField, SpannedExpr, SpannedPattern},
    pos::{BytePos, HasSpan, Span},
    symbol::Symbol,
};

#[derive(Debug, Clone)]
pub struct Region {
    pub name: String,
    pub kind: &'static str,
    pub lo: u32,
    pub hi: u32,
    /// the binder is NOT in scope inside this sub-range (its own non-recursive definition)
    pub hole: Option<(u32, u32)>,
}

#[derive(Default)]
pub struct Info {
    /// (lo, hi, type as printed) of every identifier occurrence that carries a type
    pub idents: Vec<(u32, u32, String, &'static str)>,
    pub regions: Vec<Region>,
    /// field names of RENAMING record-pattern fields (`{ field = pat }`) with the region in which
    /// the pattern's binders are in scope: the field name itself is NOT bound there
    pub renamed_fields: Vec<Region>,
    /// positions where field names (not only scope names) may be suggested
    pub field_ctx: Vec<(u32, u32)>,
    /// zone around an empty tuple pattern `()` (its parent construct)
    pub empty_tuple_pattern_zones: Vec<(u32, u32)>,
    pub empty_arrays: u32,
    pub annotated: u32,
    /// spans of all binding patterns (let names, alternatives, do binders)
    pub pattern_spans: Vec<(u32, u32)>,
    pub constructs: Vec<&'static str>,
    /// some sibling list is not ordered and disjoint (only error recovery produces this)
    pub disordered: bool,
}

fn lo(s: Span<BytePos>) -> u32 {
    s.start().0
}
fn hi(s: Span<BytePos>) -> u32 {
    s.end().0
}

pub struct Walker<'s> {
    pub src: &'s str,
    pub info: Info,
}

impl<'s> Walker<'s> {
    /// `hi` extended over the whitespace, closing brackets and separators that follow it in the
    /// source (1-based positions): at such in-between positions the cursor belongs to neither
    /// neighbour, and the implementation resolves them to the preceding construct.
    pub fn ext(&self, hi: u32) -> u32 {
        let b = self.src.as_bytes();
        let mut p = hi;
        // position p is the cursor after byte index p-2, i.e. before byte index p-1
        while (p as usize) >= 1 && (p as usize - 1) < b.len() && (b[p as usize - 1].is_ascii_whitespace() || b")]},|".contains(&b[p as usize - 1])) {
            p += 1;
        }
        p
    }

    /// identifier-like tokens of the source between two 1-based positions
    pub fn tokens_in(&self, lo: u32, hi: u32) -> Vec<String> {
        let b = self.src.as_bytes();
        let lo = (lo.max(1) as usize - 1).min(b.len());
        let hi = (hi.max(1) as usize - 1).min(b.len());
        let mut v = vec![];
        let mut cur = String::new();
        for &c in &b[lo..hi.max(lo)] {
            if c.is_ascii_alphanumeric() || c == b'_' {
                cur.push(c as char);
            } else if !cur.is_empty() {
                v.push(std::mem::take(&mut cur));
            }
        }
        if !cur.is_empty() {
            v.push(cur);
        }
        v
    }

    /// `lo` moved back over the whitespace, opening brackets and separators that precede it.
    pub fn ext_back(&self, lo: u32) -> u32 {
        let b = self.src.as_bytes();
        let mut p = lo;
        while p >= 2 && (p as usize - 2) < b.len() && (b[p as usize - 2].is_ascii_whitespace() || b"([{,|".contains(&b[p as usize - 2])) {
            p -= 1;
        }
        p
    }

    fn region(&mut self, name: &str, kind: &'static str, lo: u32, hi: u32, hole: Option<(u32, u32)>) {
        let lo = self.ext_back(lo);
        self.info.regions.push(Region {
            name: name.to_string(),
            kind,
            lo,
            hi,
            hole,
        });
    }

    /// value binders of a pattern (declared names)
    /// field names of renaming fields `{ name = pat }` in `p` (they bind nothing themselves)
    pub fn renamed(&self, p: &SpannedPattern<'_, Symbol>, out: &mut Vec<String>) {
        match &p.value {
            Pattern::As(_, q) => self.renamed(q, out),
            Pattern::Constructor(_, args) => args.iter().for_each(|a| self.renamed(a, out)),
            Pattern::Tuple { elems, .. } => elems.iter().for_each(|a| self.renamed(a, out)),
            Pattern::Record { fields, .. } => {
                for f in &**fields {
                    if let PatternField::Value { name, value: Some(q) } = f {
                        out.push(name.value.declared_name().to_string());
                        self.renamed(q, out);
                    }
                }
            }
            Pattern::Ident(_) | Pattern::Literal(_) | Pattern::Error => {}
        }
    }

    fn renamed_regions(&mut self, p: &SpannedPattern<'_, Symbol>, lo: u32, hi: u32, hole: Option<(u32, u32)>) {
        let mut names = vec![];
        self.renamed(p, &mut names);
        let lo = self.ext_back(lo);
        for n in names {
            self.info.renamed_fields.push(Region {
                name: n,
                kind: "record-pattern-field",
                lo,
                hi,
                hole,
            });
        }
    }

    pub fn binders(&self, p: &SpannedPattern<'_, Symbol>, out: &mut Vec<String>, types: &mut Vec<String>) {
        match &p.value {
            Pattern::As(id, q) => {
                out.push(id.value.declared_name().to_string());
                self.binders(q, out, types);
            }
            Pattern::Ident(id) => out.push(id.name.declared_name().to_string()),
            Pattern::Constructor(_, args) => {
                for a in &**args {
                    self.binders(a, out, types);
                }
            }
            Pattern::Tuple { elems, .. } => {
                for a in &**elems {
                    self.binders(a, out, types);
                }
            }
            Pattern::Record { fields, .. } => {
                for f in &**fields {
                    match f {
                        PatternField::Type { name } => {
                            types.push(name.value.declared_name().to_string())
                        }
                        PatternField::Value { name, value } => match value {
                            Some(q) => self.binders(q, out, types),
                            None => out.push(name.value.declared_name().to_string()),
                        },
                    }
                }
            }
            Pattern::Literal(_) | Pattern::Error => {}
        }
    }

    fn pattern(&mut self, p: &SpannedPattern<'_, Symbol>, parent: (u32, u32)) {
        self.info.pattern_spans.push((lo(p.span), hi(p.span)));
        match &p.value {
            Pattern::As(_, q) => self.pattern(q, parent),
            Pattern::Ident(id) => {
                self.info
                    .idents
                    .push((lo(p.span), hi(p.span), id.typ.to_string(), "pattern"));
            }
            Pattern::Constructor(_, args) => {
                for a in &**args {
                    self.pattern(a, parent);
                }
            }
            Pattern::Tuple { elems, .. } => {
                if elems.is_empty() {
                    self.info.empty_tuple_pattern_zones.push(parent);
                    self.info.constructs.push("pattern-unit");
                }
                for a in &**elems {
                    self.pattern(a, parent);
                }
            }
            Pattern::Record { fields, .. } => {
                self.info.constructs.push("pattern-record");
                self.info.field_ctx.push((lo(p.span), hi(p.span)));
                for f in &**fields {
                    if let PatternField::Value { value: Some(q), .. } = f {
                        self.pattern(q, parent);
                    }
                }
            }
            Pattern::Literal(_) | Pattern::Error => {}
        }
    }

    /// siblings must come in source order without overlap, inside their parent
    fn ordered(&mut self, parent: Span<BytePos>, spans: &[Span<BytePos>]) {
        let mut prev = lo(parent);
        for s in spans {
            if lo(*s) < prev || hi(*s) < lo(*s) || hi(*s) > hi(parent) {
                self.info.disordered = true;
            }
            prev = hi(*s);
        }
    }

    pub fn expr(&mut self, e: &SpannedExpr<'_, Symbol>) {
        let (elo, ehi) = (lo(e.span), hi(e.span));
        match &e.value {
            Expr::App { func, args, .. } => {
                let mut v = vec![func.span];
                v.extend(args.iter().map(|a| a.span));
                self.ordered(e.span, &v);
            }
            Expr::IfElse(a, b, c) => self.ordered(e.span, &[a.span, b.span, c.span]),
            Expr::Array(a) => {
                let v: Vec<_> = a.exprs.iter().map(|x| x.span).collect();
                self.ordered(e.span, &v)
            }
            Expr::Tuple { elems, .. } => {
                let v: Vec<_> = elems.iter().map(|x| x.span).collect();
                self.ordered(e.span, &v)
            }
            Expr::Block(xs) => {
                let v: Vec<_> = xs.iter().map(|x| x.span).collect();
                self.ordered(e.span, &v)
            }
            Expr::Infix { lhs, op, rhs, .. } => self.ordered(e.span, &[lhs.span, op.span, rhs.span]),
            Expr::Match(s, alts) => {
                let mut v = vec![s.span];
                for a in &**alts {
                    v.push(a.pattern.span);
                    v.push(a.expr.span);
                }
                self.ordered(e.span, &v)
            }
            Expr::LetBindings(bs, body) => {
                let mut v = vec![];
                for b in bs.iter() {
                    v.push(b.name.span);
                    v.extend(b.args.iter().map(|a| a.name.span));
                    v.push(b.expr.span);
                }
                v.push(body.span);
                self.ordered(e.span, &v)
            }
            Expr::Lambda(l) => {
                let mut v: Vec<_> = l.args.iter().map(|a| a.name.span).collect();
                v.push(l.body.span);
                self.ordered(e.span, &v)
            }
            Expr::Record { exprs, base, .. } => {
                let mut v = vec![];
                for f in &**exprs {
                    v.push(f.name.span);
                    if let Some(x) = &f.value {
                        v.push(x.span);
                    }
                }
                if let Some(b) = base {
                    v.push(b.span);
                }
                self.ordered(e.span, &v)
            }
            Expr::Projection(inner, _, _) => self.ordered(e.span, &[inner.span]),
            _ => {}
        }
        match &e.value {
            Expr::Ident(id) => {
                self.info.idents.push((elo, ehi, id.typ.to_string(), "expr"));
            }
            Expr::Literal(_) => {}
            Expr::App { func, args, .. } => {
                // implicit_args are inserted by the checker with the span of the function: they
                // are not identifiers of the program text
                self.info.constructs.push("app");
                self.expr(func);
                for a in &**args {
                    self.expr(a);
                }
            }
            Expr::Lambda(l) => {
                self.info.constructs.push("lambda");
                let end = self.ext(hi(l.body.span));
                for a in &*l.args {
                    self.info.idents.push((
                        lo(a.name.span),
                        hi(a.name.span),
                        a.name.value.typ.to_string(),
                        "lambda-arg",
                    ));
                    self.region(a.name.value.name.declared_name(), "lambda-arg", elo, end, None);
                }
                self.expr(l.body);
            }
            Expr::IfElse(a, b, c) => {
                self.info.constructs.push("if");
                self.expr(a);
                self.expr(b);
                self.expr(c);
            }
            Expr::Match(s, alts) => {
                self.info.constructs.push("match");
                self.expr(s);
                for alt in &**alts {
                    let (mut bs, mut ts) = (vec![], vec![]);
                    self.binders(&alt.pattern, &mut bs, &mut ts);
                    let end = self.ext(hi(alt.expr.span));
                    for b in bs.iter().chain(&ts) {
                        self.region(b, "match-alt", lo(alt.pattern.span), end, None);
                    }
                    self.renamed_regions(&alt.pattern, lo(alt.pattern.span), end, None);
                    self.pattern(&alt.pattern, (lo(alt.pattern.span), hi(alt.expr.span)));
                    self.expr(&alt.expr);
                }
            }
            Expr::Infix { lhs, op, rhs, .. } => {
                self.info.constructs.push("infix");
                // judged only if the operator lies between its operands (after a re-parse of a
                // chain with an unknown operator the operator spans can be out of order: C08)
                if hi(lhs.span) <= lo(op.span) && hi(op.span) <= lo(rhs.span) {
                    self.info.idents.push((
                        lo(op.span),
                        hi(op.span),
                        op.value.typ.to_string(),
                        "operator",
                    ));
                } else {
                    self.info.constructs.push("infix-operator-span-outside-operands");
                }
                self.expr(lhs);
                self.expr(rhs);
            }
            Expr::Projection(inner, _, _) => {
                self.info.constructs.push("projection");
                let end = self.ext(ehi);
                self.info.field_ctx.push((hi(inner.span), end));
                if let Expr::Projection(_, _, typ) = &e.value {
                    if hi(inner.span) + 1 <= ehi {
                        self.info
                            .idents
                            .push((hi(inner.span) + 1, ehi, typ.to_string(), "field"));
                    }
                }
                self.expr(inner);
            }
            Expr::Array(a) => {
                if a.exprs.is_empty() {
                    self.info.empty_arrays += 1;
                    self.info.constructs.push("array-empty");
                } else {
                    self.info.constructs.push("array");
                }
                for x in &*a.exprs {
                    self.expr(x);
                }
            }
            Expr::Record { exprs, base, .. } => {
                self.info.constructs.push("record");
                for f in &**exprs {
                    if let Some(v) = &f.value {
                        self.expr(v);
                    }
                }
                if let Some(b) = base {
                    self.expr(b);
                }
            }
            Expr::Tuple { elems, .. } => {
                self.info.constructs.push(if elems.is_empty() { "unit" } else { "tuple" });
                for x in &**elems {
                    self.expr(x);
                }
            }
            Expr::Block(xs) => {
                self.info.constructs.push("block");
                for x in &**xs {
                    self.expr(x);
                }
            }
            Expr::LetBindings(bs, body) => {
                let rec = bs.is_recursive();
                self.info.constructs.push(if rec { "let-rec" } else { "let" });
                let end = self.ext(hi(body.span));
                for b in bs.iter() {
                    let (mut names, mut ts) = (vec![], vec![]);
                    self.binders(&b.name, &mut names, &mut ts);
                    let own = (lo(b.name.span), hi(b.expr.span));
                    for n in names.iter().chain(&ts) {
                        self.region(n, "let", elo.min(own.0), end, if rec { None } else { Some(own) });
                    }
                    self.renamed_regions(&b.name, elo.min(own.0), end, if rec { None } else { Some(own) });
                    let bend = self.ext(hi(b.expr.span));
                    for a in &*b.args {
                        self.info.idents.push((
                            lo(a.name.span),
                            hi(a.name.span),
                            a.name.value.typ.to_string(),
                            "let-arg",
                        ));
                        self.region(a.name.value.name.declared_name(), "let-arg", own.0, bend, None);
                    }
                    if let Some(t) = &b.typ {
                        self.info.constructs.push("annotation");
                        let sp = t.span();
                        for n in self.tokens_in(lo(sp), hi(sp) + 1) {
                            self.region(&n, "type-var", lo(sp), hi(sp), None);
                        }
                    }
                    self.pattern(&b.name, own);
                    self.expr(&b.expr);
                }
                self.expr(body);
            }
            Expr::TypeBindings(binds, body) => {
                self.info.constructs.push("type-binding");
                let end = self.ext(hi(body.span));
                for b in &**binds {
                    let sp = b.span();
                    for n in self.tokens_in(lo(sp), hi(sp) + 1) {
                        self.region(&n, "type-binding", elo.min(lo(sp)), end, None);
                    }
                }
                self.expr(body);
            }
            Expr::Do(d) => {
                self.info.constructs.push("do");
                let end = self.ext(hi(d.body.span));
                if let Some(id) = &d.id {
                    let (mut names, mut ts) = (vec![], vec![]);
                    self.binders(id, &mut names, &mut ts);
                    for n in names.iter().chain(&ts) {
                        self.region(n, "do", elo.min(lo(id.span)), end, None);
                    }
                    self.renamed_regions(id, elo.min(lo(id.span)), end, None);
                    self.pattern(id, (lo(id.span), hi(d.bound.span)));
                }
                self.expr(d.bound);
                self.expr(d.body);
            }
            Expr::MacroExpansion { replacement, .. } => {
                self.info.constructs.push("macro");
                self.expr(replacement)
            }
            Expr::Annotated(inner, _) => {
                self.info.annotated += 1;
                self.info.constructs.push("annotated");
                self.expr(inner)
            }
            Expr::Error(_) => self.info.constructs.push("error"),
        }
    }
}

impl Info {
    pub fn in_scope(&self, name: &str, pos: u32) -> bool {
        self.regions.iter().any(|r| {
            r.name == name
                && r.lo <= pos
                && pos <= r.hi
                && !r.hole.map_or(false, |(a, b)| a <= pos && pos <= b)
        })
    }
    /// `name` is the field name of a renaming record-pattern field whose pattern scopes over `pos`
    pub fn renamed_field_at(&self, name: &str, pos: u32) -> bool {
        self.renamed_fields.iter().any(|r| {
            r.name == name
                && r.lo <= pos
                && pos <= r.hi
                && !r.hole.map_or(false, |(a, b)| a <= pos && pos <= b)
        })
    }
    /// classification of an out-of-scope suggestion: which binder, where the cursor is
    pub fn leak_class(&self, name: &str, pos: u32) -> String {
        match self.regions.iter().find(|r| r.name == name) {
            None => "unbound-name".into(),
            Some(_) => {
                // The name alone does not tell which binder the suggestion came from. A binder
                // whose construct lies before/after the cursor explains it by the known descent
                // into a neighbour; only if every binder of that name has the cursor inside its
                // own (non-recursive) definition is it classified as such.
                let mut best: Option<(&Region, &'static str)> = None;
                for r in self.regions.iter().filter(|r| r.name == name) {
                    let rel = if pos < r.lo {
                        "before"
                    } else if pos > r.hi {
                        "after"
                    } else {
                        "inside-own-definition"
                    };
                    let better = match best {
                        None => true,
                        Some((_, b)) => b == "inside-own-definition" && rel != "inside-own-definition",
                    };
                    if better {
                        best = Some((r, rel));
                    }
                }
                let (r, rel) = best.unwrap();
                format!("{}:{}", r.kind, rel)
            }
        }
    }
}
