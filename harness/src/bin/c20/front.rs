//! Front end used by the C20 harness: parse (partial) → rename → metadata → reparse_infix →
//! typecheck, exactly the pipeline of completion/tests/support (check/tests/support/mod.rs:
//! `typecheck_partial_expr`), with a mock environment that knows `Bool`/`True`/`False` only
//! (prelude off, no globals: "in scope" is then decided by the program text alone).
use gluon_base::{
    ast::RootExpr,
    fnv::FnvMap,
    kind::{ArcKind, Kind, KindEnv},
    metadata::{Metadata, MetadataEnv},
    source,
    symbol::{Symbol, SymbolModule, SymbolRef, Symbols},
    types::{Alias, ArcType, Field, PrimitiveEnv, Type, TypeCache, TypeEnv},
};
use gluon_check::{metadata, rename, typecheck::Typecheck};
use gluon_completion::CompletionEnv;
use gluon_parser::{parse_partial_root_expr, reparse_infix};
use std::sync::Arc;

pub struct MockEnv {
    bool_: Alias<Symbol, ArcType>,
}

impl MockEnv {
    pub fn new(interner: &mut Symbols) -> MockEnv {
        let bool_sym = interner.simple_symbol("Bool");
        // a real variant type: an alias to itself (as in the test-suite's mock) makes
        // `remove_aliases` spin forever on programs such as `True x`
        let t = interner.simple_symbol("True");
        let f = interner.simple_symbol("False");
        let bool_ty: ArcType = Type::variant(vec![
            Field::ctor(t, std::iter::empty::<ArcType>()),
            Field::ctor(f, std::iter::empty::<ArcType>()),
        ]);
        MockEnv {
            bool_: Alias::new(bool_sym, Vec::new(), bool_ty),
        }
    }
}

impl KindEnv for MockEnv {
    fn find_kind(&self, id: &SymbolRef) -> Option<ArcKind> {
        match id.definition_name() {
            "Bool" => Some(Kind::typ()),
            _ => None,
        }
    }
}

impl TypeEnv for MockEnv {
    type Type = ArcType;
    fn find_type(&self, id: &SymbolRef) -> Option<ArcType> {
        match id.definition_name() {
            "False" | "True" => Some(self.bool_.as_type().clone()),
            _ => None,
        }
    }
    fn find_type_info(&self, id: &SymbolRef) -> Option<Alias<Symbol, ArcType>> {
        match id.definition_name() {
            "Bool" => Some(self.bool_.clone()),
            _ => None,
        }
    }
}

impl PrimitiveEnv for MockEnv {
    fn get_bool(&self) -> ArcType {
        self.bool_.as_type().clone()
    }
}

impl MetadataEnv for MockEnv {
    fn get_metadata(&self, _id: &SymbolRef) -> Option<Arc<Metadata>> {
        None
    }
}

impl CompletionEnv for MockEnv {
    fn list_types(&self, _consume: &mut dyn FnMut(&Symbol, &Self::Type)) {}
}

pub struct Checked {
    pub expr: RootExpr<Symbol>,
    pub env: MockEnv,
    pub metadata: FnvMap<Symbol, Arc<Metadata>>,
    /// parse produced errors (partial AST)
    pub parse_errors: bool,
    /// reparse_infix failed
    pub infix_errors: bool,
    /// typechecker reported errors
    pub type_errors: bool,
    /// `UndefinedVariable(name)` errors of the typechecker: (start of the span, declared name)
    pub undefined: Vec<(u32, String)>,
    /// start of the span of every error of the typechecker
    pub error_starts: Vec<u32>,
}

/// `None`: the parser produced no AST at all. Panics of the front end itself propagate (the
/// caller counts them: they belong to C09, not to this property).
pub fn check(text: &str) -> Option<Checked> {
    let mut interner = Symbols::new();
    let env = MockEnv::new(&mut interner);
    let (mut expr, parse_errors) = {
        let mut module = SymbolModule::new("test".into(), &mut interner);
        match parse_partial_root_expr(&mut module, &TypeCache::new(), text) {
            Ok(e) => (e, false),
            Err((Some(e), _)) => (e, true),
            Err((None, _)) => return None,
        }
    };
    let src = source::FileMap::new("test".into(), text.to_string());
    let mut undefined = vec![];
    let mut error_starts = vec![];
    let (metadata, infix_errors, type_errors) = {
        let (arena, expr) = expr.arena_expr();
        let arena = arena.borrow();
        rename::rename(
            &src,
            &mut SymbolModule::new("test".into(), &mut interner),
            arena,
            expr,
        );
        let (_, mut metadata) = metadata::metadata(&env, &expr);
        let infix_errors = reparse_infix(arena, &metadata, &interner, expr).is_err();
        let type_errors = {
            let mut tc = Typecheck::new(
                "test".into(),
                &mut interner,
                &env,
                &TypeCache::new(),
                &mut metadata,
                arena,
            );
            match tc.typecheck_expr(expr) {
                Ok(_) => false,
                Err(errors) => {
                    for e in &errors {
                        error_starts.push(e.span.start().0);
                        if let gluon_check::typecheck::TypeError::UndefinedVariable(id) = &e.value.error {
                            undefined.push((e.span.start().0, id.declared_name().to_string()));
                        }
                    }
                    true
                }
            }
        };
        (metadata, infix_errors, type_errors)
    };
    Some(Checked {
        expr,
        env,
        metadata,
        parse_errors,
        infix_errors,
        type_errors,
        undefined,
        error_starts,
    })
}
