//! Program generator for C20. A program is a list of tokens, each with the separator that
//! precedes it, so that "truncated at every token boundary" and "one token deleted" are exact.
use gv::rng::Rng;

#[derive(Clone, Debug)]
pub struct Tok {
    /// whitespace before the token
    pub sep: String,
    pub text: String,
}

#[derive(Clone, Debug, Default)]
pub struct Prog {
    pub toks: Vec<Tok>,
    /// uses a construct outside the modelled fragment (type binding, annotation, do, record pattern)
    pub extended: bool,
}

impl Prog {
    pub fn text(&self) -> String {
        render(&self.toks)
    }
}

pub fn render(toks: &[Tok]) -> String {
    let mut s = String::new();
    for t in toks {
        s.push_str(&t.sep);
        s.push_str(&t.text);
    }
    s
}

pub struct Gen<'a> {
    pub rng: &'a mut Rng,
    pub toks: Vec<Tok>,
    pub scope: Vec<String>,
    pub fresh: u32,
    pub indent: usize,
    pub extended: bool,
    pub allow_extended: bool,
    glue: bool,
}

const NAMES: &[&str] = &["x", "y", "f", "g", "acc", "xs", "n", "val", "x1", "go"];

impl<'a> Gen<'a> {
    pub fn new(rng: &'a mut Rng, allow_extended: bool) -> Gen<'a> {
        Gen {
            rng,
            toks: vec![],
            scope: vec![],
            fresh: 0,
            indent: 0,
            extended: false,
            allow_extended,
            glue: true,
        }
    }

    fn sep(&mut self) -> String {
        if self.glue {
            self.glue = false;
            return String::new();
        }
        match self.rng.below(12) {
            0 => "  ".into(),
            1 => "   ".into(),
            2 => format!("\n{}", " ".repeat(self.indent + 4)),
            _ => " ".into(),
        }
    }
    /// token preceded by ordinary whitespace
    fn t(&mut self, s: &str) {
        let sep = self.sep();
        self.toks.push(Tok { sep, text: s.into() });
    }
    /// token glued to the previous one (punctuation)
    fn g(&mut self, s: &str) {
        self.glue = false;
        let sep = if self.rng.chance(1, 6) { " ".to_string() } else { String::new() };
        self.toks.push(Tok { sep, text: s.into() });
    }
    /// the next token is glued to this one
    fn open(&mut self, s: &str) {
        self.t(s);
        self.glue = !self.rng.chance(1, 6);
    }
    /// token on a new line at the current indentation
    fn nl(&mut self, s: &str) {
        self.glue = false;
        let sep = format!("\n{}", " ".repeat(self.indent));
        self.toks.push(Tok { sep, text: s.into() });
    }

    fn new_name(&mut self) -> String {
        if self.rng.chance(1, 3) {
            self.fresh += 1;
            format!("{}{}", self.rng.pick(NAMES), self.fresh)
        } else {
            // deliberately re-uses names: shadowing
            self.rng.pick(NAMES).to_string()
        }
    }

    fn var(&mut self) -> String {
        if !self.scope.is_empty() && !self.rng.chance(1, 8) {
            let i = self.rng.below(self.scope.len() as u64) as usize;
            self.scope[i].clone()
        } else {
            self.rng.pick(&["undefined_name", "zz", "x", "f"][..]).to_string()
        }
    }

    fn atom(&mut self) {
        match self.rng.below(10) {
            0 | 1 | 2 => {
                let n = self.rng.below(1000);
                self.t(&n.to_string())
            }
            3 => self.t("\"s\""),
            4 => {
                let b = if self.rng.chance(1, 2) { "True" } else { "False" };
                self.t(b)
            }
            _ => {
                let v = self.var();
                self.t(&v)
            }
        }
    }

    /// an expression that can stand as an application argument
    fn arg(&mut self, d: u32) {
        if d == 0 || self.rng.chance(1, 2) {
            self.atom();
            return;
        }
        match self.rng.below(9) {
            0 => {
                // parenthesised expression
                self.open("(");
                self.expr(d - 1);
                self.g(")");
            }
            1 => {
                self.open("(");
                let n = self.rng.below(4);
                if n == 1 {
                    // `(e)` would be a parenthesised expression; make it a pair
                    self.expr(d - 1);
                    self.g(",");
                    self.expr(d - 1);
                } else {
                    for i in 0..n {
                        if i > 0 {
                            self.g(",");
                        }
                        self.expr(d - 1);
                    }
                }
                self.g(")");
            }
            2 | 3 => {
                self.open("[");
                let n = self.rng.below(4);
                for i in 0..n {
                    if i > 0 {
                        self.g(",");
                    }
                    self.expr(d - 1);
                }
                self.g("]");
            }
            4 | 5 => self.record(d),
            6 => {
                // projection
                let v = self.var();
                self.t(&v);
                self.toks.push(Tok { sep: String::new(), text: ".".into() });
                let f = self.rng.pick(&["x", "y", "val"][..]).to_string();
                self.toks.push(Tok { sep: String::new(), text: f });
            }
            _ => self.atom(),
        }
    }

    fn record(&mut self, d: u32) {
        self.open("{");
        let n = self.rng.below(4);
        let fields = ["x", "y", "val", "n"];
        for i in 0..n as usize {
            if i > 0 {
                self.g(",");
            }
            if self.rng.chance(1, 4) && !self.scope.is_empty() {
                // shorthand field
                let v = self.var();
                self.t(&v);
            } else {
                self.t(fields[i]);
                self.t("=");
                self.expr(d.saturating_sub(1));
            }
        }
        if n > 0 && self.rng.chance(1, 5) {
            self.g(",");
            self.t("..");
            let v = self.var();
            self.t(&v);
        }
        self.t("}");
    }

    fn pattern(&mut self, d: u32, binders: &mut Vec<String>) {
        match self.rng.below(if d == 0 { 4 } else { 10 }) {
            0 | 1 | 2 => {
                let n = self.new_name();
                binders.push(n.clone());
                self.t(&n)
            }
            3 => {
                let n = self.rng.below(10);
                self.t(&n.to_string())
            }
            4 | 5 => {
                self.open("(");
                let n = 2 + self.rng.below(2);
                for i in 0..n {
                    if i > 0 {
                        self.g(",");
                    }
                    self.pattern(d - 1, binders);
                }
                self.g(")");
            }
            6 => {
                // unit pattern: Pattern::Tuple with no elements
                self.open("(");
                self.glue = true;
                self.g(")");
            }
            7 => {
                let c = self.rng.pick(&["Some", "Cons", "None"][..]).to_string();
                self.t(&c);
                let n = match c.as_str() {
                    "Some" => 1,
                    "Cons" => 2,
                    _ => 0,
                };
                for _ in 0..n {
                    if self.rng.chance(1, 3) {
                        self.open("(");
                        self.pattern(d - 1, binders);
                        self.g(")");
                    } else {
                        self.pattern(0, binders);
                    }
                }
            }
            8 => {
                let n = self.new_name();
                binders.push(n.clone());
                self.t(&n);
                self.t("@");
                self.open("(");
                self.pattern(d - 1, binders);
                self.g(",");
                self.pattern(d - 1, binders);
                self.g(")");
            }
            _ => {
                let mut fields = vec![];
                self.record_pattern(d.saturating_sub(1), binders, &mut fields);
            }
        }
    }

    /// A record pattern with shorthand fields (`{ sa }` binds `sa`), renaming fields
    /// (`{ fa = pat }` binds what `pat` binds, NOT `fa`) and nested patterns inside fields. The
    /// field names come from pools that no other binder uses, so a renamed field's name is
    /// never in scope by accident. `fields` receives the field names (to build a matching value).
    fn record_pattern(&mut self, d: u32, binders: &mut Vec<String>, fields: &mut Vec<String>) {
        const SHORT: &[&str] = &["sa", "sb", "sc"];
        const RENAMED: &[&str] = &["fa", "fb", "width", "height"];
        self.open("{");
        let n = 1 + self.rng.below(3) as usize;
        let mut used: Vec<&str> = vec![];
        for i in 0..n {
            if i > 0 {
                self.g(",");
            }
            if self.rng.chance(2, 5) {
                let f = SHORT[(i + self.rng.below(3) as usize) % SHORT.len()];
                if used.contains(&f) || binders.iter().any(|b| b == f) || self.scope.iter().any(|b| b == f) {
                    // fall through to a renaming field below
                } else {
                    used.push(f);
                    fields.push(f.to_string());
                    binders.push(f.to_string());
                    self.t(f);
                    continue;
                }
            }
            let mut f = RENAMED[(i + self.rng.below(4) as usize) % RENAMED.len()];
            if used.contains(&f) {
                f = match RENAMED.iter().find(|x| !used.contains(*x)) {
                    Some(x) => x,
                    None => break,
                };
            }
            used.push(f);
            fields.push(f.to_string());
            self.t(f);
            self.t("=");
            if d > 0 && self.rng.chance(1, 3) {
                // nested pattern inside the field
                if self.rng.chance(1, 2) {
                    self.open("(");
                    self.pattern(0, binders);
                    self.g(",");
                    self.pattern(0, binders);
                    self.g(")");
                } else {
                    let mut inner = vec![];
                    self.record_pattern(d - 1, binders, &mut inner);
                }
            } else {
                let n = self.new_name();
                binders.push(n.clone());
                self.t(&n);
            }
        }
        self.t("}");
    }

    /// a record value with the given fields
    fn record_value(&mut self, fields: &[String]) {
        self.open("{");
        for (i, f) in fields.iter().enumerate() {
            if i > 0 {
                self.g(",");
            }
            self.t(f);
            self.t("=");
            self.atom();
        }
        self.t("}");
    }

    pub fn expr(&mut self, d: u32) {
        if d == 0 {
            self.atom();
            return;
        }
        match self.rng.below(20) {
            0 | 1 | 2 => {
                // application
                self.arg(d - 1);
                let n = 1 + self.rng.below(3);
                for _ in 0..n {
                    self.arg(d - 1);
                }
            }
            3 | 4 => {
                // infix chain
                self.arg(d - 1);
                let n = 1 + self.rng.below(3);
                for _ in 0..n {
                    let op = self.rng.pick(&["#Int+", "#Int*", "#Int-", "#Int<", "#Int=="][..]).to_string();
                    self.t(&op);
                    if self.rng.chance(1, 3) {
                        // application operand
                        self.arg(d - 1);
                        self.arg(0);
                    } else {
                        self.arg(d - 1);
                    }
                }
            }
            5 => {
                self.t("if");
                self.expr(d - 1);
                self.t("then");
                self.expr(d - 1);
                self.t("else");
                self.expr(d - 1);
            }
            6 | 7 => {
                // lambda
                self.t("\\");
                self.glue = true;
                let n = 1 + self.rng.below(3);
                let mark = self.scope.len();
                for _ in 0..n {
                    let a = self.new_name();
                    self.t(&a);
                    self.scope.push(a);
                }
                self.t("->");
                self.expr(d - 1);
                self.scope.truncate(mark);
            }
            8 | 9 | 10 | 11 => self.let_(d),
            12 | 13 => self.match_(d),
            14 => {
                if self.allow_extended {
                    self.extended_form(d)
                } else {
                    self.let_(d)
                }
            }
            _ => self.arg(d),
        }
    }

    fn let_(&mut self, d: u32) {
        let rec_kw = self.rng.chance(1, 8);
        if rec_kw {
            self.t("rec");
        }
        self.t("let");
        let mark = self.scope.len();
        let mut binders = vec![];
        let annotated = self.allow_extended && self.rng.chance(1, 10);
        let is_fn = self.rng.chance(2, 5) || rec_kw;
        let mut record_let = false;
        if is_fn {
            let f = self.new_name();
            self.t(&f);
            binders.push(f.clone());
            let n = 1 + self.rng.below(2);
            let inner = self.scope.len();
            self.scope.push(f);
            for _ in 0..n {
                let a = self.new_name();
                self.t(&a);
                self.scope.push(a);
            }
            self.t("=");
            self.expr(d - 1);
            self.scope.truncate(inner);
        } else {
            if self.rng.chance(1, 4) {
                // `let { fa = w, sb } = { fa = 1, sb = 2 }`
                let mut fields = vec![];
                self.record_pattern(1, &mut binders, &mut fields);
                self.t("=");
                self.record_value(&fields);
                record_let = true;
            } else if self.rng.chance(1, 3) {
                self.pattern(2, &mut binders);
            } else {
                let n = self.new_name();
                binders.push(n.clone());
                self.t(&n);
            }
            if !record_let {
                if annotated {
                    self.extended = true;
                    self.t(":");
                    self.t("Int");
                }
                self.t("=");
                self.expr(d - 1);
            }
        }
        self.scope.extend(binders);
        if self.rng.chance(1, 4) && self.indent == 0 {
            // layout form: body on the next line
            let before = self.toks.len();
            self.glue = false;
            self.expr(d - 1);
            if self.toks.len() > before {
                self.toks[before].sep = "\n".into();
            }
        } else {
            self.t("in");
            self.expr(d - 1);
        }
        self.scope.truncate(mark);
    }

    fn match_(&mut self, d: u32) {
        self.t("match");
        self.arg(d - 1);
        self.t("with");
        let n = 1 + self.rng.below(3);
        let old = self.indent;
        self.indent += 4;
        for _ in 0..n {
            let mark = self.scope.len();
            let mut binders = vec![];
            self.nl("|");
            self.pattern(2, &mut binders);
            self.scope.extend(binders);
            self.t("->");
            // keep alternatives on one line each
            self.arg(d - 1);
            self.scope.truncate(mark);
        }
        self.indent = old;
    }

    fn extended_form(&mut self, d: u32) {
        self.extended = true;
        match self.rng.below(3) {
            0 => {
                // type binding with variants, then a match on it
                self.t("type");
                self.t("T");
                self.t("=");
                self.t("|");
                self.t("A");
                self.t("Int");
                self.t("|");
                self.t("B");
                self.t("in");
                self.scope.push("A".into());
                self.scope.push("B".into());
                self.expr(d - 1);
                self.scope.pop();
                self.scope.pop();
            }
            1 => {
                self.t("do");
                let n = self.new_name();
                self.t(&n);
                self.t("=");
                self.arg(d - 1);
                self.t("in");
                self.scope.push(n);
                self.expr(d - 1);
                self.scope.pop();
            }
            _ => {
                self.t("let");
                let n = self.new_name();
                self.t(&n);
                self.t(":");
                self.t("Int");
                self.t("->");
                self.t("Int");
                self.t("=");
                self.t("\\");
                self.glue = true;
                self.t("q");
                self.t("->");
                self.scope.push("q".into());
                self.expr(d - 1);
                self.scope.pop();
                self.t("in");
                self.scope.push(n);
                self.expr(d - 1);
                self.scope.pop();
            }
        }
    }
}

pub fn program(rng: &mut Rng, depth: u32, allow_extended: bool) -> Prog {
    let mut g = Gen::new(rng, allow_extended);
    g.expr(depth);
    let extended = g.extended;
    let mut toks = g.toks;
    // trailing whitespace / newline sometimes (end-of-input positions)
    match rng.below(4) {
        0 => toks.push(Tok { sep: "\n".into(), text: String::new() }),
        1 => toks.push(Tok { sep: "  ".into(), text: String::new() }),
        _ => {}
    }
    Prog { toks, extended }
}

/// The variants of the quantifier: complete; truncated at every token boundary; one token
/// deleted.
pub fn variants(p: &Prog) -> Vec<(String, String)> {
    let mut v = vec![("complete".to_string(), p.text())];
    let n = p.toks.iter().filter(|t| !t.text.is_empty()).count();
    for i in 1..n {
        v.push((format!("trunc{}", i), render(&p.toks[..i])));
        // truncated, keeping the whitespace before the next token (cursor after a space)
        let mut s = render(&p.toks[..i]);
        s.push_str(&p.toks[i].sep);
        if !p.toks[i].sep.is_empty() {
            v.push((format!("trunc{}+ws", i), s));
        }
    }
    for i in 0..n {
        let mut t = p.toks.clone();
        t.remove(i);
        v.push((format!("del{}", i), render(&t)));
    }
    v
}
