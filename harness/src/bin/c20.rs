//! C20 probe (temporary)
#[path = "c20/front.rs"]
mod front;

use gluon_base::pos::{BytePos, Span};

fn main() {
    if std::env::var("C20_LOUD").is_err() { gv::quiet_panics(); }
    let a: Vec<String> = std::env::args().collect();
    if a.len() >= 3 && a[1] == "--scan" {
        for f in &a[2..] {
            let src = std::fs::read_to_string(f).unwrap();
            let c = match gv::catch(|| front::check(&src)) {
                Ok(Some(c)) => c,
                Ok(None) => { println!("{}: no ast", f); continue; }
                Err(p) => { println!("{}: front panic {}", f, p); continue; }
            };
            let expr = c.expr.expr();
            let dbg = format!("{:?}", expr);
            let ann = dbg.matches("Annotated(").count();
            let span = Span::new(BytePos::from(1), BytePos::from(1 + src.len() as u32));
            let mut panics = std::collections::BTreeMap::new();
            for off in 0..=(src.len() as u32 + 2) {
                let pos = BytePos::from(off);
                if let Err(p) = gv::catch(|| { let _ = gluon_completion::find(&c.env, span, expr, pos); }) { *panics.entry(format!("find:{}", p)).or_insert(0u32) += 1; }
                if let Err(p) = gv::catch(|| { let _ = gluon_completion::suggest(&c.env, span, expr, pos); }) { *panics.entry(format!("suggest:{}", p)).or_insert(0u32) += 1; }
            }
            println!("{}: len={} annotated={} perr={} terr={} panics={:?}", f, src.len(), ann, c.parse_errors, c.type_errors, panics);
        }
        return;
    }
    if a.len() >= 3 && a[1] == "--probe" {
        let src = &a[2];
        let c = match gv::catch(|| front::check(src)) {
            Ok(Some(c)) => c,
            Ok(None) => {
                println!("no ast");
                return;
            }
            Err(p) => {
                println!("front panic {}", p);
                return;
            }
        };
        println!(
            "parse_err={} infix_err={} type_err={}",
            c.parse_errors, c.infix_errors, c.type_errors
        );
        let expr = c.expr.expr();
        println!("{:#?}", expr);
        let span = Span::new(BytePos::from(1), BytePos::from(1 + src.len() as u32));
        for off in 0..=(src.len() as u32 + 2) {
            let pos = BytePos::from(off);
            let f = gv::catch(|| {
                gluon_completion::completion(
                    (gluon_completion::SpanAt, gluon_completion::TypeAt { env: &c.env }),
                    span,
                    expr,
                    pos,
                )
                .map(|(s, t)| format!("{}..{} {}", s.start().0, s.end().0, t))
            });
            let s = gv::catch(|| {
                let mut v: Vec<String> = gluon_completion::suggest(&c.env, span, expr, pos)
                    .into_iter()
                    .map(|s| s.name)
                    .collect();
                v.sort();
                v
            });
            let sh = gv::catch(|| {
                gluon_completion::signature_help(&c.env, span, expr, pos)
                    .map(|s| format!("{} {:?}", s.name, s.index))
            });
            println!("{:3} find={:?} suggest={:?} sig={:?}", off, f, s, sh);
        }
    }
}
