//! C20 — editor queries are total and agree with the typechecker.
//!
//! For every generated program variant (complete / truncated at every token boundary / one token
//! deleted) and EVERY byte offset (0 ..= len+2, i.e. including the positions before the first and
//! after the last byte):
//!
//! * correspondence: the result of the real position search (`gluon_completion::complete`:
//!   match, enclosing matches, near matches) and of `SuggestionQuery{prefix_filter:false}.suggest`
//!   against the Lean model `GluonModel.FindPos` run on the dumped span tree of the typed AST
//!   (programs inside the modelled fragment);
//! * property oracle, on the implementation alone: no query panics; the type `find` reports at
//!   an identifier is the type stored in the typed AST for that occurrence; every name
//!   returned by `suggest` is in scope at the offset (scope computed from the AST by `info.rs`).
#[path = "c20/front.rs"]
mod front;
#[path = "c20/gen.rs"]
mod gen;
#[path = "c20/info.rs"]
mod info;

use gluon::either::Either;
use gluon_base::{
    ast::{Expr, Pattern, SpannedExpr, SpannedPattern},
    pos::{BytePos, Span},
    symbol::Symbol,
};
use gluon_completion as completion;
use gv::{quote, Args, Out};
use std::cell::RefCell;
use std::collections::HashMap;

thread_local! {
    static LAST_PANIC_LOC: RefCell<String> = RefCell::new(String::new());
}

fn install_hook() {
    std::panic::set_hook(Box::new(|info| {
        let loc = info
            .location()
            .map(|l| format!("{}:{}", l.file(), l.line()))
            .unwrap_or_default();
        LAST_PANIC_LOC.with(|c| *c.borrow_mut() = loc);
    }));
}

fn last_loc() -> String {
    LAST_PANIC_LOC.with(|c| c.borrow().clone())
}

// ---------------------------------------------------------------------------------------------
// Dump of the typed AST as the model's span tree
// ---------------------------------------------------------------------------------------------

struct Dump {
    src_span: Span<BytePos>,
    ids: HashMap<Symbol, usize>,
    names: Vec<String>,
    /// first reason why the program is outside the modelled fragment
    out: Option<&'static str>,
    nodes: u32,
}

impl Dump {
    fn id(&mut self, s: &Symbol) -> usize {
        if let Some(i) = self.ids.get(s) {
            return *i;
        }
        let i = self.names.len();
        self.names.push(s.declared_name().to_string());
        self.ids.insert(s.clone(), i);
        i
    }
    fn fail(&mut self, why: &'static str) -> String {
        if self.out.is_none() {
            self.out = Some(why);
        }
        "?".into()
    }
    fn sp(s: Span<BytePos>) -> String {
        format!("{} {}", s.start().0, s.end().0)
    }

    fn pat(&mut self, p: &SpannedPattern<'_, Symbol>) -> String {
        self.nodes += 1;
        match &p.value {
            Pattern::Ident(id) => {
                let i = self.id(&id.name);
                format!("(pl {} {})", Self::sp(p.span), i)
            }
            Pattern::Literal(_) | Pattern::Error => format!("(pl {})", Self::sp(p.span)),
            Pattern::Tuple { elems, .. } => {
                let mut s = format!("(pt {}", Self::sp(p.span));
                for e in &**elems {
                    s.push(' ');
                    s.push_str(&self.pat(e));
                }
                s.push(')');
                s
            }
            Pattern::Constructor(id, args) => {
                let mut s = format!("(pc {} {}", Self::sp(p.span), id.as_ref().len());
                for e in &**args {
                    s.push(' ');
                    s.push_str(&self.pat(e));
                }
                s.push(')');
                s
            }
            Pattern::As(id, q) => {
                let i = self.id(&id.value);
                let q = self.pat(q);
                format!("(pa {} {} {})", Self::sp(p.span), i, q)
            }
            Pattern::Record { fields, .. } => {
                // lib.rs:434-490; type fields need the record's type (on_alias): not modelled
                let mut s = format!("(pr {}", Self::sp(p.span));
                for f in &**fields {
                    match f {
                        gluon_base::ast::PatternField::Type { .. } => {
                            return self.fail("record-pattern-type-field")
                        }
                        gluon_base::ast::PatternField::Value { name, value: None } => {
                            let i = self.id(&name.value);
                            s.push_str(&format!(" (fs {} {})", Self::sp(name.span), i));
                        }
                        gluon_base::ast::PatternField::Value { name, value: Some(v) } => {
                            let v = self.pat(v);
                            s.push_str(&format!(" (fv {} {})", Self::sp(name.span), v));
                        }
                    }
                }
                s.push(')');
                s
            }
        }
    }

    fn list(&mut self, tag: &str, sp: Span<BytePos>, xs: &[&SpannedExpr<'_, Symbol>]) -> String {
        let mut s = format!("({} {}", tag, Self::sp(sp));
        for e in xs {
            s.push(' ');
            s.push_str(&self.expr(e));
        }
        s.push(')');
        s
    }

    fn expr(&mut self, e: &SpannedExpr<'_, Symbol>) -> String {
        self.nodes += 1;
        // lib.rs:273 `is_macro_expanded`
        if e.span.start().0 == 0 || !self.src_span.contains(e.span) {
            return self.fail("macro-expanded-span");
        }
        let sp = Self::sp(e.span);
        match &e.value {
            Expr::Ident(_) | Expr::Literal(_) => format!("(L {})", sp),
            Expr::Error(_) => format!("(E {})", sp),
            Expr::App { func, args, .. } => {
                let mut v: Vec<&SpannedExpr<'_, Symbol>> = vec![&**func];
                v.extend(args.iter());
                self.list("O", e.span, &v)
            }
            Expr::IfElse(a, b, c) => self.list("O", e.span, &[&**a, &**b, &**c]),
            Expr::Array(a) => {
                if a.exprs.is_empty() {
                    format!("(Z {})", sp)
                } else {
                    self.list("O", e.span, &a.exprs.iter().collect::<Vec<_>>())
                }
            }
            Expr::Tuple { elems, .. } => {
                if elems.is_empty() {
                    format!("(Z {})", sp)
                } else {
                    self.list("O", e.span, &elems.iter().collect::<Vec<_>>())
                }
            }
            Expr::Block(xs) => {
                if xs.is_empty() {
                    format!("(Z {})", sp)
                } else {
                    self.list("O", e.span, &xs.iter().collect::<Vec<_>>())
                }
            }
            Expr::Match(s, alts) => {
                let s = self.expr(s);
                let mut a = String::new();
                for alt in &**alts {
                    let p = self.pat(&alt.pattern);
                    let x = self.expr(&alt.expr);
                    a.push_str(&format!("({} {})", p, x));
                }
                format!("(M {} {} ({}))", sp, s, a)
            }
            Expr::Infix { lhs, op, rhs, .. } => {
                let l = self.expr(lhs);
                let r = self.expr(rhs);
                format!("(I {} {} {} {})", sp, l, Self::sp(op.span), r)
            }
            Expr::Projection(inner, _, _) => {
                let i = self.expr(inner);
                format!("(P {} {})", sp, i)
            }
            Expr::Lambda(l) => {
                let mut a = String::new();
                for arg in &*l.args {
                    let i = self.id(&arg.name.value.name);
                    a.push_str(&format!("({} {})", Self::sp(arg.name.span), i));
                }
                let b = self.expr(l.body);
                format!("(F {} ({}) {})", sp, a, b)
            }
            Expr::LetBindings(bs, body) => {
                let rec = bs.is_recursive();
                let mut s = String::new();
                for b in bs.iter() {
                    if b.typ.is_some() {
                        return self.fail("type-annotation");
                    }
                    let p = self.pat(&b.name);
                    let mut a = String::new();
                    for arg in &*b.args {
                        let i = self.id(&arg.name.value.name);
                        a.push_str(&format!("({} {})", Self::sp(arg.name.span), i));
                    }
                    let x = self.expr(&b.expr);
                    s.push_str(&format!("({} ({}) {})", p, a, x));
                }
                let body = self.expr(body);
                format!("(B {} {} ({}) {})", sp, rec as u8, s, body)
            }
            Expr::Record {
                types, exprs, base, ..
            } => {
                if !types.is_empty() {
                    return self.fail("record-type-field");
                }
                let mut f = String::new();
                for field in &**exprs {
                    match &field.value {
                        None => f.push_str(&format!("({})", Self::sp(field.name.span))),
                        Some(v) => {
                            let v = self.expr(v);
                            f.push_str(&format!("({} {})", Self::sp(field.name.span), v))
                        }
                    }
                }
                match base {
                    None => format!("(R {} ({}))", sp, f),
                    Some(b) => {
                        let b = self.expr(b);
                        format!("(R {} ({}) {})", sp, f, b)
                    }
                }
            }
            Expr::TypeBindings(..) => self.fail("type-binding"),
            Expr::Do(..) => self.fail("do"),
            Expr::MacroExpansion { .. } => self.fail("macro-expansion"),
            Expr::Annotated(inner, _) => {
                let i = self.expr(inner);
                format!("(A {} {})", sp, i)
            }
        }
    }
}

// ---------------------------------------------------------------------------------------------
// Rendering of the real results
// ---------------------------------------------------------------------------------------------

fn render_match(m: &completion::Match<'_, '_>) -> String {
    let (k, s) = match m {
        completion::Match::Expr(e) => (
            match e.value {
                Expr::Projection(..) => "ep",
                Expr::Record { .. } => "er",
                _ => "e",
            },
            e.span,
        ),
        completion::Match::Pattern(p) => (
            match p.value {
                Pattern::Record { .. } => "pr",
                _ => "p",
            },
            p.span,
        ),
        completion::Match::Ident(s, _, _) => ("i", *s),
        completion::Match::Type(s, _, _) => ("t", *s),
    };
    format!("({} {} {})", k, s.start().0, s.end().0)
}

/// The part of lib.rs:1319-1457 that is outside the model (field access, record-field filter).
fn suggest_skipped(found: &completion::Found<'_, '_>) -> bool {
    let last = found.enclosing_matches.last();
    let last_record = matches!(last, Some(completion::Match::Expr(e)) if matches!(e.value, Expr::Record { .. }));
    let last_proj = matches!(last, Some(completion::Match::Expr(e)) if matches!(e.value, Expr::Projection(..)));
    let last_pattern = matches!(last, Some(completion::Match::Pattern(_)));
    if last_record {
        return true;
    }
    // lib.rs:1404-1420 / 1451-1462: inside a record pattern the fields of its type are suggested
    let last_recpat = matches!(last, Some(completion::Match::Pattern(p)) if matches!(p.value, Pattern::Record { .. }));
    if last_recpat && !matches!(found.match_, Some(completion::Match::Expr(_)) | Some(completion::Match::Pattern(_))) {
        return true;
    }
    matches!(found.match_, Some(completion::Match::Ident(..))) && !last_pattern && last_proj
}

fn msg_class(msg: &str) -> &'static str {
    if msg.contains("Option::unwrap()") {
        "unwrap-none"
    } else if msg.contains("not implemented") {
        "unimplemented"
    } else if msg.contains("unreachable") {
        "unreachable"
    } else if msg.contains("ICE") {
        "ice"
    } else if msg.contains("index out of bounds") || msg.contains("out of range") {
        "index"
    } else if msg.contains("overflow") {
        "overflow"
    } else {
        "other"
    }
}

struct Pending {
    spliced: String,
    a: u32,
    b: u32,
    off: u32,
    name: String,
    class: String,
    src: String,
    origin: String,
    vname: String,
}

struct Ctx<'a> {
    out: &'a mut Out,
    verbose: bool,
    pending: Vec<Pending>,
}

/// Run the collected end-to-end insertions in one child process and report.
fn flush_splices(cx: &mut Ctx) {
    if cx.pending.is_empty() {
        return;
    }
    let pend = std::mem::take(&mut cx.pending);
    let texts: Vec<String> = pend.iter().map(|x| x.spliced.clone()).collect();
    let results = undefined_in_child(&texts);
    let out = &mut *cx.out;
    for (p, r) in pend.iter().zip(results) {
        out.count("spliced-suggestions");
        let undefined = match r {
            Some(v) => v,
            None => {
                out.count("spliced-suggestions:front-end-abort(skipped; C09)");
                continue;
            }
        };
        if undefined.iter().any(|(st, name)| *st == p.a && *name == p.name) {
            out.oracle_fail(
                &format!("suggest-undefined-when-inserted:{}", p.class),
                &format!(
                    "the name `{}` suggested at offset {} is an `Undefined variable` for the typechecker when inserted there ({}..{})",
                    p.name, p.off, p.a, p.b
                ),
                serde_json::json!({"src": p.src, "pos": p.off, "query": "suggest-nofilter", "origin": p.origin, "variant": p.vname, "spliced": p.spliced}),
            );
            out.count("spliced-suggestions:undefined");
        }
    }
}

/// Run everything for one program text.
fn run_variant(cx: &mut Ctx, origin: &str, vname: &str, src: &str) {
    let out = &mut *cx.out;
    if std::env::var("C20_TRACE").is_ok() {
        eprintln!("TRACE {} {} {:?}", origin, vname, src);
    }
    out.count("variants");
    let kind = vname.trim_end_matches(|c: char| c.is_ascii_digit() || c == '+' || c == 'w' || c == 's');
    out.count(&format!("variant:{}", kind));
    let checked = match gv::catch(|| front::check(src)) {
        Ok(Some(c)) => c,
        Ok(None) => {
            out.count("front:no-ast");
            return;
        }
        Err(_) => {
            // a panic of parser/renamer/typechecker is C09's business
            out.count("front:panic(skipped; belongs to C09)");
            return;
        }
    };
    if checked.parse_errors {
        out.count("front:parse-errors(partial ast)");
    }
    if checked.type_errors {
        out.count("front:type-errors");
    }
    if checked.infix_errors {
        out.count("front:infix-errors");
    }
    let clean = !checked.parse_errors && !checked.type_errors && !checked.infix_errors;
    // the end-to-end clause re-runs the front end: all complete programs, a third of the others
    // (only programs the parser accepts: after error recovery AST and checker can disagree on
    // what a malformed pattern binds)
    let do_splice = !checked.parse_errors
        && (kind == "complete" || kind == "probe" || kind == "replay" || src.len() % 3 == 0);
    let expr = checked.expr.expr();
    let env = &checked.env;
    let len = src.len() as u32;
    let span = Span::new(BytePos::from(1), BytePos::from(1 + len));

    // independent reading of the AST
    let mut w = info::Walker {
        src,
        info: Default::default(),
    };
    w.expr(expr);
    let w_ext_root = w.ext(expr.span.end().0);
    let src_tokens = w.tokens_in(1, len + 2);
    let inf = w.info;
    let mut constructs = inf.constructs.clone();
    constructs.sort();
    constructs.dedup();
    for c in &constructs {
        out.count(&format!("construct:{}", c));
    }

    // the model's view
    let mut d = Dump {
        src_span: span,
        ids: HashMap::new(),
        names: vec![],
        out: None,
        nodes: 0,
    };
    let tree = d.expr(expr);
    let in_fragment = d.out.is_none();
    if let Some(why) = d.out {
        out.count(&format!("outside-fragment:{}", why));
    }

    let replay = |pos: u32, query: &str| serde_json::json!({"src": src, "pos": pos, "query": query, "origin": origin, "variant": vname});
    let panic_fp = |msg: &str, loc: &str, pos: u32, query: &str| -> (String, String) {
        let class = msg_class(msg);
        let in_zone = inf
            .empty_tuple_pattern_zones
            .iter()
            .any(|(a, b)| *a <= pos && pos <= b + 1);
        let fp = if class == "unwrap-none" && in_zone && loc.contains("completion") {
            // (fixed by 3a63e38; kept so that the violation is reported under its name if it returns)
            "panic:completion:empty-tuple-pattern".to_string()
        } else if class == "unimplemented" && inf.annotated > 0 {
            // `Expr::Annotated(..) => unimplemented!()` (lib.rs:723), the same for every query
            "panic:completion:annotated-expr".to_string()
        } else {
            format!("panic:completion:{}:{}", query, class)
        };
        (fp, format!("{} panicked at offset {}: {} ({})", query, pos, msg, loc))
    };

    // all_symbols: once per variant
    if let Err(msg) = gv::catch(|| completion::all_symbols(span, expr).len()) {
        let (fp, what) = panic_fp(&msg, &last_loc(), 0, "all_symbols");
        out.oracle_fail(&fp, &what, replay(0, "all_symbols"));
    }

    let mut payload = String::from("(");
    let mut classes: Vec<String> = vec![];
    let mut splices: Vec<(String, u32, u32, u32, u32, String)> = vec![];
    // a pattern the checker rejects (undefined constructor) binds nothing for the checker
    let do_splice = do_splice
        && !checked
            .error_starts
            .iter()
            .any(|st| inf.pattern_spans.iter().any(|(a, b)| a <= st && st <= b));
    for off in 0..=(len + 2) {
        let pos = BytePos::from(off);
        out.count("offsets");
        // ---- position search + suggestions without prefix filter: correspondence payload
        let r = gv::catch(|| {
            let found = completion::complete(span, expr, pos);
            let q = completion::SuggestionQuery {
                prefix_filter: false,
                ..completion::SuggestionQuery::default()
            };
            let mut names: Vec<String> = q
                .suggest(env, span, expr, pos)
                .into_iter()
                .map(|s| s.name)
                .collect();
            names.sort();
            let sugg = |names: &[String]| {
                let mut s = String::from("(S");
                for n in names {
                    s.push(' ');
                    s.push_str(&quote(n));
                }
                s.push(')');
                s
            };
            match found {
                Err(()) => (format!("(N {})", sugg(&names)), "N".to_string(), names),
                Ok(f) => {
                    let fs = match &f.match_ {
                        None => "E".to_string(),
                        Some(m) => format!("(F {})", render_match(m)),
                    };
                    let ms = |v: &[completion::Match<'_, '_>]| {
                        format!("({})", v.iter().map(render_match).collect::<Vec<_>>().join(" "))
                    };
                    let s = if suggest_skipped(&f) {
                        "skip".to_string()
                    } else {
                        sugg(&names)
                    };
                    let class = match &f.match_ {
                        None => "E".to_string(),
                        Some(m) => format!("F{}", render_match(m)[1..3].trim()),
                    };
                    (
                        format!("({} {} {} {})", fs, ms(&f.enclosing_matches), ms(&f.near_matches), s),
                        class,
                        names,
                    )
                }
            }
        });
        if off > 0 {
            payload.push(' ');
        }
        let names_nofilter = match r {
            Ok((p, class, names)) => {
                payload.push_str(&p);
                classes.push(class);
                Some(names)
            }
            Err(msg) => {
                payload.push_str("panic");
                classes.push("panic".into());
                let (fp, what) = panic_fp(&msg, &last_loc(), off, "complete");
                out.oracle_fail(&fp, &what, replay(off, "complete"));
                out.count("panic-offsets");
                None
            }
        };

        // ---- totality of the other queries
        macro_rules! total {
            ($name:expr, $body:expr) => {
                match gv::catch(|| $body) {
                    Ok(v) => Some(v),
                    Err(msg) => {
                        let (fp, what) = panic_fp(&msg, &last_loc(), off, $name);
                        out.oracle_fail(&fp, &what, replay(off, $name));
                        None
                    }
                }
            };
        }
        let found_type = total!(
            "find",
            completion::find(env, span, expr, pos).map(|t| match t {
                Either::Left(k) => (false, k.to_string()),
                Either::Right(t) => (true, t.to_string()),
            })
        );
        let sugg_default = total!("suggest", {
            completion::suggest(env, span, expr, pos)
                .into_iter()
                .map(|s| s.name)
                .collect::<Vec<String>>()
        });
        total!(
            "signature_help",
            completion::signature_help(env, span, expr, pos).map(|s| s.index)
        );
        total!(
            "get_metadata",
            completion::get_metadata(&checked.metadata, span, expr, pos).is_some()
        );
        total!(
            "suggest_metadata",
            completion::suggest_metadata(&checked.metadata, env, span, expr, pos, "x").is_some()
        );
        total!(
            "find_all_symbols",
            completion::find_all_symbols(span, expr, pos).map(|r| r.1.len())
        );
        total!(
            "symbol",
            completion::symbol(span, expr, pos).map(|s| s.declared_name().len())
        );

        // ---- the type reported at an identifier is the type the checker stored for it
        let covering: Vec<&(u32, u32, String, &'static str)> = inf
            .idents
            .iter()
            .filter(|(a, b, _, _)| *a <= off && off <= *b)
            .collect();
        // at the first / last position of the identifier the neighbouring byte must be
        // whitespace (or the text's edge): otherwise the cursor is just as much on the neighbour
        let sb = src.as_bytes();
        let ws_at = |i: i64| i < 0 || i as usize >= sb.len() || sb[i as usize].is_ascii_whitespace();
        let judged = covering.len() == 1 && {
            let (a, b, _, _) = covering[0];
            (*a < off && off < *b)
                || (off == *a && off < *b && ws_at(off as i64 - 2))
                || (off == *b && *a < off && ws_at(off as i64 - 1))
        };
        if judged && inf.disordered {
            out.count("ident-offsets(sibling spans out of order after error recovery; not judged)");
        }
        if judged && !inf.disordered {
            let (a, b, typ, what) = covering[0];
            out.count("ident-offsets");
            match &found_type {
                Some(Ok((true, t))) => {
                    if t != typ {
                        out.oracle_fail(
                            &format!("type-at-ident:mismatch:{}", what),
                            &format!(
                                "find at offset {} (identifier {}..{}) reports `{}`, the typed AST has `{}`",
                                off, a, b, t, typ
                            ),
                            replay(off, "find"),
                        );
                    } else {
                        out.count("ident-offsets:type-agrees");
                    }
                }
                Some(Ok((false, k))) => out.oracle_fail(
                    &format!("type-at-ident:kind-instead-of-type:{}", what),
                    &format!(
                        "find at offset {} (identifier {}..{}) reports the kind `{}`",
                        off, a, b, k
                    ),
                    replay(off, "find"),
                ),
                Some(Err(())) => {
                    out.count("ident-offsets:nothing-reported");
                    if clean && in_fragment {
                        out.oracle_fail(
                            &format!("type-at-ident:nothing-reported:{}", what),
                            &format!(
                                "find at offset {} reports nothing although an identifier ({}..{}) of an error-free program is there",
                                off, a, b
                            ),
                            replay(off, "find"),
                        );
                    }
                }
                None => {}
            }
        }

        // ---- every suggested name is in scope at the offset
        // offsets outside the text (0 and len+2) are judged like the nearest offset inside
        // and so are offsets outside the span of the (possibly partial) AST: text that the
        // parser's error recovery dropped belongs to no construct
        let root_lo = expr.span.start().0.max(1);
        let root_hi = w_ext_root.max(root_lo);
        let soff = off.clamp(1, len + 1).clamp(root_lo, root_hi);
        let field_ctx = inf.field_ctx.iter().any(|(a, b)| *a <= soff && soff <= *b);
        for (which, names) in [("suggest", &sugg_default), ("suggest-nofilter", &names_nofilter)] {
            if inf.disordered {
                out.count("scope-offsets(sibling spans out of order after error recovery; not judged)");
                continue;
            }
            if field_ctx {
                // field access / record pattern: the suggestions are fields of a type, not names
                // in scope; not judged
                out.count("field-context-offsets(not judged)");
                continue;
            }
            if let Some(names) = names {
                for n in names.iter() {
                    out.count("suggestions");
                    let ok = inf.in_scope(n, soff);
                    if !ok && inf.renamed_field_at(n, soff) && !inf.regions.iter().any(|r| &r.name == n) {
                        // `{ field = pat }` binds what `pat` binds, never `field`
                        out.oracle_fail(
                            "suggest-out-of-scope:record-pattern-field",
                            &format!(
                                "{} at offset {} returns `{}`, the FIELD name of a renaming record-pattern field `{{ {} = … }}` that scopes over the offset; only the inner pattern's names are bound",
                                which, off, n, n
                            ),
                            replay(off, which),
                        );
                        out.count("out-of-scope:record-pattern-field");
                        break;
                    }
                    if !ok {
                        let class = inf.leak_class(n, soff);
                        if class == "unbound-name" && (n.is_empty() || src_tokens.iter().any(|t| t == n)) {
                            // no binder of that name exists, so it was not taken from the scope
                            // stack: a field name offered next to a projection; not judged
                            out.count("field-name-suggestions(not judged)");
                            continue;
                        }
                        out.oracle_fail(
                            &format!("suggest-out-of-scope:{}", class),
                            &format!(
                                "{} at offset {} returns `{}` which is not in scope there ({})",
                                which, off, n, class
                            ),
                            replay(off, which),
                        );
                        out.count(&format!("out-of-scope:{}", class));
                        break;
                    }
                }
            }
        }

        // ---- end to end (collected here, run after the loop in a child process): a suggested
        // name, inserted in place of the identifier under the cursor, must not be an
        // `Undefined variable` for the typechecker
        if do_splice && !inf.disordered {
            if let Some(names) = &names_nofilter {
                for (a, b, _, what) in inf.idents.iter() {
                    if *what != "expr" || *b != off || *a >= *b {
                        continue;
                    }
                    let mut tried: Vec<&String> = vec![];
                    for n in names.iter() {
                        // (upper-case names live in the constructor namespace of the checker: a
                        // function binding that happens to be called `Some` is not resolvable)
                        if tried.contains(&n) || tried.len() >= 6 || n.is_empty() || !n.starts_with(|c: char| c.is_ascii_lowercase()) {
                            continue;
                        }
                        tried.push(n);
                        let spliced = format!("{}{}{}", &src[..(*a as usize - 1)], n, &src[(*b as usize - 1)..]);
                        splices.push((spliced, *a, *b, off, soff, n.clone()));
                    }
                }
            }
        }
    }
    payload.push(')');

    for (spliced, a, b, off, soff, n) in splices {
        // a name the typechecker already reports as undefined somewhere in this program (e.g.
        // bound by a pattern it rejected) says nothing
        if checked.undefined.iter().any(|(_, name)| *name == n) {
            cx.out.count("spliced-suggestions:name-already-undefined-in-program(not judged)");
            continue;
        }
        let class = if inf.renamed_field_at(&n, soff) && !inf.regions.iter().any(|r| r.name == n) {
            "record-pattern-field".to_string()
        } else if inf.in_scope(&n, soff) {
            "scope-oracle-says-in-scope".to_string()
        } else {
            inf.leak_class(&n, soff)
        };
        cx.pending.push(Pending {
            spliced,
            a,
            b,
            off,
            name: n,
            class,
            src: src.to_string(),
            origin: origin.to_string(),
            vname: vname.to_string(),
        });
    }
    let out = &mut *cx.out;

    if in_fragment {
        let mut req = format!("find {} (names", len);
        for n in &d.names {
            req.push(' ');
            req.push_str(&quote(n));
        }
        req.push_str(") ");
        req.push_str(&tree);
        out.case(&req, &payload);
        out.add("correspondence-offsets", (len + 3) as u64);
        classes.sort();
        classes.dedup();
        // non-trivial: at least 3 nodes and at least 2 different outcomes over the offsets
        if d.nodes >= 3 && classes.len() >= 2 {
            out.class(format!("{:?}/{:?}/{}", constructs, classes, kind));
        }
        if out.n_cases % 211 == 3 {
            out.sample(serde_json::json!({"src": src, "variant": vname, "tree": tree}));
        }
    } else {
        out.count("oracle-only-variants");
    }
    if cx.verbose {
        println!("src: {:?}\ntree: {}\nimpl: {}", src, tree, payload);
    }
}

const CORPUS: &[&str] = &[
    // D10 (fixed): empty array as an argument
    "f []",
    "[]",
    "let x = f [] in x",
    // D12 (fixed 3a63e38): unit pattern
    "let () = () in 1",
    "match () with\n| () -> 1",
    "\\x -> match x with\n    | (a, ()) -> a",
    // D13 (fixed 924e3ee): the checker wraps an expression in `Expr::Annotated`
    "[2, \\g -> g, let x = True in 561]",
    // record patterns: a renaming field binds the inner pattern's names only
    "let { width = w, height } = { width = 1, height = 2 } in w #Int+ height",
    "match { fa = 1, sb = 2 } with\n| { fa = (a, b), sb } -> sb\n| { fa = q } -> q",
    "let { fa = { fb = inner } } = { fa = { fb = 1 } } in inner",
    "type T = Int in let { T, fa = v } = { T, fa = 1 } in v",
    "\\r -> match r with\n    | { width = w } -> w",
    // cursor on a keyword before/after a binding construct
    "let a = 1 in let b = 2 in b",
    "if True then let y = 1 in y else 2",
    // positions between tokens / end of input
    "let x = 1 in  x   ",
    "f (\\x -> x)  y",
    "(let x = 1 in x)  y",
    "let f x y = x #Int+ y in f 1 2",
    "rec let f x = f x in f 1",
    "let r = { x = 1, y = 2 } in r.x",
    "let r = { x = 1, y = 2 } in { x = 3, .. r }",
    "match (1, 2) with\n| (a, b) -> a\n| z @ (c, d) -> c",
    "if True then 1 else 2",
    "1 #Int+ 2 #Int* 3",
    "let id : forall a . a -> a = \\x -> x in id 1",
    "type T = | A Int | B in\nmatch A 1 with\n| A x -> x\n| B -> 0",
    "let { x, y = z } = { x = 1, y = 2 } in z",
    "do x = f\ng x",
    "()",
    "",
    " ",
    "let",
    "let x =",
    "\\",
    "f (",
    "{ x = }",
    "x.",
    "match x with |",
];

/// `--child screen`: one JSON string (a program text) per stdin line; after each program that
/// the front end AND the position-search queries at every offset survive (no abort / stack
/// overflow; ordinary panics are caught) print `ok`. `--child front`: the front end only.
fn child(mode: &str) {
    use std::io::{BufRead, Write};
    install_hook();
    let stdin = std::io::stdin();
    let stdout = std::io::stdout();
    for line in stdin.lock().lines() {
        let line = line.unwrap();
        let src: String = match serde_json::from_str(&line) {
            Ok(s) => s,
            Err(_) => continue,
        };
        let c = gv::catch(|| front::check(&src));
        if mode == "undefined" {
            let v: Vec<(u32, String)> = match &c {
                Ok(Some(c)) => c.undefined.clone(),
                _ => vec![],
            };
            let mut o = stdout.lock();
            writeln!(o, "{}", serde_json::to_string(&v).unwrap()).unwrap();
            o.flush().unwrap();
            continue;
        }
        if mode == "screen" {
            if let Ok(Some(c)) = c {
                let expr = c.expr.expr();
                let len = src.len() as u32;
                let span = Span::new(BytePos::from(1), BytePos::from(1 + len));
                for off in 0..=(len + 2) {
                    let pos = BytePos::from(off);
                    let _ = gv::catch(|| {
                        let _ = completion::find(&c.env, span, expr, pos);
                        let _ = completion::suggest(&c.env, span, expr, pos);
                        let _ = completion::signature_help(&c.env, span, expr, pos);
                    });
                }
                let _ = gv::catch(|| completion::all_symbols(span, expr).len());
            }
        }
        let mut o = stdout.lock();
        writeln!(o, "ok").unwrap();
        o.flush().unwrap();
    }
}

/// The `UndefinedVariable` errors the typechecker reports for each text, computed in child
/// processes (`None`: the front end aborted on it).
fn undefined_in_child(srcs: &[String]) -> Vec<Option<Vec<(u32, String)>>> {
    use gv::child::Exit;
    let mut res: Vec<Option<Vec<(u32, String)>>> = vec![None; srcs.len()];
    let mut start = 0usize;
    while start < srcs.len() {
        let mut input = String::new();
        for s in &srcs[start..] {
            input.push_str(&serde_json::to_string(s).unwrap());
            input.push('\n');
        }
        let r = gv::child::run(&["--child", "undefined"], input.as_bytes(), std::time::Duration::from_secs(25));
        let (stdout, finished) = match &r {
            Exit::Ok(o) => (o.clone(), true),
            Exit::Code(_, o, _) | Exit::Signal(_, o, _) | Exit::Timeout(o) => (o.clone(), false),
        };
        let mut n = 0;
        for l in stdout.lines() {
            if start + n >= srcs.len() {
                break;
            }
            if let Ok(v) = serde_json::from_str::<Vec<(u32, String)>>(l) {
                res[start + n] = Some(v);
                n += 1;
            } else {
                break;
            }
        }
        if finished {
            break;
        }
        start += n + 1;
    }
    res
}

/// Which of `srcs` can be run in-process. A program on which a child aborts is classified by a
/// second child that runs the front end only.
fn screen(out: &mut Out, origin: &str, srcs: &[(String, String)]) -> Vec<bool> {
    use gv::child::Exit;
    let mut okv = vec![false; srcs.len()];
    let mut start = 0usize;
    while start < srcs.len() {
        let mut input = String::new();
        for (_, s) in &srcs[start..] {
            input.push_str(&serde_json::to_string(s).unwrap());
            input.push('\n');
        }
        let r = gv::child::run(&["--child", "screen"], input.as_bytes(), std::time::Duration::from_secs(25));
        let (stdout, finished) = match &r {
            Exit::Ok(o) => (o.clone(), true),
            Exit::Code(_, o, _) | Exit::Signal(_, o, _) | Exit::Timeout(o) => (o.clone(), false),
        };
        let n_ok = stdout.lines().filter(|l| *l == "ok").count();
        for i in 0..n_ok.min(srcs.len() - start) {
            okv[start + i] = true;
        }
        if finished {
            break;
        }
        let bad = start + n_ok;
        if bad >= srcs.len() {
            break;
        }
        // classify
        let one = format!("{}\n", serde_json::to_string(&srcs[bad].1).unwrap());
        let r2 = gv::child::run(&["--child", "front"], one.as_bytes(), std::time::Duration::from_secs(25));
        match r2 {
            Exit::Ok(_) => {
                let what = format!(
                    "the editor queries abort the process ({}) on a program the front end accepts",
                    r.class()
                );
                out.oracle_fail(
                    &format!("abort:completion:{}", r.class()),
                    &what,
                    serde_json::json!({"src": srcs[bad].1, "pos": 0, "query": "all", "origin": origin, "variant": srcs[bad].0}),
                );
            }
            other => {
                out.count(&format!(
                    "front:abort-in-child:{}(skipped; belongs to C09)",
                    other.class()
                ));
                if out.samples.len() < 8 {
                    out.sample(serde_json::json!({"front_end_abort": srcs[bad].1, "how": other.class()}));
                }
            }
        }
        start = bad + 1;
    }
    okv
}

fn main() {
    {
        let a: Vec<String> = std::env::args().collect();
        if a.len() >= 3 && a[1] == "--child" {
            child(&a[2]);
            return;
        }
    }
    let args = Args::parse();
    if std::env::var("C20_LOUD").is_err() {
        install_hook();
    }
    if let Some(r) = &args.replay {
        let v: serde_json::Value =
            serde_json::from_str(&std::fs::read_to_string(r).unwrap()).unwrap();
        let case = v
            .get("case")
            .cloned()
            .unwrap_or(v.get("replay").cloned().unwrap_or(v.clone()));
        let src = case["src"].as_str().unwrap().to_string();
        let mut out = Out::new(&args.out);
        let mut cx = Ctx {
            out: &mut out,
            verbose: true,
            pending: vec![],
        };
        run_variant(&mut cx, "replay", "replay", &src);
        flush_splices(&mut cx);
        println!(
            "replayed {:?} (asked offset {}): {} oracle failures",
            src, case["pos"], out.n_oracle_fail
        );
        out.finish();
        return;
    }
    if args.extra.len() >= 2 && args.extra[0] == "--probe" {
        let mut out = Out::new(&args.out);
        let mut cx = Ctx {
            out: &mut out,
            verbose: true,
            pending: vec![],
        };
        run_variant(&mut cx, "probe", "probe", &args.extra[1]);
        flush_splices(&mut cx);
        out.finish();
        let o = std::fs::read_to_string(args.out.join("oracle.jsonl")).unwrap();
        print!("{}", o);
        return;
    }
    let mut out = Out::new(&args.out);
    let mut rng = gv::rng::Rng::new(args.seed, 20);
    let mut cx = Ctx {
        out: &mut out,
        verbose: false,
        pending: vec![],
    };

    // corpus first
    for (i, src) in CORPUS.iter().enumerate() {
        run_variant(&mut cx, &format!("corpus{}", i), "complete", src);
    }
    if let Ok(rd) = std::fs::read_dir("corpus/C20") {
        let mut files: Vec<_> = rd.filter_map(|e| e.ok()).map(|e| e.path()).collect();
        files.sort();
        for f in files {
            if let Ok(s) = std::fs::read_to_string(&f) {
                run_variant(&mut cx, &format!("{}", f.display()), "complete", &s);
            }
        }
    }

    flush_splices(&mut cx);
    let n_prog = if args.thorough() { 1500 } else { 90 };
    for i in 0..n_prog {
        let depth = 2 + rng.below(3) as u32;
        // 3 of 4 programs stay inside the modelled fragment
        let extended = rng.chance(1, 4);
        let p = gen::program(&mut rng, depth, extended);
        if p.text().len() > 260 {
            cx.out.count("generated:too-long(skipped)");
            continue;
        }
        cx.out.count("generated-programs");
        let vs = gen::variants(&p);
        let origin = format!("gen{}", i);
        let okv = screen(cx.out, &origin, &vs);
        for ((vname, text), ok) in vs.iter().zip(okv) {
            if ok {
                run_variant(&mut cx, &origin, vname, text);
            }
        }
        flush_splices(&mut cx);
    }
    out.finish();
}
