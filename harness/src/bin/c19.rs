//! C19 — standard library structures, codecs and derived instances obey their models.
//!
//! The REAL std code runs inside a gluon VM: `c19/driver.glu` is compiled once and its functions are
//! called from Rust with generated inputs (map op sequences, lists, arrays, strings, JSON values);
//! for `#[derive(Eq, Show)]` a gluon program with freshly generated algebraic types is compiled per
//! batch. Every case goes to the Lean model (cases.txt / impl.txt) AND to a model-independent oracle
//! written against Rust std (`BTreeMap`, `sort`, `char`-level string semantics, `serde_json`).
use gluon::vm::api::FunctionRef;
use gluon::{RootedThread, ThreadExt};
use gv::rng::Rng;
use gv::{quote, quote_bytes, Args, Out};
use serde_json::json;
use std::collections::BTreeMap;

const DRIVER: &str = include_str!("c19/driver.glu");

pub struct Drv {
    pub root: RootedThread,
    pub th: RootedThread,
    pub resets: u64,
}

/// Gluon errors the property allows (documented failure modes of the primitives).
fn expected_error(e: &str) -> bool {
    e.contains("is out of range")
        || e.contains("does not lie on a character boundary")
        || e.contains("slice index starts at")
}

macro_rules! call {
    ($drv:expr, $name:expr, fn($($t:ty),*) -> $r:ty, $($a:expr),*) => {{
        let res: Result<$r, String> = {
            let f: Result<FunctionRef<fn($($t),*) -> $r>, _> = $drv.th.get_global(concat!("c19drv.", $name));
            match f {
                Ok(mut f) => f.call($($a),*).map_err(|e| e.to_string()),
                Err(e) => Err(format!("get_global: {}", e)),
            }
        };
        if res.is_err() {
            // a failed call leaves stale values on the thread's stack (C06 / D5): continue on a new thread
            $drv.th = $drv.root.new_thread().unwrap();
            $drv.resets += 1;
        }
        res
    }};
}

#[path = "c19/derive.rs"]
mod derive;
#[path = "c19/typed.rs"]
mod typed;
#[path = "c19/jtext.rs"]
mod jtext;

impl Drv {
    pub fn new() -> Drv {
        // C19_STD_ROOT=<dir containing std/>: run against a (mutated) copy of the std sources – used only
        // to try out that the oracle and the correspondence notice a changed std (see notes/C19.md)
        let root = match std::env::var("C19_STD_ROOT") {
            Ok(dir) => {
                let vm = gluon::VmBuilder::new().import_paths(Some(vec![dir.into()])).build();
                // the std sources are compiled into the gluon crate; read them from the directory instead
                vm.get_database_mut().set_use_standard_lib(false);
                vm
            }
            Err(_) => gv::vm::new_vm(),
        };
        root.load_script("c19drv", DRIVER)
            .unwrap_or_else(|e| panic!("driver.glu does not compile: {}", e));
        let th = root.new_thread().unwrap();
        Drv { root, th, resets: 0 }
    }
}

fn ints(xs: &[i64]) -> String {
    let v: Vec<String> = xs.iter().map(|i| i.to_string()).collect();
    format!("({})", v.join(" "))
}
fn ok_ints(xs: &[i64]) -> String {
    let mut s = String::from("(ok");
    for i in xs {
        s.push_str(&format!(" {}", i));
    }
    s.push(')');
    s
}

fn fold_f(acc: i64, x: i64) -> i64 {
    (acc * 31 + x) % 1000003
}

// ------------------------------------------------------------------------------------------ map

/// Parse the derived `Show` rendering of a `Map Int Int` back into (key, value) in-order, checking
/// the shape grammar. Returns None when the text is not `Tip | Bin (k) (v) (l) (r)`.
fn parse_map_show(s: &str) -> Option<Vec<(i64, i64)>> {
    fn go<'a>(s: &'a str, out: &mut Vec<(i64, i64)>) -> Option<&'a str> {
        if let Some(r) = s.strip_prefix("Tip") {
            return Some(r);
        }
        let r = s.strip_prefix("Bin (")?;
        let e = r.find(')')?;
        let k: i64 = r[..e].parse().ok()?;
        let r = r[e + 1..].strip_prefix(" (")?;
        let e = r.find(')')?;
        let v: i64 = r[..e].parse().ok()?;
        let r = r[e + 1..].strip_prefix(" (")?;
        let r = go(r, out)?;
        let r = r.strip_prefix(") (")?;
        // in-order: left subtree was pushed already
        out.push((k, v));
        let r = go(r, out)?;
        r.strip_prefix(")")
    }
    let mut out = vec![];
    let rest = go(s, &mut out)?;
    if rest.is_empty() {
        Some(out)
    } else {
        None
    }
}

fn gen_map_ops(rng: &mut Rng, thorough: bool) -> Vec<i64> {
    let n = match rng.below(10) {
        0 => rng.below(4),
        1..=5 => rng.below(40),
        _ => rng.below(201),
    } as usize;
    let _ = thorough;
    let range = *rng.pick(&[3i64, 10, 50, 1000]);
    let pattern = rng.below(5); // 0,1 random  2 ascending  3 descending  4 zig-zag
    let mut ops = Vec::with_capacity(3 * n);
    let mut next = 0i64;
    for i in 0..n {
        let k = match pattern {
            2 => {
                next += rng.range(0, 2);
                next
            }
            3 => {
                next -= rng.range(0, 2);
                next
            }
            4 => {
                if i % 2 == 0 {
                    (i as i64) / 2
                } else {
                    range - (i as i64) / 2
                }
            }
            _ => rng.range(-range, range),
        };
        let v = rng.range(-100, 100);
        let op = match rng.below(100) {
            0..=59 => 0,
            60..=84 => 1,
            85..=87 => 2,
            88..=89 => 3,
            90..=94 => 4,
            _ => 5,
        };
        ops.extend_from_slice(&[op, k, v]);
    }
    ops
}

fn run_map(drv: &mut Drv, out: &mut Out, ops: &[i64], verbose: bool) {
    let replay = json!({"area": "map", "ops": ops});
    let res = call!(drv, "map_run", fn(Vec<i64>) -> Vec<i64>, ops.to_vec());
    let shape = call!(drv, "map_show", fn(Vec<i64>) -> String, ops.to_vec());
    let folds = call!(drv, "map_folds", fn(Vec<i64>) -> Vec<i64>, ops.to_vec());
    let req = format!(
        "map{}",
        ops.iter().map(|i| format!(" {}", i)).collect::<String>()
    );
    let (res, shape, folds) = match (res, shape, folds) {
        (Ok(a), Ok(b), Ok(c)) => (a, b, c),
        (a, b, c) => {
            let e = format!("{:?} {:?} {:?}", a.err(), b.err(), c.err());
            out.oracle_fail("map:error", &format!("std.map operation failed: {}", e), replay);
            out.case(&req, "error");
            return;
        }
    };
    if verbose {
        println!("results {:?}\nshape {}\nfolds {:?}", res, shape, folds);
    }
    // ---- oracle: BTreeMap
    let mut bt: BTreeMap<i64, i64> = BTreeMap::new();
    let mut expect: Vec<i64> = vec![];
    let mut kinds = [0u32; 6];
    for t in ops.chunks(3) {
        if t.len() < 3 {
            break;
        }
        let (op, k, v) = (t[0], t[1], t[2]);
        kinds[op.clamp(0, 5) as usize] += 1;
        match op {
            0 => {
                bt.insert(k, v);
            }
            1 => match bt.get(&k) {
                Some(x) => expect.extend_from_slice(&[1, *x]),
                None => expect.push(0),
            },
            2 => {
                expect.push(bt.len() as i64);
                for (k, v) in &bt {
                    expect.extend_from_slice(&[*k, *v]);
                }
            }
            3 => {
                expect.push(bt.len() as i64);
                expect.extend(bt.keys());
                expect.extend(bt.values());
            }
            4 => {
                bt.insert(k, v);
            }
            _ => {
                bt.entry(k).or_insert(v);
            }
        }
    }
    if res != expect {
        // which kind of observation differs first
        let pos = res.iter().zip(&expect).position(|(a, b)| a != b).unwrap_or(res.len().min(expect.len()));
        out.oracle_fail(
            "map:observations-differ-from-BTreeMap",
            &format!("find/to_list/keys/values results differ from BTreeMap at output position {}", pos),
            replay.clone(),
        );
    }
    match parse_map_show(&shape) {
        None => out.oracle_fail("map:show-unparseable", "derived Show of Map is not `Tip | Bin (k) (v) (l) (r)`", replay.clone()),
        Some(inorder) => {
            if !inorder.windows(2).all(|w| w[0].0 < w[1].0) {
                out.oracle_fail("map:not-a-search-tree", "in-order keys of the tree are not strictly ascending", replay.clone());
            } else if inorder != bt.iter().map(|(k, v)| (*k, *v)).collect::<Vec<_>>() {
                out.oracle_fail("map:tree-content", "tree content differs from BTreeMap", replay.clone());
            }
        }
    }
    let vals: Vec<i64> = bt.values().cloned().collect();
    let exp_folds = vec![
        vals.iter().fold(7, |a, x| fold_f(a, *x)),
        vals.iter().rev().fold(7, |a, x| fold_f(a, *x)),
        vals.iter().fold(7, |a, x| fold_f(a, *x * 2 + 1)),
        1,
    ];
    if folds != exp_folds {
        out.oracle_fail("map:folds", "foldl/foldr/functor.map/eq on the map differ from the key-ordered value sequence", replay.clone());
    }
    let n = ops.len() / 3;
    out.count(&format!("map:len:{}", if n == 0 { "0".into() } else if n < 10 { "1-9".to_string() } else if n < 50 { "10-49".into() } else { "50-200".into() }));
    for (i, k) in kinds.iter().enumerate() {
        out.add(&format!("map:op{}", i), *k as u64);
    }
    if n >= 3 {
        let mut h = std::collections::hash_map::DefaultHasher::new();
        std::hash::Hash::hash(&shape, &mut h);
        out.class(format!("map:{}:{:x}", bt.len(), std::hash::Hasher::finish(&h) & 0xffff_ffff));
    }
    if out.n_cases % 400 == 3 {
        out.sample(json!({"request": req.chars().take(200).collect::<String>(), "shape": shape.chars().take(120).collect::<String>()}));
    }
    out.case(&req, &format!("({} {} {})", ints(&res), quote(&shape), ints(&folds)));
}

// ------------------------------------------------------------------------------- lists / arrays

fn gen_ints(rng: &mut Rng, nonneg: bool) -> Vec<i64> {
    let n = match rng.below(10) {
        0 => 0,
        1 => 1,
        2 => 2,
        3..=6 => rng.below(12),
        _ => rng.below(61),
    } as usize;
    let range = *rng.pick(&[1i64, 3, 20, 1000, 1_000_000]);
    let pattern = rng.below(6);
    (0..n)
        .map(|i| match pattern {
            0 => i as i64,          // already sorted
            1 => (n - i) as i64,    // reversed
            2 => 7,                 // all equal
            _ => {
                if nonneg {
                    rng.range(0, range)
                } else {
                    rng.range(-range, range)
                }
            }
        })
        .collect()
}

fn show_ints(xs: &[i64]) -> String {
    let v: Vec<String> = xs.iter().map(|i| i.to_string()).collect();
    format!("[{}]", v.join(", "))
}

fn run_list(drv: &mut Drv, out: &mut Out, op: i64, xs: &[i64], ys: &[i64], p: i64, q: i64, verbose: bool) {
    let replay = json!({"area": "list", "op": op, "xs": xs, "ys": ys, "p": p, "q": q});
    let req = format!("list {} {} {} {} {}", op, ints(xs), ints(ys), p, q);
    let res = call!(drv, "list_run", fn(i64, Vec<i64>, Vec<i64>, i64, i64) -> Vec<i64>, op, xs.to_vec(), ys.to_vec(), p, q);
    if verbose {
        println!("{:?}", res);
    }
    let name = ["sort", "sort-by-key", "filter-lt", "filter-rem", "foldl", "foldr", "foldl-cons", "append", "map", "flat_map", "compare-eq", "foldr-cons"][op.clamp(0, 11) as usize];
    let res = match res {
        Ok(r) => r,
        Err(e) => {
            out.oracle_fail(&format!("list:error:{}", name), &format!("std.list {} failed: {}", name, e.lines().next().unwrap_or("")), replay);
            out.case(&req, "error");
            return;
        }
    };
    let expect: Option<Vec<i64>> = match op {
        0 => {
            let mut v = xs.to_vec();
            v.sort();
            Some(v)
        }
        1 => {
            // sorted by key, and a permutation (stability is not demanded by the property)
            let sorted = res.windows(2).all(|w| w[0] / 100 <= w[1] / 100);
            let mut a = res.clone();
            let mut b = xs.to_vec();
            a.sort();
            b.sort();
            if !sorted || a != b {
                out.oracle_fail("list:sort-by-key", "sort with a custom Ord: result is not ordered by key or not a permutation", replay.clone());
            }
            None
        }
        2 => Some(xs.iter().cloned().filter(|x| *x < p).collect()),
        3 => Some(xs.iter().cloned().filter(|x| *x % p == q).collect()),
        4 => Some(vec![xs.iter().fold(p, |a, x| fold_f(a, *x))]),
        5 => Some(vec![xs.iter().rev().fold(p, |a, x| fold_f(a, *x))]),
        6 => Some(xs.iter().rev().cloned().collect()),
        7 => Some([xs, ys].concat()),
        8 => Some(xs.iter().map(|x| x * 2 + 1).collect()),
        9 => Some(xs.iter().flat_map(|x| vec![*x, *x + p]).collect()),
        10 => Some(vec![
            match xs.cmp(ys) {
                std::cmp::Ordering::Less => -1,
                std::cmp::Ordering::Equal => 0,
                std::cmp::Ordering::Greater => 1,
            },
            (xs == ys) as i64,
        ]),
        _ => Some(xs.to_vec()),
    };
    if let Some(e) = expect {
        if e != res {
            out.oracle_fail(&format!("list:{}", name), &format!("std.list {} differs from its mathematical definition (Rust std)", name), replay.clone());
        }
    }
    out.count(&format!("list:{}", name));
    if xs.len() >= 2 {
        out.class(format!("list:{}:{}:{}", name, xs.len().min(8), res.len().min(8)));
    }
    out.case(&req, &ok_ints(&res));
}

fn run_arr(drv: &mut Drv, out: &mut Out, op: i64, xs: &[i64], ys: &[i64], p: i64, q: i64, verbose: bool) {
    let replay = json!({"area": "arr", "op": op, "xs": xs, "ys": ys, "p": p, "q": q});
    let req = format!("arr {} {} {} {} {}", op, ints(xs), ints(ys), p, q);
    let res = call!(drv, "arr_run", fn(i64, Vec<i64>, Vec<i64>, i64, i64) -> Vec<i64>, op, xs.to_vec(), ys.to_vec(), p, q);
    if verbose {
        println!("{:?}", res);
    }
    let name = ["index", "slice", "append", "len", "foldl", "foldr", "compare-eq", "map", "semigroup"][op.clamp(0, 8) as usize];
    let expect: Result<Vec<i64>, ()> = match op {
        0 => {
            if p >= 0 && (p as usize) < xs.len() {
                Ok(vec![xs[p as usize]])
            } else {
                Err(())
            }
        }
        1 => {
            if 0 <= p && p <= q && (q as usize) <= xs.len() {
                Ok(xs[p as usize..q as usize].to_vec())
            } else {
                Err(())
            }
        }
        2 | 8 => Ok([xs, ys].concat()),
        3 => Ok(vec![xs.len() as i64, xs.is_empty() as i64]),
        4 => Ok(vec![xs.iter().fold(p, |a, x| fold_f(a, *x))]),
        5 => Ok(vec![xs.iter().rev().fold(p, |a, x| fold_f(a, *x))]),
        6 => Ok(vec![
            match xs.cmp(ys) {
                std::cmp::Ordering::Less => -1,
                std::cmp::Ordering::Equal => 0,
                std::cmp::Ordering::Greater => 1,
            },
            (xs == ys) as i64,
        ]),
        _ => Ok(xs.iter().map(|x| x * 2 + 1).collect()),
    };
    let payload = match &res {
        Ok(r) => ok_ints(r),
        Err(e) if expected_error(e) => "err".to_string(),
        Err(e) => format!("(unexpected {})", quote(e.lines().next().unwrap_or(""))),
    };
    let agree = match (&res, &expect) {
        (Ok(a), Ok(b)) => a == b,
        (Err(e), Err(())) => expected_error(e),
        _ => false,
    };
    if !agree {
        out.oracle_fail(&format!("array:{}", name), &format!("std.array {} differs from the slice semantics of Rust std", name), replay);
    }
    out.count(&format!("array:{}:{}", name, if res.is_ok() { "ok" } else { "err" }));
    if xs.len() >= 2 {
        out.class(format!("arr:{}:{}:{}", name, xs.len().min(8), res.is_ok()));
    }
    out.case(&req, &payload);
}

// -------------------------------------------------------------------------------------- strings

const ALPHABET: &[char] = &[
    'a', 'b', 'c', 'a', 'b', 'Z', '0', ' ', ' ', '\n', '\t', '"', '\\', '(', ')', '\0', '\u{7f}',
    'é', 'ß', 'Ω', '\u{a0}', '\u{80}', '\u{7ff}',
    '€', '中', '\u{fffd}', '\u{2028}', '\u{3000}', '\u{800}', '\u{ffff}', '\u{d7ff}', '\u{e000}',
    '😀', '𝄞', '\u{10000}', '\u{10ffff}',
];

pub fn gen_string(rng: &mut Rng, max: u64) -> String {
    let n = match rng.below(8) {
        0 => 0,
        1 => 1,
        _ => rng.below(max + 1),
    };
    let ascii_only = rng.chance(1, 5);
    (0..n)
        .map(|_| {
            if ascii_only {
                ALPHABET[rng.below(17) as usize]
            } else {
                *rng.pick(ALPHABET)
            }
        })
        .collect()
}

/// byte offsets that are boundaries between scalar values (incl. 0 and len)
fn boundaries(s: &str) -> Vec<usize> {
    let mut v = vec![0];
    let mut o = 0;
    for c in s.chars() {
        o += c.len_utf8();
        v.push(o);
    }
    v
}

fn find_bytes(s: &[u8], t: &[u8], last: bool) -> Option<usize> {
    if t.len() > s.len() {
        return None;
    }
    let mut it = 0..=(s.len() - t.len());
    if last {
        it.rev().find(|&i| &s[i..i + t.len()] == t)
    } else {
        it.find(|&i| &s[i..i + t.len()] == t)
    }
}

fn run_sint(drv: &mut Drv, out: &mut Out, op: i64, s: &str, t: &str, i: i64, verbose: bool) {
    let replay = json!({"area": "sint", "op": op, "s": s, "t": t, "i": i});
    let req = format!("sint {} {} {} {}", op, quote_bytes(s.as_bytes()), quote_bytes(t.as_bytes()), i);
    let res = call!(drv, "str_int", fn(i64, String, String, i64) -> i64, op, s.to_string(), t.to_string(), i);
    if verbose {
        println!("{:?}", res);
    }
    let name = ["len", "char_at", "find", "rfind", "compare", "is_char_boundary", "starts_with", "ends_with", "contains", "eq", "is_empty"][op.clamp(0, 10) as usize];
    let b = boundaries(s);
    let sc: Vec<char> = s.chars().collect();
    let tc: Vec<char> = t.chars().collect();
    let expect: Result<i64, ()> = match op {
        0 => Ok(sc.iter().map(|c| c.len_utf8() as i64).sum()),
        1 => {
            // the scalar value that starts at byte offset i
            match b.iter().position(|&o| o as i64 == i) {
                Some(k) if k < sc.len() => Ok(sc[k] as u32 as i64),
                _ => Err(()),
            }
        }
        2 => Ok(find_bytes(s.as_bytes(), t.as_bytes(), false).map(|x| x as i64).unwrap_or(-1)),
        3 => Ok(find_bytes(s.as_bytes(), t.as_bytes(), true).map(|x| x as i64).unwrap_or(-1)),
        4 => Ok(match sc.cmp(&tc) {
            std::cmp::Ordering::Less => -1,
            std::cmp::Ordering::Equal => 0,
            std::cmp::Ordering::Greater => 1,
        }),
        5 => Ok(b.iter().any(|&o| o as i64 == i) as i64),
        6 => Ok((sc.len() >= tc.len() && sc[..tc.len()] == tc[..]) as i64),
        7 => Ok((sc.len() >= tc.len() && sc[sc.len() - tc.len()..] == tc[..]) as i64),
        8 => Ok((tc.is_empty() || sc.windows(tc.len()).any(|w| w == &tc[..])) as i64),
        9 => Ok((sc == tc) as i64),
        _ => Ok(sc.is_empty() as i64),
    };
    let payload = match &res {
        Ok(r) => format!("(ok {})", r),
        Err(e) if expected_error(e) => "err".to_string(),
        Err(e) => format!("(unexpected {})", quote(e.lines().next().unwrap_or(""))),
    };
    let agree = match (&res, &expect) {
        (Ok(a), Ok(b)) => a == b,
        (Err(e), Err(())) => expected_error(e),
        _ => false,
    };
    if !agree {
        out.oracle_fail(&format!("string:{}", name), &format!("std.string {} differs from Unicode scalar-value semantics", name), replay);
    }
    out.count(&format!("string:{}:{}", name, if res.is_ok() { "ok" } else { "err" }));
    if s.len() > sc.len() {
        out.class(format!("sint:{}:{}:{}", name, sc.len().min(6), payload.chars().take(8).collect::<String>()));
    }
    out.case(&req, &payload);
}

fn run_sstr(drv: &mut Drv, out: &mut Out, op: i64, s: &str, t: &str, i: i64, j: i64, verbose: bool) {
    let replay = json!({"area": "sstr", "op": op, "s": s, "t": t, "i": i, "j": j});
    let b = boundaries(s);
    let is_b = |x: i64| b.iter().any(|&o| o as i64 == x);
    if op == 0 && is_b(i) && is_b(j) && i > j {
        // `&s[i..j]` panics inside the extern "C" primitive and aborts the process: property C06 (D3)
        out.count("skipped:string.slice start>end aborts the host (C06/D3)");
        return;
    }
    let req = format!("sstr {} {} {} {} {}", op, quote_bytes(s.as_bytes()), quote_bytes(t.as_bytes()), i, j);
    let res = call!(drv, "str_str", fn(i64, String, String, i64, i64) -> String, op, s.to_string(), t.to_string(), i, j);
    if verbose {
        println!("{:?}", res);
    }
    let name = ["slice", "append", "split_at.0", "split_at.1", "show", "semigroup", "trim"][op.clamp(0, 6) as usize];
    let sc: Vec<char> = s.chars().collect();
    let pos = |x: i64| b.iter().position(|&o| o as i64 == x);
    let expect: Result<String, ()> = match op {
        0 => match (pos(i), pos(j)) {
            (Some(a), Some(c)) if a <= c => Ok(sc[a..c].iter().collect()),
            _ => Err(()),
        },
        1 | 5 => Ok(sc.iter().chain(t.chars().collect::<Vec<_>>().iter()).collect()),
        2 => pos(i).map(|a| sc[..a].iter().collect()).ok_or(()),
        3 => pos(i).map(|a| sc[a..].iter().collect()).ok_or(()),
        4 => Ok(format!("\"{}\"", s)),
        _ => {
            let mut a = 0;
            let mut c = sc.len();
            while a < c && sc[a].is_whitespace() {
                a += 1;
            }
            while c > a && sc[c - 1].is_whitespace() {
                c -= 1;
            }
            Ok(sc[a..c].iter().collect())
        }
    };
    let payload = match &res {
        Ok(r) => format!("(ok {})", quote_bytes(r.as_bytes())),
        Err(e) if expected_error(e) => "err".to_string(),
        Err(e) => format!("(unexpected {})", quote(e.lines().next().unwrap_or(""))),
    };
    let agree = match (&res, &expect) {
        (Ok(a), Ok(b)) => a == b,
        (Err(e), Err(())) => expected_error(e),
        _ => false,
    };
    if !agree {
        out.oracle_fail(&format!("string:{}", name), &format!("std.string {} differs from Unicode scalar-value semantics", name), replay);
    }
    out.count(&format!("string:{}:{}", name, if res.is_ok() { "ok" } else { "err" }));
    if s.len() > sc.len() {
        out.class(format!("sstr:{}:{}:{}", name, sc.len().min(6), res.is_ok()));
    }
    if op == 6 {
        // trim is not modelled in Lean (needs the White_Space table): oracle only
        out.count("oracle-only:string.trim");
        return;
    }
    out.case(&req, &payload);
}

// ----------------------------------------------------------------------------------------- JSON

fn gen_json(rng: &mut Rng, depth: u32) -> serde_json::Value {
    use serde_json::Value as V;
    let k = if depth == 0 { rng.below(5) } else { rng.below(8) };
    match k {
        0 => V::Null,
        1 => V::Bool(rng.chance(1, 2)),
        2 => {
            let i = match rng.below(6) {
                0 => i64::MAX,
                1 => i64::MIN,
                2 => 0,
                3 => rng.next() as i64,
                _ => rng.range(-1000, 1000),
            };
            V::Number(i.into())
        }
        3 => {
            let f = match rng.below(8) {
                0 => -0.0,
                1 => 1e300,
                2 => 5e-324,
                3 => 3.0,
                4 => 0.1 + 0.2,
                5 => f64::MAX,
                _ => loop {
                    let f = f64::from_bits(rng.next());
                    if f.is_finite() {
                        break f;
                    }
                },
            };
            V::Number(serde_json::Number::from_f64(f).unwrap())
        }
        4 => V::String(gen_string(rng, 8)),
        5 | 6 => V::Array((0..rng.below(5)).map(|_| gen_json(rng, depth - 1)).collect()),
        _ => {
            let mut m = serde_json::Map::new();
            for _ in 0..rng.below(6) {
                let key = match rng.below(4) {
                    0 => gen_string(rng, 3),
                    _ => rng.pick(&["a", "b", "c", "", "key", "é", "a b", "z"]).to_string(),
                };
                m.insert(key, gen_json(rng, depth - 1));
            }
            V::Object(m)
        }
    }
}

/// 0 = exactly the same (floats by bit pattern, ints never equal to floats); 1 = same except that some
/// floats differ (by value); 2 = different.
fn json_diff(a: &serde_json::Value, b: &serde_json::Value) -> u8 {
    use serde_json::Value as V;
    match (a, b) {
        (V::Null, V::Null) => 0,
        (V::Bool(x), V::Bool(y)) => if x == y { 0 } else { 2 },
        (V::Number(x), V::Number(y)) => {
            if x.is_f64() && y.is_f64() {
                if x.as_f64().unwrap().to_bits() == y.as_f64().unwrap().to_bits() { 0 } else { 1 }
            } else if x.is_f64() || y.is_f64() {
                2
            } else if x.as_i64() == y.as_i64() && x.as_i64().is_some() { 0 } else { 2 }
        }
        (V::String(x), V::String(y)) => if x == y { 0 } else { 2 },
        (V::Array(x), V::Array(y)) => {
            if x.len() != y.len() { return 2; }
            x.iter().zip(y).map(|(a, b)| json_diff(a, b)).max().unwrap_or(0)
        }
        (V::Object(x), V::Object(y)) => {
            if x.len() != y.len() { return 2; }
            x.iter().zip(y).map(|((k1, a), (k2, b))| if k1 == k2 { json_diff(a, b) } else { 2 }).max().unwrap_or(0)
        }
        _ => 2,
    }
}

/// Replay files are read back with serde_json, whose float parsing is the very thing that is inexact:
/// floats travel as bit patterns.
pub fn bits_encode(v: &serde_json::Value) -> serde_json::Value {
    use serde_json::Value as V;
    match v {
        V::Number(n) if n.is_f64() => json!({"$f64bits": format!("{:016x}", n.as_f64().unwrap().to_bits())}),
        V::Array(a) => V::Array(a.iter().map(bits_encode).collect()),
        V::Object(o) => V::Object(o.iter().map(|(k, v)| (k.clone(), bits_encode(v))).collect()),
        _ => v.clone(),
    }
}
pub fn bits_decode(v: &serde_json::Value) -> serde_json::Value {
    use serde_json::Value as V;
    match v {
        V::Object(o) if o.len() == 1 && o.contains_key("$f64bits") => {
            let b = u64::from_str_radix(o["$f64bits"].as_str().unwrap_or("0"), 16).unwrap_or(0);
            serde_json::Number::from_f64(f64::from_bits(b)).map(V::Number).unwrap_or(V::Null)
        }
        V::Array(a) => V::Array(a.iter().map(bits_decode).collect()),
        V::Object(o) => V::Object(o.iter().map(|(k, v)| (k.clone(), bits_decode(v))).collect()),
        _ => v.clone(),
    }
}

/// Replace every JSON number token that has a fraction or exponent by `F` (outside strings).
pub fn mask_floats(t: &str) -> String {
    let b: Vec<char> = t.chars().collect();
    let mut o = String::new();
    let mut i = 0;
    while i < b.len() {
        let c = b[i];
        if c == '"' {
            o.push(c);
            i += 1;
            while i < b.len() {
                o.push(b[i]);
                if b[i] == '\\' {
                    i += 1;
                    if i < b.len() { o.push(b[i]); }
                } else if b[i] == '"' {
                    break;
                }
                i += 1;
            }
            i += 1;
        } else if c == '-' || c.is_ascii_digit() {
            let st = i;
            while i < b.len() && (b[i].is_ascii_digit() || "+-.eE".contains(b[i])) { i += 1; }
            let tok: String = b[st..i].iter().collect();
            if tok.contains('.') || tok.contains('e') || tok.contains('E') { o.push('F') } else { o.push_str(&tok) }
        } else {
            o.push(c);
            i += 1;
        }
    }
    o
}

pub const FLOAT_FP: &str = "json:de-float-off-by-ulp";
pub const FLOAT_WHAT: &str = "std.json.de reads a float printed by std.json.ser as a different float (serde_json without float_roundtrip): de (ser v) /= v";

fn json_kind(v: &serde_json::Value) -> String {
    use serde_json::Value as V;
    match v {
        V::Null => "n".into(),
        V::Bool(_) => "b".into(),
        V::Number(n) => if n.is_f64() { "f".into() } else { "i".into() },
        V::String(_) => "s".into(),
        V::Array(a) => format!("[{}]", a.iter().take(3).map(json_kind).collect::<String>()),
        V::Object(o) => format!("{{{}}}", o.values().take(3).map(json_kind).collect::<String>()),
    }
}

fn run_json(drv: &mut Drv, out: &mut Out, v: &serde_json::Value, verbose: bool) {
    let replay = json!({"area": "json", "value": bits_encode(v)});
    // 1. Value --marshal--> gluon --std.json.ser.to_string--> text
    let text = call!(drv, "json_ser_value", fn(serde_json::Value) -> String, v.clone());
    if verbose {
        println!("ser: {:?}", text);
    }
    out.count("json:value-roundtrip");
    let text = match text {
        Ok(t) => t,
        Err(e) => {
            out.oracle_fail("json:ser-error", &format!("serialising a JSON-representable value failed: {}", e.lines().next().unwrap_or("")), replay);
            return;
        }
    };
    // the canonical compact text (serde_json printing is exact; its *parsing* of floats is not)
    if text != serde_json::to_string(v).unwrap() {
        out.oracle_fail("json:ser-text", "text produced by std.json.ser is not the compact JSON text of the value", replay.clone());
    }
    // 2. text --std.json.de--> gluon Value --marshal--> Value : must be the value we started from
    let back = call!(drv, "json_de_value", fn(String) -> serde_json::Value, text.clone());
    if verbose {
        println!("de: {:?}", back);
    }
    let mut float_off = false;
    match back {
        Ok(b) => match json_diff(&b, v) {
            0 => {}
            1 => {
                float_off = true;
                out.oracle_fail(FLOAT_FP, FLOAT_WHAT, replay.clone());
            }
            _ => out.oracle_fail("json:roundtrip-value", "de (ser v) is not v", replay.clone()),
        },
        Err(e) => out.oracle_fail("json:de-error", &format!("deserialising serialised text failed: {}", e.lines().next().unwrap_or("")), replay.clone()),
    }
    // 3. entirely inside gluon: text -> Value -> text -> Value -> text
    match call!(drv, "json_rt", fn(String) -> Vec<String>, text.clone()) {
        Ok(ts) if ts.len() == 2 && ts[0] == text && ts[1] == text => {}
        Ok(ts) if float_off && ts.len() == 2 && mask_floats(&ts[0]) == mask_floats(&text) && mask_floats(&ts[1]) == mask_floats(&text) => {}
        _ => out.oracle_fail("json:roundtrip-text", "ser (de t) differs from t for t = ser v", replay.clone()),
    }
    out.class(format!("json:{}{}", json_kind(v), if float_off { ":float-off" } else { "" }));
}

/// One bare float through the real `ser` then `de`; the bit pattern that comes back is the case payload
/// (the Lean side answers with `textCodec`).
fn run_json_float(drv: &mut Drv, out: &mut Out, bits: u64, verbose: bool) {
    let f = f64::from_bits(bits);
    let v = match serde_json::Number::from_f64(f) {
        Some(n) => serde_json::Value::Number(n),
        None => return,
    };
    let replay = json!({"area": "jfloat", "bits": format!("{:016x}", bits)});
    let text = call!(drv, "json_ser_value", fn(serde_json::Value) -> String, v.clone());
    let back = match &text {
        Ok(t) => call!(drv, "json_de_value", fn(String) -> serde_json::Value, t.clone()),
        Err(e) => Err(e.clone()),
    };
    if verbose {
        println!("ser: {:?}\nde: {:?}", text, back);
    }
    out.count("json:float-bits");
    let payload = match &back {
        Ok(serde_json::Value::Number(n)) if n.is_f64() => {
            let b = n.as_f64().unwrap().to_bits();
            if b != bits {
                out.oracle_fail(FLOAT_FP, FLOAT_WHAT, replay);
            }
            format!("(ok {})", b)
        }
        other => {
            out.oracle_fail("json:float-not-a-float", &format!("a float does not come back as a float: {:?}", other).chars().take(200).collect::<String>(), replay);
            "none".to_string()
        }
    };
    if f != 0.0 && f.abs() != 1.0 {
        out.class(format!("jfloat:exp{}", ((bits >> 52) & 0x7ff) / 64));
    }
    out.case(&format!("json float {}", bits), &payload);
}

// ----------------------------------------------------------------------------------------- main

fn replay(drv: &mut Drv, out: &mut Out, case: &serde_json::Value, verbose: bool) {
    let geti = |k: &str| case[k].as_i64().unwrap_or(0);
    let getv = |k: &str| -> Vec<i64> {
        case[k].as_array().map(|a| a.iter().filter_map(|x| x.as_i64()).collect()).unwrap_or_default()
    };
    let gets = |k: &str| case[k].as_str().unwrap_or("").to_string();
    match case["area"].as_str().unwrap_or("") {
        "map" => run_map(drv, out, &getv("ops"), verbose),
        "list" => run_list(drv, out, geti("op"), &getv("xs"), &getv("ys"), geti("p"), geti("q"), verbose),
        "arr" => run_arr(drv, out, geti("op"), &getv("xs"), &getv("ys"), geti("p"), geti("q"), verbose),
        "sint" => run_sint(drv, out, geti("op"), &gets("s"), &gets("t"), geti("i"), verbose),
        "sstr" => run_sstr(drv, out, geti("op"), &gets("s"), &gets("t"), geti("i"), geti("j"), verbose),
        "json" => run_json(drv, out, &bits_decode(&case["value"]), verbose),
        "jfloat" => run_json_float(drv, out, u64::from_str_radix(case["bits"].as_str().unwrap_or("0"), 16).unwrap_or(0), verbose),
        "derive" => derive::replay(drv, out, case),
        "typed" => typed::replay(drv, out, case),
        "jser" => jtext::replay_jser(drv, out, case),
        "jde" => jtext::replay_jde(drv, out, case),
        a => println!("unknown replay area {:?}", a),
    }
}

fn main() {
    gv::quiet_panics();
    let args = Args::parse();
    let mut out = Out::new(&args.out);
    let mut drv = Drv::new();
    if let Some(f) = &args.replay {
        let v: serde_json::Value = serde_json::from_str(&std::fs::read_to_string(f).unwrap()).unwrap();
        let case = if v.get("case").is_some() { v["case"].clone() } else { v["replay"].clone() };
        println!("replaying {}", case);
        replay(&mut drv, &mut out, &case, true);
        println!("oracle failures: {}", out.n_oracle_fail);
        out.finish();
        return;
    }
    // corpus first
    if let Ok(rd) = std::fs::read_dir("/verif/corpus/C19") {
        let mut files: Vec<_> = rd.filter_map(|e| e.ok()).map(|e| e.path()).collect();
        files.sort();
        for f in files {
            if let Ok(txt) = std::fs::read_to_string(&f) {
                if let Ok(v) = serde_json::from_str::<serde_json::Value>(&txt) {
                    let case = if v.get("case").is_some() { v["case"].clone() } else { v.clone() };
                    replay_quiet(&mut drv, &mut out, &case);
                    out.count("corpus");
                }
            }
        }
    }
    let big = args.thorough();
    let scale = |q: u64, t: u64| if big { t } else { q };

    // maps
    let mut rng = Rng::new(args.seed, 1901);
    run_map(&mut drv, &mut out, &[], false);
    for _ in 0..scale(500, 6000) {
        let ops = gen_map_ops(&mut rng, big);
        run_map(&mut drv, &mut out, &ops, false);
    }
    // lists
    let mut rng = Rng::new(args.seed, 1902);
    for _ in 0..scale(1200, 15000) {
        let op = rng.below(12) as i64;
        let nonneg = false;
        let mut xs = gen_ints(&mut rng, nonneg);
        let ys = if rng.chance(1, 3) {
            // a list sharing a prefix, for compare / eq
            let mut y = xs.clone();
            if !y.is_empty() && rng.chance(1, 2) {
                let k = rng.below(y.len() as u64) as usize;
                if rng.chance(1, 2) { y.truncate(k) } else { y[k] += rng.range(-1, 1) }
            }
            y
        } else {
            gen_ints(&mut rng, nonneg)
        };
        if op == 1 {
            // few keys, many ties that differ in the low digits
            let keys = rng.range(1, 4);
            for x in xs.iter_mut() {
                *x = rng.range(-keys, keys) * 100 + rng.range(0, 99) * if *x < 0 { -1 } else { 1 };
            }
        }
        let p = if op == 3 { rng.range(1, 5) } else if op == 2 { rng.range(-25, 25) } else { rng.range(-3, 9) };
        let q = rng.range(-(p.abs()), p.abs());
        run_list(&mut drv, &mut out, op, &xs, &ys, p, q, false);
        if out.n_cases % 23 == 0 {
            let s = call!(drv, "list_show", fn(Vec<i64>) -> String, xs.clone());
            let s = s.unwrap_or_else(|e| format!("error {}", e));
            if s != show_ints(&xs) {
                out.oracle_fail("list:show", "Show (List Int) is not `[a, b, …]`", json!({"area": "list", "op": 99, "xs": xs}));
            }
            out.case(&format!("lshow{}", xs.iter().map(|i| format!(" {}", i)).collect::<String>()), &quote(&s));
        }
    }
    // arrays
    let mut rng = Rng::new(args.seed, 1903);
    for _ in 0..scale(1000, 12000) {
        let op = rng.below(9) as i64;
        let xs = gen_ints(&mut rng, false);
        let ys = if rng.chance(1, 3) {
            let mut y = xs.clone();
            if !y.is_empty() && rng.chance(1, 2) {
                let k = rng.below(y.len() as u64) as usize;
                if rng.chance(1, 2) { y.truncate(k) } else { y[k] += rng.range(-1, 1) }
            }
            y
        } else {
            gen_ints(&mut rng, false)
        };
        let n = xs.len() as i64;
        let (p, q) = if op == 1 && rng.chance(1, 2) {
            let a = rng.range(0, n);
            (a, rng.range(a, n))
        } else if op <= 1 {
            (rng.range(-2, n + 2), rng.range(-2, n + 2))
        } else {
            (rng.range(-3, 9), 0)
        };
        run_arr(&mut drv, &mut out, op, &xs, &ys, p, q, false);
        if out.n_cases % 23 == 0 {
            let s = call!(drv, "arr_show", fn(Vec<i64>) -> String, xs.clone());
            let s = s.unwrap_or_else(|e| format!("error {}", e));
            if s != show_ints(&xs) {
                out.oracle_fail("array:show", "Show (Array Int) is not `[a, b, …]`", json!({"area": "arr", "op": 99, "xs": xs}));
            }
            out.case(&format!("ashow{}", xs.iter().map(|i| format!(" {}", i)).collect::<String>()), &quote(&s));
        }
    }
    // strings
    let mut rng = Rng::new(args.seed, 1904);
    for _ in 0..scale(2500, 30000) {
        let s = gen_string(&mut rng, 10);
        let sc: Vec<char> = s.chars().collect();
        let t = match rng.below(4) {
            0 if !sc.is_empty() => {
                let a = rng.below(sc.len() as u64 + 1) as usize;
                let b = a + rng.below((sc.len() - a) as u64 + 1) as usize;
                sc[a..b].iter().collect()
            }
            1 => String::new(),
            2 => {
                let mut t = s.clone();
                t.push(*rng.pick(ALPHABET));
                t
            }
            _ => gen_string(&mut rng, 3),
        };
        let n = s.len() as i64;
        let i = rng.range(-1, n + 1);
        let j = rng.range(-1, n + 1);
        if rng.chance(3, 5) {
            let op = *rng.pick(&[0i64, 1, 1, 1, 2, 3, 4, 5, 5, 5, 6, 7, 8, 9, 10]);
            run_sint(&mut drv, &mut out, op, &s, &t, i, false);
        } else {
            let op = *rng.pick(&[0i64, 0, 0, 0, 1, 2, 2, 3, 3, 4, 5, 6]);
            let (i, j) = if op == 0 && rng.chance(1, 2) {
                // two real boundaries, in order
                let b = boundaries(&s);
                let a = rng.below(b.len() as u64) as usize;
                let c = a + rng.below((b.len() - a) as u64) as usize;
                (b[a] as i64, b[c] as i64)
            } else if op == 0 && rng.chance(1, 2) {
                (i.min(j), i.max(j))
            } else {
                (i, j)
            };
            run_sstr(&mut drv, &mut out, op, &s, &t, i, j, false);
        }
    }
    // JSON (Value level)
    let mut rng = Rng::new(args.seed, 1905);
    for _ in 0..scale(600, 8000) {
        let v = gen_json(&mut rng, 3);
        run_json(&mut drv, &mut out, &v, false);
    }
    // bare floats: bit patterns through ser / de (correspondence with the model's `textCodec`)
    let mut rng = Rng::new(args.seed, 1908);
    run_json_float(&mut drv, &mut out, 0xdc0d6881c1e92ae4, false);
    for _ in 0..scale(500, 8000) {
        let bits = match rng.below(6) {
            0 => (rng.range(-1000, 1000) as f64 / 8.0).to_bits(),
            1 => rng.next() & 0x800f_ffff_ffff_ffff,          // subnormals
            2 => (rng.next() & 0x800f_ffff_ffff_ffff) | (0x7fe << 52), // largest exponents
            _ => rng.next(),
        };
        if f64::from_bits(bits).is_finite() {
            run_json_float(&mut drv, &mut out, bits, false);
        }
    }
    // typed JSON round trips through derived Serialize / Deserialize
    typed::run(&mut drv, &mut out, args.seed, big);
    // the JSON text layer on exactly-shaped values / arbitrary texts (correspondence with `StdJsonText`)
    let t0 = std::time::Instant::now();
    jtext::run_ser(&mut drv, &mut out, args.seed, big);
    let t1 = std::time::Instant::now();
    jtext::run_de(&mut drv, &mut out, args.seed, big);
    if std::env::var("C19_TIMING").is_ok() {
        eprintln!("jser {:?}  jde {:?}", t1 - t0, t1.elapsed());
    }
    // derived Eq / Show on generated algebraic types
    derive::run(&mut drv, &mut out, args.seed, big);

    out.stats.insert("thread_resets_after_error".into(), drv.resets.into());
    out.finish();
}

fn replay_quiet(drv: &mut Drv, out: &mut Out, case: &serde_json::Value) {
    replay(drv, out, case, false)
}
