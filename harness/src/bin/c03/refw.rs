//! Types, canonical forms and an independent algorithm W (the specification side of the
//! oracle).  Deliberately built differently from the Lean model: mutable bindings, level-based
//! generalisation, rows unified by label (Remy) with a *shared* fresh tail.
use super::E;

#[derive(Clone, Debug, PartialEq, Eq)]
pub enum Ty {
    V(usize),
    C(String),
    Ap(Box<Ty>, Box<Ty>),
    Ext(String, Box<Ty>, Box<Ty>),
    Nil,
}

pub fn c(s: &str) -> Ty {
    Ty::C(s.to_string())
}
pub fn ap(f: Ty, a: Ty) -> Ty {
    Ty::Ap(Box::new(f), Box::new(a))
}
pub fn func(a: Ty, b: Ty) -> Ty {
    ap(ap(c("->"), a), b)
}
pub fn rec(row: Ty) -> Ty {
    ap(c("Rec"), row)
}

pub fn show(t: &Ty) -> String {
    match t {
        Ty::V(n) => format!("(tv {})", n),
        Ty::C(s) => s.clone(),
        Ty::Ap(f, a) => format!("(ap {} {})", show(f), show(a)),
        Ty::Ext(l, t, r) => format!("(ext {} {} {})", l, show(t), show(r)),
        Ty::Nil => "nil".into(),
    }
}

fn canon_go(t: &Ty, m: &mut Vec<usize>) -> Ty {
    match t {
        Ty::V(n) => {
            let i = match m.iter().position(|x| x == n) {
                Some(i) => i,
                None => {
                    m.push(*n);
                    m.len() - 1
                }
            };
            Ty::V(i)
        }
        Ty::C(_) | Ty::Nil => t.clone(),
        Ty::Ap(f, a) => {
            let f2 = canon_go(f, m);
            ap(f2, canon_go(a, m))
        }
        Ty::Ext(l, t, r) => {
            let t2 = canon_go(t, m);
            Ty::Ext(l.clone(), Box::new(t2), Box::new(canon_go(r, m)))
        }
    }
}

/// Number the variables by first occurrence (pre-order, left to right).
pub fn canon(t: &Ty) -> Ty {
    canon_go(t, &mut vec![])
}

pub fn mentions(t: &Ty, name: &str) -> bool {
    match t {
        Ty::C(s) => s == name,
        Ty::Ap(f, a) => mentions(f, name) || mentions(a, name),
        Ty::Ext(_, t, r) => mentions(t, name) || mentions(r, name),
        _ => false,
    }
}

fn flatten(t: &Ty) -> (Vec<(String, Ty)>, Ty) {
    let mut fs = vec![];
    let mut cur = t.clone();
    loop {
        match cur {
            Ty::Ext(l, t, r) => {
                fs.push((l, *t));
                cur = *r;
            }
            other => return (fs, other),
        }
    }
}

fn build(fs: Vec<(String, Ty)>, tail: Ty) -> Ty {
    fs.into_iter().rev().fold(tail, |acc, (l, t)| Ty::Ext(l, Box::new(t), Box::new(acc)))
}

/// Sort the fields of every row by label (comparison modulo field order).
pub fn sort_rows(t: &Ty) -> Ty {
    match t {
        Ty::Ap(f, a) => ap(sort_rows(f), sort_rows(a)),
        Ty::Ext(..) => {
            let (fs, tail) = flatten(t);
            let mut fs: Vec<(String, Ty)> = fs.into_iter().map(|(l, t)| (l, sort_rows(&t))).collect();
            fs.sort_by(|a, b| a.0.cmp(&b.0));
            build(fs, sort_rows(&tail))
        }
        _ => t.clone(),
    }
}

/// `a` is an instance of `b`: some substitution of `b`'s variables gives `a` (rows by label).
pub fn instance_of(a: &Ty, b: &Ty) -> bool {
    fn go(a: &Ty, b: &Ty, m: &mut Vec<(usize, Ty)>) -> bool {
        match (a, b) {
            (_, Ty::V(n)) => match m.iter().find(|p| p.0 == *n) {
                Some(p) => sort_rows(&p.1) == sort_rows(a),
                None => {
                    m.push((*n, a.clone()));
                    true
                }
            },
            (Ty::C(x), Ty::C(y)) => x == y,
            (Ty::Nil, Ty::Nil) => true,
            (Ty::Ap(f, x), Ty::Ap(g, y)) => go(f, g, m) && go(x, y, m),
            (Ty::Ext(..), Ty::Ext(..)) | (Ty::Ext(..), Ty::Nil) | (Ty::Nil, Ty::Ext(..)) => {
                let (fa, ta) = flatten(a);
                let (fb, tb) = flatten(b);
                let mut left = fa.clone();
                for (l, t) in &fb {
                    match left.iter().position(|p| &p.0 == l) {
                        Some(i) => {
                            let (_, ta) = left.remove(i);
                            if !go(&ta, t, m) {
                                return false;
                            }
                        }
                        None => return false,
                    }
                }
                go(&build(left, ta), &tb, m)
            }
            _ => false,
        }
    }
    go(a, b, &mut vec![])
}

/// Gluon syntax of a canonical type, one outermost `forall`.
pub fn gluon_type(t: &Ty) -> String {
    fn vars(t: &Ty, v: &mut Vec<usize>) {
        match t {
            Ty::V(n) => {
                if !v.contains(n) {
                    v.push(*n)
                }
            }
            Ty::Ap(f, a) => {
                vars(f, v);
                vars(a, v)
            }
            Ty::Ext(_, t, r) => {
                vars(t, v);
                vars(r, v)
            }
            _ => {}
        }
    }
    // prec: 0 = anywhere, 1 = function argument side, 2 = type-application argument
    fn go(t: &Ty, prec: u8) -> String {
        match t {
            Ty::V(n) => format!("t{}", n),
            Ty::C(s) => s.clone(),
            Ty::Nil => "()".into(),
            Ty::Ext(..) => "<row>".into(),
            Ty::Ap(f, a) => {
                if let Ty::Ap(g, x) = &**f {
                    if **g == c("->") {
                        let s = format!("{} -> {}", go(x, 1), go(a, 0));
                        return if prec >= 1 { format!("({})", s) } else { s };
                    }
                }
                if **f == c("Rec") {
                    let (fs, tail) = flatten(a);
                    let tail_s = match &tail {
                        Ty::Nil => String::new(),
                        other => format!(" | {}", go(other, 0)),
                    };
                    if fs.is_empty() && tail == Ty::Nil {
                        return "()".into();
                    }
                    return format!(
                        "{{ {}{} }}",
                        fs.iter().map(|(l, t)| format!("{} : {}", l, go(t, 0))).collect::<Vec<_>>().join(", "),
                        tail_s
                    );
                }
                let s = format!("{} {}", go(f, 1), go(a, 2));
                if prec >= 2 {
                    format!("({})", s)
                } else {
                    s
                }
            }
        }
    }
    let mut v = vec![];
    vars(t, &mut v);
    if v.is_empty() {
        go(t, 0)
    } else {
        format!(
            "forall {} . {}",
            v.iter().map(|n| format!("t{}", n)).collect::<Vec<_>>().join(" "),
            go(t, 0)
        )
    }
}

// ---------------------------------------------------------------------------------------------
// algorithm W, level based

pub struct W {
    bind: Vec<Option<Ty>>,
    level: Vec<u32>,
    cur: u32,
    pub row_rewrite: bool,
}

type Scheme = (Vec<usize>, Ty);

pub struct WResult {
    pub result: Option<Ty>,
    pub row_rewrite: bool,
}

impl W {
    fn fresh(&mut self) -> Ty {
        self.bind.push(None);
        self.level.push(self.cur);
        Ty::V(self.bind.len() - 1)
    }
    fn head(&self, t: &Ty) -> Ty {
        let mut t = t.clone();
        while let Ty::V(n) = t {
            match &self.bind[n] {
                Some(u) => t = u.clone(),
                None => return Ty::V(n),
            }
        }
        t
    }
    fn zonk(&self, t: &Ty) -> Ty {
        match self.head(t) {
            Ty::Ap(f, a) => ap(self.zonk(&f), self.zonk(&a)),
            Ty::Ext(l, t, r) => Ty::Ext(l, Box::new(self.zonk(&t)), Box::new(self.zonk(&r))),
            other => other,
        }
    }
    fn occurs_adjust(&mut self, v: usize, t: &Ty) -> bool {
        match self.head(t) {
            Ty::V(n) => {
                if n == v {
                    return true;
                }
                if self.level[n] > self.level[v] {
                    self.level[n] = self.level[v];
                }
                false
            }
            Ty::Ap(f, a) => self.occurs_adjust(v, &f) || self.occurs_adjust(v, &a),
            Ty::Ext(_, t, r) => self.occurs_adjust(v, &t) || self.occurs_adjust(v, &r),
            _ => false,
        }
    }
    fn flat(&self, t: &Ty) -> (Vec<(String, Ty)>, Ty) {
        let mut fs = vec![];
        let mut cur = self.head(t);
        loop {
            match cur {
                Ty::Ext(l, t, r) => {
                    fs.push((l, *t));
                    cur = self.head(&r);
                }
                other => return (fs, other),
            }
        }
    }
    fn unify(&mut self, a: &Ty, b: &Ty) -> Result<(), ()> {
        let a = self.head(a);
        let b = self.head(b);
        match (&a, &b) {
            (Ty::V(x), Ty::V(y)) if x == y => Ok(()),
            (Ty::V(x), t) | (t, Ty::V(x)) => {
                if self.occurs_adjust(*x, t) {
                    return Err(());
                }
                self.bind[*x] = Some(t.clone());
                Ok(())
            }
            (Ty::C(x), Ty::C(y)) => {
                if x == y {
                    Ok(())
                } else {
                    Err(())
                }
            }
            (Ty::Nil, Ty::Nil) => Ok(()),
            (Ty::Ap(f, x), Ty::Ap(g, y)) => {
                self.unify(f, g)?;
                self.unify(x, y)
            }
            (Ty::Ext(..), Ty::Ext(..)) | (Ty::Ext(..), Ty::Nil) | (Ty::Nil, Ty::Ext(..)) => {
                let (f1, t1) = self.flat(&a);
                let (f2, t2) = self.flat(&b);
                let same = f1.len() == f2.len() && f1.iter().zip(&f2).all(|(p, q)| p.0 == q.0);
                if same {
                    for (p, q) in f1.iter().zip(&f2) {
                        self.unify(&p.1, &q.1)?;
                    }
                    return self.unify(&t1, &t2);
                }
                if t1 == Ty::Nil && t2 == Ty::Nil {
                    return Err(()); // closed records are ordered
                }
                self.row_rewrite = true;
                let mut only1 = vec![];
                for p in &f1 {
                    match f2.iter().find(|q| q.0 == p.0) {
                        Some(q) => self.unify(&p.1, &q.1)?,
                        None => only1.push(p.clone()),
                    }
                }
                let only2: Vec<(String, Ty)> =
                    f2.iter().filter(|q| f1.iter().all(|p| p.0 != q.0)).cloned().collect();
                let t1 = self.head(&t1);
                let t2 = self.head(&t2);
                match (&t1, &t2) {
                    (Ty::V(x), Ty::V(y)) => {
                        if x == y {
                            if only1.is_empty() && only2.is_empty() {
                                Ok(())
                            } else {
                                Err(())
                            }
                        } else if only1.is_empty() && only2.is_empty() {
                            self.unify(&t1, &t2)
                        } else {
                            let rest = self.fresh();
                            self.unify(&t1, &build(only2, rest.clone()))?;
                            self.unify(&t2, &build(only1, rest))
                        }
                    }
                    (Ty::V(_), Ty::Nil) => {
                        if !only1.is_empty() {
                            return Err(());
                        }
                        self.unify(&t1, &build(only2, Ty::Nil))
                    }
                    (Ty::Nil, Ty::V(_)) => {
                        if !only2.is_empty() {
                            return Err(());
                        }
                        self.unify(&t2, &build(only1, Ty::Nil))
                    }
                    _ => Err(()),
                }
            }
            _ => Err(()),
        }
    }
    fn inst(&mut self, s: &Scheme) -> Ty {
        let m: Vec<(usize, Ty)> = s.0.iter().map(|v| (*v, self.fresh())).collect();
        fn go(t: &Ty, m: &[(usize, Ty)]) -> Ty {
            match t {
                Ty::V(n) => m.iter().find(|p| p.0 == *n).map(|p| p.1.clone()).unwrap_or(t.clone()),
                Ty::Ap(f, a) => ap(go(f, m), go(a, m)),
                Ty::Ext(l, t, r) => Ty::Ext(l.clone(), Box::new(go(t, m)), Box::new(go(r, m))),
                _ => t.clone(),
            }
        }
        go(&self.zonk(&s.1), &m)
    }
    fn gen(&self, t: &Ty) -> Scheme {
        let z = self.zonk(t);
        let mut vs = vec![];
        fn go(w: &W, t: &Ty, vs: &mut Vec<usize>) {
            match t {
                Ty::V(n) => {
                    if w.level[*n] > w.cur && !vs.contains(n) {
                        vs.push(*n)
                    }
                }
                Ty::Ap(f, a) => {
                    go(w, f, vs);
                    go(w, a, vs)
                }
                Ty::Ext(_, t, r) => {
                    go(w, t, vs);
                    go(w, r, vs)
                }
                _ => {}
            }
        }
        go(self, &z, &mut vs);
        (vs, z)
    }
    fn infer(&mut self, e: &E, env: &mut Vec<(String, Scheme)>) -> Result<Ty, ()> {
        match e {
            E::Var(x) => {
                let s = env.iter().rev().find(|p| &p.0 == x).map(|p| p.1.clone()).ok_or(())?;
                Ok(self.inst(&s))
            }
            E::Int(_) => Ok(c("Int")),
            E::Str(_) => Ok(c("String")),
            E::Con(k) => {
                let a = self.fresh();
                if *k == "A" {
                    Ok(func(a.clone(), ap(c("T"), a)))
                } else {
                    Ok(ap(c("T"), a))
                }
            }
            E::Lam(x, b) => {
                let a = self.fresh();
                env.push((x.clone(), (vec![], a.clone())));
                let r = self.infer(b, env);
                env.pop();
                Ok(func(a, r?))
            }
            E::App(f, a) => {
                let tf = self.infer(f, env)?;
                let ta = self.infer(a, env)?;
                let r = self.fresh();
                self.unify(&tf, &func(ta, r.clone()))?;
                Ok(r)
            }
            E::Let(x, e1, e2) => {
                self.cur += 1;
                let t1 = self.infer(e1, env);
                self.cur -= 1;
                let s = self.gen(&t1?);
                env.push((x.clone(), s));
                let r = self.infer(e2, env);
                env.pop();
                r
            }
            E::Lt(a, b) => {
                let ta = self.infer(a, env)?;
                self.unify(&ta, &c("Int"))?;
                let tb = self.infer(b, env)?;
                self.unify(&tb, &c("Int"))?;
                Ok(c("Bool"))
            }
            E::If(p, a, b) => {
                let tp = self.infer(p, env)?;
                self.unify(&tp, &c("Bool"))?;
                let ta = self.infer(a, env)?;
                let tb = self.infer(b, env)?;
                self.unify(&ta, &tb)?;
                Ok(ta)
            }
            E::Rec(fs) => {
                let mut v = vec![];
                for (l, e) in fs {
                    v.push((l.clone(), self.infer(e, env)?));
                }
                Ok(rec(build(v, Ty::Nil)))
            }
            E::Tup(es) => {
                let mut v = vec![];
                for (i, e) in es.iter().enumerate() {
                    v.push((format!("_{}", i), self.infer(e, env)?));
                }
                Ok(rec(build(v, Ty::Nil)))
            }
            E::Proj(e, l) => {
                let t = self.infer(e, env)?;
                let a = self.fresh();
                let r = self.fresh();
                self.unify(&t, &rec(Ty::Ext(l.clone(), Box::new(a.clone()), Box::new(r))))?;
                Ok(a)
            }
            E::Arr(es) => {
                let a = self.fresh();
                for e in es {
                    let t = self.infer(e, env)?;
                    self.unify(&a, &t)?;
                }
                Ok(ap(c("Array"), a))
            }
        }
    }
}

pub fn infer_program(e: &E) -> WResult {
    let mut w = W { bind: vec![], level: vec![], cur: 0, row_rewrite: false };
    let r = w.infer(e, &mut vec![]);
    WResult { result: r.ok().map(|t| w.zonk(&t)), row_rewrite: w.row_rewrite }
}
