//! Re-parse the rendering of an inferred type (`Display` of `ArcType`) into `Ty`; nested
//! `forall`s are floated out (each binder gets a fresh variable), module prefixes are stripped.
//! Also a reader for the AST S-expressions (replay).
use super::refw::{ap, c, func, rec, Ty};
use super::E;

#[derive(Clone, Debug, PartialEq)]
enum Tok {
    Id(String),
    Arrow,
    LP,
    RP,
    LB,
    RB,
    Comma,
    Colon,
    Bar,
    Dot,
}

fn lex(s: &str) -> Result<Vec<Tok>, String> {
    let cs: Vec<char> = s.chars().collect();
    let mut i = 0;
    let mut out = vec![];
    let idc = |c: char| c.is_alphanumeric() || c == '_';
    while i < cs.len() {
        let ch = cs[i];
        if ch.is_whitespace() {
            i += 1;
        } else if ch == '-' && i + 1 < cs.len() && cs[i + 1] == '>' {
            out.push(Tok::Arrow);
            i += 2;
        } else if idc(ch) {
            let mut j = i;
            while j < cs.len() && (idc(cs[j]) || (cs[j] == '.' && j + 1 < cs.len() && idc(cs[j + 1]))) {
                j += 1;
            }
            out.push(Tok::Id(cs[i..j].iter().collect()));
            i = j;
        } else {
            out.push(match ch {
                '(' => Tok::LP,
                ')' => Tok::RP,
                '{' => Tok::LB,
                '}' => Tok::RB,
                ',' => Tok::Comma,
                ':' => Tok::Colon,
                '|' => Tok::Bar,
                '.' => Tok::Dot,
                other => return Err(format!("unexpected character {:?}", other)),
            });
            i += 1;
        }
    }
    Ok(out)
}

struct P {
    t: Vec<Tok>,
    i: usize,
    scope: Vec<(String, usize)>,
    n: usize,
    /// number of `forall` binders seen so far / a `forall` was seen left of an arrow
    binders: usize,
    negative: bool,
}

impl P {
    fn peek(&self) -> Option<&Tok> {
        self.t.get(self.i)
    }
    fn eat(&mut self, t: Tok) -> Result<(), String> {
        if self.peek() == Some(&t) {
            self.i += 1;
            Ok(())
        } else {
            Err(format!("expected {:?} at token {}", t, self.i))
        }
    }
    fn fresh(&mut self) -> usize {
        self.n += 1;
        self.n - 1
    }
    fn ty(&mut self) -> Result<Ty, String> {
        if self.peek() == Some(&Tok::Id("forall".into())) {
            self.i += 1;
            let depth = self.scope.len();
            while let Some(Tok::Id(x)) = self.peek().cloned() {
                self.i += 1;
                let v = self.fresh();
                self.scope.push((x, v));
                self.binders += 1;
            }
            self.eat(Tok::Dot)?;
            let r = self.ty();
            self.scope.truncate(depth);
            return r;
        }
        let b0 = self.binders;
        let l = self.app()?;
        if self.peek() == Some(&Tok::Arrow) {
            if self.binders > b0 {
                // a quantifier in a negative position cannot be floated out: higher-rank type
                self.negative = true;
            }
            self.i += 1;
            let r = self.ty()?;
            return Ok(func(l, r));
        }
        Ok(l)
    }
    fn app(&mut self) -> Result<Ty, String> {
        let mut t = self.atom()?;
        loop {
            match self.peek() {
                Some(Tok::Id(x)) if x != "forall" => {
                    let a = self.atom()?;
                    t = ap(t, a);
                }
                Some(Tok::LP) | Some(Tok::LB) => {
                    let a = self.atom()?;
                    t = ap(t, a);
                }
                _ => return Ok(t),
            }
        }
    }
    fn tail(&mut self) -> Result<Ty, String> {
        if self.peek() == Some(&Tok::Bar) {
            self.i += 1;
            self.ty()
        } else {
            Ok(Ty::Nil)
        }
    }
    fn atom(&mut self) -> Result<Ty, String> {
        match self.peek().cloned() {
            Some(Tok::Id(x)) => {
                self.i += 1;
                let last = x.rsplit('.').next().unwrap().to_string();
                if last.chars().next().map_or(false, |c| c.is_lowercase()) && !x.contains('.') {
                    if let Some(p) = self.scope.iter().rev().find(|p| p.0 == x) {
                        return Ok(Ty::V(p.1));
                    }
                    // free variable: one global binder
                    let v = self.fresh();
                    self.scope.insert(0, (x, v));
                    return Ok(Ty::V(v));
                }
                Ok(c(&last))
            }
            Some(Tok::LP) => {
                self.i += 1;
                if self.peek() == Some(&Tok::RP) {
                    self.i += 1;
                    return Ok(rec(Ty::Nil));
                }
                let mut elems = vec![self.ty()?];
                while self.peek() == Some(&Tok::Comma) {
                    self.i += 1;
                    elems.push(self.ty()?);
                }
                let open = self.peek() == Some(&Tok::Bar);
                let tail = self.tail()?;
                self.eat(Tok::RP)?;
                if elems.len() == 1 && !open {
                    return Ok(elems.pop().unwrap());
                }
                let row = elems.into_iter().enumerate().rev().fold(tail, |acc, (i, t)| {
                    Ty::Ext(format!("_{}", i), Box::new(t), Box::new(acc))
                });
                Ok(rec(row))
            }
            Some(Tok::LB) => {
                self.i += 1;
                let mut fs = vec![];
                while let Some(Tok::Id(l)) = self.peek().cloned() {
                    self.i += 1;
                    self.eat(Tok::Colon)?;
                    let t = self.ty()?;
                    fs.push((l, t));
                    if self.peek() == Some(&Tok::Comma) {
                        self.i += 1;
                    } else {
                        break;
                    }
                }
                let tail = self.tail()?;
                self.eat(Tok::RB)?;
                let row = fs
                    .into_iter()
                    .rev()
                    .fold(tail, |acc, (l, t)| Ty::Ext(l, Box::new(t), Box::new(acc)));
                Ok(rec(row))
            }
            other => Err(format!("unexpected token {:?}", other)),
        }
    }
}

pub fn parse(text: &str) -> Result<Ty, String> {
    let mut p = P { t: lex(text)?, i: 0, scope: vec![], n: 0, binders: 0, negative: false };
    let t = p.ty()?;
    if p.i != p.t.len() {
        return Err(format!("trailing tokens at {}", p.i));
    }
    if p.negative {
        return Ok(ap(c("HigherRank"), t));
    }
    Ok(t)
}

// ---- AST reader (replay) ---------------------------------------------------------------------

#[derive(Debug)]
enum S {
    A(String),
    Q(String),
    L(Vec<S>),
}

fn sparse(cs: &[char], i: &mut usize) -> Option<S> {
    while *i < cs.len() && cs[*i].is_whitespace() {
        *i += 1;
    }
    if *i >= cs.len() {
        return None;
    }
    if cs[*i] == '(' {
        *i += 1;
        let mut v = vec![];
        loop {
            while *i < cs.len() && cs[*i].is_whitespace() {
                *i += 1;
            }
            if *i >= cs.len() {
                return None;
            }
            if cs[*i] == ')' {
                *i += 1;
                return Some(S::L(v));
            }
            v.push(sparse(cs, i)?);
        }
    }
    if cs[*i] == '"' {
        *i += 1;
        let mut s = String::new();
        while *i < cs.len() && cs[*i] != '"' {
            if cs[*i] == '\\' {
                *i += 1;
            }
            s.push(cs[*i]);
            *i += 1;
        }
        *i += 1;
        return Some(S::Q(s));
    }
    let st = *i;
    while *i < cs.len() && !cs[*i].is_whitespace() && cs[*i] != '(' && cs[*i] != ')' {
        *i += 1;
    }
    Some(S::A(cs[st..*i].iter().collect()))
}

fn to_e(s: &S) -> Option<E> {
    let b = |s: &S| to_e(s).map(Box::new);
    match s {
        S::L(v) => match (v.first()?, &v[1..]) {
            (S::A(h), [S::Q(x)]) if h == "v" => Some(E::Var(x.clone())),
            (S::A(h), [S::A(n)]) if h == "int" => Some(E::Int(n.parse().ok()?)),
            (S::A(h), [S::Q(x)]) if h == "str" => Some(E::Str(x.clone())),
            (S::A(h), [S::A(k)]) if h == "con" => Some(E::Con(if k == "A" { "A" } else { "B" })),
            (S::A(h), [S::Q(x), e]) if h == "lam" => Some(E::Lam(x.clone(), b(e)?)),
            (S::A(h), [f, a]) if h == "app" => Some(E::App(b(f)?, b(a)?)),
            (S::A(h), [f, a]) if h == "lt" => Some(E::Lt(b(f)?, b(a)?)),
            (S::A(h), [S::Q(x), a, c]) if h == "let" => Some(E::Let(x.clone(), b(a)?, b(c)?)),
            (S::A(h), [p, a, c]) if h == "if" => Some(E::If(b(p)?, b(a)?, b(c)?)),
            (S::A(h), [e, S::Q(l)]) if h == "proj" => Some(E::Proj(b(e)?, l.clone())),
            (S::A(h), es) if h == "arr" => Some(E::Arr(es.iter().map(to_e).collect::<Option<Vec<_>>>()?)),
            (S::A(h), fs) if h == "rcd" => {
                let mut v = vec![];
                for f in fs {
                    match f {
                        S::L(p) if p.len() == 2 => match &p[0] {
                            S::Q(l) => v.push((l.clone(), to_e(&p[1])?)),
                            _ => return None,
                        },
                        _ => return None,
                    }
                }
                let tuple = v.len() >= 2 && v.iter().enumerate().all(|(i, p)| p.0 == format!("_{}", i));
                if tuple {
                    Some(E::Tup(v.into_iter().map(|p| p.1).collect()))
                } else {
                    Some(E::Rec(v))
                }
            }
            _ => None,
        },
        _ => None,
    }
}

pub fn parse_expr(s: &str) -> Option<E> {
    let cs: Vec<char> = s.chars().collect();
    let mut i = 0;
    to_e(&sparse(&cs, &mut i)?)
}
