//! Mutations of generated (well-typed) programs: small edits of the kind a programmer's slip or a
//! type checker's blind spot would be about. Most mutants are ill-typed and must be rejected;
//! whatever the real checker accepts is then run, and must not go wrong.
use gv::rng::Rng;
use gv::surf::{b, Expr, Pat, DECLS};

pub const KINDS: &[&str] = &[
    "swap-args",
    "drop-arg",
    "drop-field",
    "dup-field",
    "swap-fields",
    "swap-field-values",
    "lit-kind",
    "reassoc",
    "wrap-lambda",
    "apply-nonfun",
    "swap-alt-bodies",
    "rename-var",
    "change-ctor",
    "change-pat-ctor",
    "pat-arity",
    "change-proj",
    "swap-if",
    "replace-subexpr",
    // a record literal against an expected type that names the same fields (these three would
    // be type-preserving in a language whose record types do not care about the field order)
    "annotate",
    "annotate-permuted",
    "reuse-permuted",
    // `let x = e` -> `rec let x = e` (x is fresh, so the meaning is the same)
    "let-to-rec",
];

fn children(e: &Expr) -> Vec<&Expr> {
    match e {
        Expr::Lam(_, bd) => vec![bd],
        Expr::App(g, a) => {
            let mut v: Vec<&Expr> = vec![g];
            v.extend(a.iter());
            v
        }
        Expr::Let(_, a, bd) | Expr::LetFun(_, _, a, bd) => vec![a, bd],
        Expr::LetRec(bs, bd) => {
            let mut v: Vec<&Expr> = bs.iter().map(|(_, _, e)| e).collect();
            v.push(bd);
            v
        }
        Expr::If(a, bb, c) => vec![a, bb, c],
        Expr::Prim(_, a, bb) | Expr::And(a, bb) | Expr::Or(a, bb) => vec![a, bb],
        Expr::Match(s, alts) => {
            let mut v: Vec<&Expr> = vec![s];
            v.extend(alts.iter().map(|(_, e)| e));
            v
        }
        Expr::Record { fields, base, .. } => {
            let mut v: Vec<&Expr> = fields.iter().map(|(_, e)| e).collect();
            if let Some(bs) = base {
                v.push(bs);
            }
            v
        }
        Expr::Proj(e, _, _) => vec![e],
        Expr::Tuple(es) | Expr::Array(es) => es.iter().collect(),
        _ => vec![],
    }
}

fn children_mut(e: &mut Expr) -> Vec<&mut Expr> {
    match e {
        Expr::Lam(_, bd) => vec![bd],
        Expr::App(g, a) => {
            let mut v: Vec<&mut Expr> = vec![g];
            v.extend(a.iter_mut());
            v
        }
        Expr::Let(_, a, bd) | Expr::LetFun(_, _, a, bd) => vec![a, bd],
        Expr::LetRec(bs, bd) => {
            let mut v: Vec<&mut Expr> = bs.iter_mut().map(|(_, _, e)| e).collect();
            v.push(bd);
            v
        }
        Expr::If(a, bb, c) => vec![a, bb, c],
        Expr::Prim(_, a, bb) | Expr::And(a, bb) | Expr::Or(a, bb) => vec![a, bb],
        Expr::Match(s, alts) => {
            let mut v: Vec<&mut Expr> = vec![s];
            v.extend(alts.iter_mut().map(|(_, e)| e));
            v
        }
        Expr::Record { fields, base, .. } => {
            let mut v: Vec<&mut Expr> = fields.iter_mut().map(|(_, e)| e).collect();
            if let Some(bs) = base {
                v.push(bs);
            }
            v
        }
        Expr::Proj(e, _, _) => vec![e],
        Expr::Tuple(es) | Expr::Array(es) => es.iter_mut().collect(),
        _ => vec![],
    }
}

/// All nodes in pre-order.
pub fn collect<'a>(e: &'a Expr, out: &mut Vec<&'a Expr>) {
    out.push(e);
    for c in children(e) {
        collect(c, out);
    }
}

fn nth_mut<'a>(e: &'a mut Expr, n: &mut usize) -> Option<&'a mut Expr> {
    if *n == 0 {
        return Some(e);
    }
    *n -= 1;
    for c in children_mut(e) {
        if let Some(x) = nth_mut(c, n) {
            return Some(x);
        }
    }
    None
}

fn node_mut(e: &mut Expr, i: usize) -> &mut Expr {
    let mut n = i;
    nth_mut(e, &mut n).expect("node index")
}

fn count_pat_ctors(p: &Pat) -> usize {
    match p {
        Pat::Ctor { args, .. } => 1 + args.iter().map(count_pat_ctors).sum::<usize>(),
        Pat::Rec(fs) => fs.iter().map(|(_, _, p)| count_pat_ctors(p)).sum(),
        Pat::Tup(ps) => ps.iter().map(count_pat_ctors).sum(),
        Pat::As(_, p) => count_pat_ctors(p),
        _ => 0,
    }
}

fn pat_ctor_nth_mut<'a>(p: &'a mut Pat, n: &mut usize) -> Option<&'a mut Pat> {
    match p {
        Pat::Ctor { .. } => {
            if *n == 0 {
                return Some(p);
            }
            *n -= 1;
            if let Pat::Ctor { args, .. } = p {
                for a in args.iter_mut() {
                    if let Some(x) = pat_ctor_nth_mut(a, n) {
                        return Some(x);
                    }
                }
            }
            None
        }
        Pat::Rec(fs) => {
            for (_, _, q) in fs.iter_mut() {
                if let Some(x) = pat_ctor_nth_mut(q, n) {
                    return Some(x);
                }
            }
            None
        }
        Pat::Tup(ps) => {
            for q in ps.iter_mut() {
                if let Some(x) = pat_ctor_nth_mut(q, n) {
                    return Some(x);
                }
            }
            None
        }
        Pat::As(_, q) => pat_ctor_nth_mut(q, n),
        _ => None,
    }
}

fn pat_vars(p: &Pat, out: &mut Vec<String>) {
    match p {
        Pat::Var(x) => out.push(x.clone()),
        Pat::Ctor { args, .. } => args.iter().for_each(|a| pat_vars(a, out)),
        Pat::Rec(fs) => fs.iter().for_each(|(_, _, p)| pat_vars(p, out)),
        Pat::Tup(ps) => ps.iter().for_each(|p| pat_vars(p, out)),
        Pat::As(x, p) => {
            out.push(x.clone());
            pat_vars(p, out)
        }
        _ => {}
    }
}

/// Every variable name bound or used anywhere in the program.
fn names(nodes: &[&Expr]) -> Vec<String> {
    let mut v = vec![];
    for n in nodes {
        match n {
            Expr::Var(x) => v.push(x.clone()),
            Expr::Lam(xs, _) => v.extend(xs.iter().cloned()),
            Expr::Let(p, _, _) => pat_vars(p, &mut v),
            Expr::LetFun(f, xs, _, _) => {
                v.push(f.clone());
                v.extend(xs.iter().cloned());
            }
            Expr::LetRec(bs, _) => {
                for (f, xs, _) in bs {
                    v.push(f.clone());
                    v.extend(xs.iter().cloned());
                }
            }
            Expr::Match(_, alts) => alts.iter().for_each(|(p, _)| pat_vars(p, &mut v)),
            _ => {}
        }
    }
    v.sort();
    v.dedup();
    v
}

fn size(e: &Expr) -> usize {
    let mut v = vec![];
    collect(e, &mut v);
    v.len()
}

const FIELDS: &[&str] = &["a", "b", "c", "d", "x", "y", "z", "w", "k", "n", "_0", "_1", "_2"];

/// Pattern sites of node `n`: number of `Pat::Ctor` nodes per pattern of a `let` / `match`.
fn pat_sites(n: &Expr) -> Vec<(usize, usize)> {
    // (alternative index (0 for let), number of constructor patterns inside)
    match n {
        Expr::Let(p, _, _) => {
            let c = count_pat_ctors(p);
            if c > 0 {
                vec![(0, c)]
            } else {
                vec![]
            }
        }
        Expr::Match(_, alts) => alts
            .iter()
            .enumerate()
            .filter_map(|(i, (p, _))| {
                let c = count_pat_ctors(p);
                if c > 0 {
                    Some((i, c))
                } else {
                    None
                }
            })
            .collect(),
        _ => vec![],
    }
}

fn site_pat_mut(n: &mut Expr, alt: usize) -> &mut Pat {
    match n {
        Expr::Let(p, _, _) => p,
        Expr::Match(_, alts) => &mut alts[alt].0,
        _ => unreachable!(),
    }
}

fn applicable(kind: &str, n: &Expr) -> bool {
    match kind {
        "swap-args" => matches!(n, Expr::App(_, a) if a.len() >= 2),
        "drop-arg" => matches!(n, Expr::App(..)),
        "drop-field" | "dup-field" => matches!(n, Expr::Record { fields, .. } if !fields.is_empty()),
        "swap-fields" => matches!(n, Expr::Record { fields, .. } if fields.len() >= 2),
        "swap-field-values" => {
            matches!(n, Expr::Record { fields, .. } if fields.len() >= 2) || matches!(n, Expr::Tuple(es) if es.len() >= 2)
        }
        "lit-kind" => matches!(n, Expr::Int(_) | Expr::Str(_)),
        "reassoc" => match n {
            Expr::App(_, a) => a.len() >= 2 || matches!(&a[0], Expr::App(..)),
            _ => false,
        },
        "wrap-lambda" | "apply-nonfun" | "replace-subexpr" => true,
        "let-to-rec" => matches!(n, Expr::Let(Pat::Var(_), _, _)),
        "annotate" => matches!(n, Expr::Record { fields, base: None, .. } if !fields.is_empty()),
        "annotate-permuted" | "reuse-permuted" => match n {
            Expr::Record { fields, base: None, .. } => {
                fields.len() >= 2 && (1..fields.len()).all(|i| fields[..i].iter().all(|f| f.0 != fields[i].0))
            }
            _ => false,
        },
        "swap-alt-bodies" => matches!(n, Expr::Match(_, alts) if alts.len() >= 2),
        "rename-var" => matches!(n, Expr::Var(_)),
        "change-ctor" => matches!(n, Expr::Ctor { .. } | Expr::True | Expr::False),
        "change-pat-ctor" | "pat-arity" => !pat_sites(n).is_empty(),
        "change-proj" => matches!(n, Expr::Proj(..)),
        "swap-if" => matches!(n, Expr::If(..)),
        _ => false,
    }
}

fn two_distinct(rng: &mut Rng, n: usize) -> (usize, usize) {
    let i = rng.below(n as u64) as usize;
    let mut j = rng.below(n as u64 - 1) as usize;
    if j >= i {
        j += 1;
    }
    (i, j)
}

/// A non-identity permutation (the field names are distinct).
fn permute<T>(rng: &mut Rng, xs: &mut Vec<T>) {
    let n = xs.len();
    let (i, j) = two_distinct(rng, n);
    xs.swap(i, j);
    if n > 2 && rng.chance(1, 2) {
        let k = rng.below(n as u64) as usize;
        if k != i && k != j {
            xs.swap(j, k);
        }
    }
}

/// `r` checked against the record type `{ n1 : _, n2 : _, … }`, through an annotated `let` or
/// through an annotated identity function. The surface AST has no annotations: they ride in the
/// binder's name, which the printer emits verbatim.
fn annotated(rng: &mut Rng, names: &[String], r: Expr) -> Expr {
    let t = format!("{{ {} }}", names.iter().map(|n| format!("{} : _", n)).collect::<Vec<_>>().join(", "));
    if rng.chance(1, 2) {
        Expr::Let(Pat::Var(format!("zr : {}", t)), b(r), b(Expr::Var("zr".into())))
    } else {
        Expr::LetFun(
            "zf".into(),
            vec![format!("zr : {} -> {}", t, t)],
            b(Expr::Var("zr".into())),
            b(Expr::App(b(Expr::Var("zf".into())), vec![r])),
        )
    }
}

/// One mutant of `e` (different from `e`), with the name of the mutation applied.
pub fn mutate(e: &Expr, rng: &mut Rng) -> Option<(Expr, &'static str)> {
    let mut nodes = vec![];
    collect(e, &mut nodes);
    let total = nodes.len();
    for _attempt in 0..12 {
        let kind = *rng.pick(KINDS);
        let cands: Vec<usize> = (0..total).filter(|i| applicable(kind, nodes[*i])).collect();
        if cands.is_empty() {
            continue;
        }
        let at = *rng.pick(&cands);
        let mut m = e.clone();
        match kind {
            "replace-subexpr" => {
                let from = rng.below(total as u64) as usize;
                if from == at {
                    continue;
                }
                let repl = nodes[from].clone();
                *node_mut(&mut m, at) = repl;
            }
            "rename-var" => {
                let ns = names(&nodes);
                let cur = match nodes[at] {
                    Expr::Var(x) => x.clone(),
                    _ => unreachable!(),
                };
                let others: Vec<&String> = ns.iter().filter(|n| **n != cur).collect();
                if others.is_empty() {
                    continue;
                }
                *node_mut(&mut m, at) = Expr::Var((*rng.pick(&others)).clone());
            }
            "change-pat-ctor" | "pat-arity" => {
                let sites = pat_sites(nodes[at]);
                let (alt, n_ctors) = *rng.pick(&sites);
                let mut k = rng.below(n_ctors as u64) as usize;
                let node = node_mut(&mut m, at);
                let p = pat_ctor_nth_mut(site_pat_mut(node, alt), &mut k).expect("pattern index");
                if let Pat::Ctor { ty, tag, args } = p {
                    if kind == "pat-arity" {
                        if !args.is_empty() && rng.chance(1, 2) {
                            let i = rng.below(args.len() as u64) as usize;
                            args.remove(i);
                        } else {
                            let i = rng.below(args.len() as u64 + 1) as usize;
                            args.insert(i, if rng.chance(1, 2) { Pat::Wild } else { Pat::Var("zq".into()) });
                        }
                    } else if rng.chance(2, 3) {
                        // another constructor of the same type, arguments kept
                        let n = DECLS[*ty].ctors.len();
                        *tag = (*tag + 1 + rng.below(n as u64 - 1) as usize) % n;
                    } else {
                        let nt = (*ty + 1 + rng.below(DECLS.len() as u64 - 1) as usize) % DECLS.len();
                        *ty = nt;
                        *tag = rng.below(DECLS[nt].ctors.len() as u64) as usize;
                    }
                }
            }
            _ => {
                let node = node_mut(&mut m, at);
                let old = std::mem::replace(node, Expr::Unit);
                *node = match (kind, old) {
                    ("swap-args", Expr::App(f, mut a)) => {
                        let (i, j) = two_distinct(rng, a.len());
                        a.swap(i, j);
                        Expr::App(f, a)
                    }
                    ("drop-arg", Expr::App(f, mut a)) => {
                        let i = rng.below(a.len() as u64) as usize;
                        a.remove(i);
                        if a.is_empty() {
                            *f
                        } else {
                            Expr::App(f, a)
                        }
                    }
                    ("drop-field", Expr::Record { mut fields, base, layout }) => {
                        let i = rng.below(fields.len() as u64) as usize;
                        fields.remove(i);
                        Expr::Record { fields, base, layout }
                    }
                    ("dup-field", Expr::Record { mut fields, base, layout }) => {
                        let i = rng.below(fields.len() as u64) as usize;
                        let mut f = fields[i].clone();
                        if rng.chance(1, 2) {
                            // same name, a value of another kind
                            f.1 = if let Expr::Str(_) = f.1 { Expr::Int(1) } else { Expr::Str("dup".into()) };
                        }
                        let pos = rng.below(fields.len() as u64 + 1) as usize;
                        fields.insert(pos, f);
                        Expr::Record { fields, base, layout }
                    }
                    ("swap-fields", Expr::Record { mut fields, base, layout }) => {
                        let (i, j) = two_distinct(rng, fields.len());
                        fields.swap(i, j);
                        Expr::Record { fields, base, layout }
                    }
                    ("swap-field-values", Expr::Record { mut fields, base, layout }) => {
                        let (i, j) = two_distinct(rng, fields.len());
                        let (ni, nj) = (fields[i].0.clone(), fields[j].0.clone());
                        fields.swap(i, j);
                        fields[i].0 = ni;
                        fields[j].0 = nj;
                        Expr::Record { fields, base, layout }
                    }
                    ("swap-field-values", Expr::Tuple(mut es)) => {
                        let (i, j) = two_distinct(rng, es.len());
                        es.swap(i, j);
                        Expr::Tuple(es)
                    }
                    ("lit-kind", Expr::Int(i)) => Expr::Str(format!("{}", i)),
                    ("lit-kind", Expr::Str(s)) => Expr::Int(s.len() as i64),
                    ("reassoc", Expr::App(f, mut a)) => {
                        if a.len() >= 2 && rng.chance(2, 3) {
                            if rng.chance(2, 3) {
                                // f a b … -> f (a b) …
                                let i = rng.below(a.len() as u64 - 1) as usize;
                                let y = a.remove(i + 1);
                                let x = std::mem::replace(&mut a[i], Expr::Unit);
                                a[i] = Expr::App(b(x), vec![y]);
                                Expr::App(f, a)
                            } else {
                                // f a b -> (f a) b
                                let rest = a.split_off(1);
                                Expr::App(b(Expr::App(f, a)), rest)
                            }
                        } else if let Some(i) = a.iter().position(|x| matches!(x, Expr::App(..))) {
                            // f (g y) -> f g y
                            let inner = a.remove(i);
                            if let Expr::App(g, ys) = inner {
                                let mut k = i;
                                a.insert(k, *g);
                                for y in ys {
                                    k += 1;
                                    a.insert(k, y);
                                }
                            }
                            Expr::App(f, a)
                        } else {
                            let rest = a.split_off(1);
                            Expr::App(b(Expr::App(f, a)), rest)
                        }
                    }
                    ("let-to-rec", Expr::Let(Pat::Var(x), e1, e2)) => Expr::LetRec(vec![(x, vec![], *e1)], e2),
                    ("annotate", Expr::Record { fields, base, layout }) => {
                        let names: Vec<String> = fields.iter().map(|f| f.0.clone()).collect();
                        annotated(rng, &names, Expr::Record { fields, base, layout })
                    }
                    ("annotate-permuted", Expr::Record { mut fields, base, layout }) => {
                        // the annotation keeps the original order, the literal is permuted
                        let names: Vec<String> = fields.iter().map(|f| f.0.clone()).collect();
                        permute(rng, &mut fields);
                        annotated(rng, &names, Expr::Record { fields, base, layout })
                    }
                    ("reuse-permuted", Expr::Record { fields, base, layout }) => {
                        // ((\zh -> (zh R, zh R')) (\zr -> zr))._1  where R' is R with the fields permuted
                        let mut f2 = fields.clone();
                        permute(rng, &mut f2);
                        let r1 = Expr::Record { fields, base: base.clone(), layout: layout.clone() };
                        let r2 = Expr::Record { fields: f2, base, layout };
                        let zh = |r: Expr| Expr::App(b(Expr::Var("zh".into())), vec![r]);
                        Expr::Proj(
                            b(Expr::App(
                                b(Expr::Lam(vec!["zh".into()], b(Expr::Tuple(vec![zh(r1), zh(r2)])))),
                                vec![Expr::Lam(vec!["zr".into()], b(Expr::Var("zr".into())))],
                            )),
                            "_1".into(),
                            1,
                        )
                    }
                    ("wrap-lambda", old) => Expr::Lam(vec!["zq".into()], b(old)),
                    ("apply-nonfun", old) => {
                        let arg = match rng.below(3) {
                            0 => Expr::Int(1),
                            1 => Expr::Unit,
                            _ => Expr::Str("q".into()),
                        };
                        Expr::App(b(old), vec![arg])
                    }
                    ("swap-alt-bodies", Expr::Match(s, mut alts)) => {
                        let (i, j) = two_distinct(rng, alts.len());
                        let bi = alts[i].1.clone();
                        alts[i].1 = std::mem::replace(&mut alts[j].1, bi);
                        Expr::Match(s, alts)
                    }
                    ("change-ctor", Expr::Ctor { ty, tag }) => {
                        if rng.chance(2, 3) {
                            let n = DECLS[ty].ctors.len();
                            Expr::Ctor { ty, tag: (tag + 1 + rng.below(n as u64 - 1) as usize) % n }
                        } else {
                            let nt = (ty + 1 + rng.below(DECLS.len() as u64 - 1) as usize) % DECLS.len();
                            Expr::Ctor { ty: nt, tag: rng.below(DECLS[nt].ctors.len() as u64) as usize }
                        }
                    }
                    ("change-ctor", Expr::True) | ("change-ctor", Expr::False) => {
                        let nt = rng.below(DECLS.len() as u64) as usize;
                        Expr::Ctor { ty: nt, tag: rng.below(DECLS[nt].ctors.len() as u64) as usize }
                    }
                    ("change-proj", Expr::Proj(x, f, i)) => {
                        let others: Vec<&&str> = FIELDS.iter().filter(|n| **n != f).collect();
                        Expr::Proj(x, rng.pick(&others).to_string(), i)
                    }
                    ("swap-if", Expr::If(c, x, y)) => {
                        if rng.chance(1, 2) {
                            Expr::If(x, c, y)
                        } else {
                            Expr::If(y, x, c)
                        }
                    }
                    (_, old) => old,
                };
            }
        }
        if m != *e && size(&m) <= 600 {
            return Some((m, KINDS.iter().find(|k| **k == kind).copied().unwrap()));
        }
    }
    None
}
