//! The enumerated family "generalisation under a binder".
//!
//!     let f x = (let g a = C[x, a] in D[g])          (several binding forms)
//!     f ARG
//!
//! `C` connects the INNER parameter `a` with the OUTER (lambda-bound, hence monomorphic)
//! parameter `x`: `x` is applied to / unified with a structure that contains `a` (tuple, nested
//! tuple, record, array, the result of an earlier application bound by `let y = x 1`, …). So the
//! type of `a` is a type variable of the ENVIRONMENT and `g` must stay monomorphic in it. `D` uses
//! `g` at two argument types; `ARG` gives `x` a real type that fits only one of them and hands the
//! structure back (`\p -> if True then p else <literal structure>`), so that when a checker
//! wrongly generalises `g` the program is accepted and the returned value visibly does not have
//! the shape of the reported type (the oracle's ordinary signal). Every ill-typed member has
//! well-typed twins (both uses at the type `ARG` fits; or `a` not connected to `x`, in which case
//! `g` is legitimately polymorphic), so acceptance itself is not the signal.
//!
//! For the Lean side each member also comes in LET-EXPANDED form (every use of `g` replaced by a
//! copy of its lambda, the binding kept): for let-bound lambdas Hindley-Milner typability of the
//! original = monomorphic typability of the expansion, which the verified checker `inferA` decides
//! (request `acc`).
use gv::surf::{b, Expr, Pat, Src};

#[derive(Clone, Copy, PartialEq, Debug)]
pub enum T {
    Int,
    Str,
}

pub struct Member {
    pub shape: String,
    pub expr: Expr,
    /// let-expanded form (None for pattern bindings: the model keeps them monomorphic)
    pub expanded: Option<Expr>,
    /// well-typed by construction?
    pub typed: bool,
    /// inside the fragment the Lean model defines (else: run-time oracle only)
    pub in_model: bool,
}

fn v(x: &str) -> Expr {
    Expr::Var(x.to_string())
}
fn app(f: Expr, args: Vec<Expr>) -> Expr {
    Expr::App(b(f), args)
}
fn lam(xs: &[&str], body: Expr) -> Expr {
    Expr::Lam(xs.iter().map(|s| s.to_string()).collect(), b(body))
}
fn tup(es: Vec<Expr>) -> Expr {
    Expr::Tuple(es)
}
fn let_(x: &str, e: Expr, body: Expr) -> Expr {
    Expr::Let(Pat::Var(x.to_string()), b(e), b(body))
}
fn proj(e: Expr, i: usize) -> Expr {
    Expr::Proj(b(e), format!("_{}", i), i)
}
fn rec_pq(p: Expr, q: Expr) -> Expr {
    Expr::Record {
        fields: vec![("p".to_string(), p), ("q".to_string(), q)],
        base: None,
        layout: vec![Src::Field(0), Src::Field(1)],
    }
}
fn lit(t: T, k: i64) -> Expr {
    match t {
        T::Int => Expr::Int(7 + k),
        T::Str => Expr::Str(if k == 0 { "lit".to_string() } else { format!("lit{}", k) }),
    }
}
/// `\p -> if True then p else <alt>`: hands its argument back and fixes its type
fn back(alt: Expr) -> Expr {
    lam(&["p"], Expr::If(b(Expr::True), b(v("p")), b(alt)))
}

pub const LINKS: &[&str] = &[
    "app", "tuple", "nested", "record", "array", "app2", "let-y-in-g", "let-y-out", "y-in-tuple-out",
    "match-tuple", "proj-outer", "proj-both", "match-outer", "unify-array", "unify-if",
    "unify-applied-inner", "inner-let", "resolved-inner-in-tuple",
];

/// Does `g` return a function (then `D` applies the results to `0` so that the value is visible)?
fn returns_fun(kind: &str) -> bool {
    kind == "resolved-inner-in-tuple"
}

/// (bindings inside `f` before `g`, C[x, a], ARG for element type t, does `a` stand for a function)
fn link(kind: &str, a: Expr, t: T) -> (Vec<(&'static str, Expr)>, Expr, Expr, bool) {
    let x = || v("x");
    match kind {
        "app" => (vec![], app(x(), vec![a]), back(lit(t, 0)), false),
        "tuple" => (vec![], app(x(), vec![tup(vec![a, Expr::Int(0)])]), back(tup(vec![lit(t, 0), Expr::Int(0)])), false),
        "nested" => (
            vec![],
            app(x(), vec![tup(vec![tup(vec![a, Expr::Int(0)]), Expr::Str("k".into())])]),
            back(tup(vec![tup(vec![lit(t, 0), Expr::Int(0)]), Expr::Str("k".into())])),
            false,
        ),
        "record" => (vec![], app(x(), vec![rec_pq(a, Expr::Int(0))]), back(rec_pq(lit(t, 0), Expr::Int(0))), false),
        "array" => (vec![], app(x(), vec![Expr::Array(vec![a])]), back(Expr::Array(vec![lit(t, 0)])), false),
        "app2" => (vec![], app(app(x(), vec![Expr::Int(1)]), vec![a]), lam(&["n"], back(lit(t, 0))), false),
        "let-y-in-g" => (
            vec![],
            let_("y", app(x(), vec![Expr::Int(1)]), app(v("y"), vec![a])),
            lam(&["n"], back(lit(t, 0))),
            false,
        ),
        "let-y-out" => (vec![("y", app(x(), vec![Expr::Int(1)]))], app(v("y"), vec![a]), lam(&["n"], back(lit(t, 0))), false),
        "y-in-tuple-out" => (
            vec![("y", app(x(), vec![Expr::Int(1)])), ("t", tup(vec![v("y"), Expr::Int(0)]))],
            app(proj(v("t"), 0), vec![a]),
            lam(&["n"], back(lit(t, 0))),
            false,
        ),
        "match-tuple" => (
            vec![],
            Expr::Match(
                b(tup(vec![x(), Expr::Int(0)])),
                vec![(Pat::Tup(vec![Pat::Var("h".into()), Pat::Wild]), app(v("h"), vec![a]))],
            ),
            back(lit(t, 0)),
            false,
        ),
        "proj-outer" => (vec![], app(proj(x(), 0), vec![a]), tup(vec![back(lit(t, 0)), Expr::Int(0)]), false),
        "proj-both" => (
            vec![],
            app(proj(x(), 1), vec![tup(vec![a, proj(x(), 0)])]),
            tup(vec![Expr::Int(0), back(tup(vec![lit(t, 0), Expr::Int(0)]))]),
            false,
        ),
        "match-outer" => (
            vec![],
            Expr::Match(
                b(x()),
                vec![(
                    Pat::Tup(vec![Pat::Var("h".into()), Pat::Var("k".into())]),
                    app(v("h"), vec![tup(vec![a, v("k")])]),
                )],
            ),
            tup(vec![back(tup(vec![lit(t, 0), Expr::Int(0)])), Expr::Int(0)]),
            false,
        ),
        // `x` is unified with a structure containing `a` instead of being applied to it
        "unify-array" => (
            vec![],
            let_("u", Expr::Array(vec![x(), tup(vec![a, Expr::Int(0)])]), proj(x(), 0)),
            tup(vec![lit(t, 0), Expr::Int(0)]),
            false,
        ),
        "unify-if" => (
            vec![],
            proj(Expr::If(b(Expr::True), b(x()), b(tup(vec![a, Expr::Int(0)]))), 0),
            tup(vec![lit(t, 0), Expr::Int(0)]),
            false,
        ),
        // the inner parameter is first resolved to `Int -> r` by `a 1`, then embedded in a tuple
        // that is unified with the outer parameter
        "unify-applied-inner" => (
            vec![],
            let_(
                "u",
                app(a.clone(), vec![Expr::Int(1)]),
                let_("w", Expr::Array(vec![x(), tup(vec![a, Expr::Int(0)])]), app(proj(x(), 0), vec![Expr::Int(1)])),
            ),
            tup(vec![lam(&["n"], lit(t, 0)), Expr::Int(0)]),
            true,
        ),
        // the inner parameter is resolved to `Int -> r` by `a 1` and then sits as a variable node
        // in a tuple that is unified (through `if`) with the outer parameter; `g` returns the
        // function stored in `x`
        "resolved-inner-in-tuple" => (
            vec![],
            let_(
                "u",
                app(a.clone(), vec![Expr::Int(1)]),
                proj(Expr::If(b(Expr::Prim("<", b(Expr::Int(1)), b(Expr::Int(2)))), b(x()), b(tup(vec![a, Expr::Int(0)]))), 0),
            ),
            tup(vec![lam(&["i"], lit(t, 0)), Expr::Int(0)]),
            true,
        ),
        // one more binder between `g` and the use of `x`
        "inner-let" => (
            vec![],
            Expr::LetFun("h".into(), vec!["c".into()], b(app(x(), vec![tup(vec![a, v("c")])])), b(app(v("h"), vec![Expr::Int(0)]))),
            back(tup(vec![lit(t, 0), Expr::Int(0)])),
            false,
        ),
        _ => unreachable!(),
    }
}

/// argument of `g` of "type" t (a literal, or a function returning one)
fn garg(fun: bool, t: T, k: i64) -> Expr {
    let l = match t {
        T::Int => Expr::Int(1 + k),
        T::Str => Expr::Str(if k == 0 { "s".into() } else { "t".into() }),
    };
    if fun {
        lam(&["n"], l)
    } else {
        l
    }
}

fn subst_g(e: &Expr, g_lam: &Expr) -> Expr {
    // only the shapes `D` is built from
    match e {
        Expr::Var(x) if x == "g" => g_lam.clone(),
        Expr::App(f, args) => Expr::App(b(subst_g(f, g_lam)), args.iter().map(|a| subst_g(a, g_lam)).collect()),
        Expr::Tuple(es) => Expr::Tuple(es.iter().map(|a| subst_g(a, g_lam)).collect()),
        e => e.clone(),
    }
}

pub fn family() -> Vec<Member> {
    let mut out = vec![];
    for kind in LINKS {
        for linked in [true, false] {
            for t in [T::Int, T::Str] {
                for wrapper in 0..3 {
                    for d in 0..6 {
                        for gform in 0..4 {
                            for outer in 0..3 {
                                for extra in 0..3 {
                                    // binding forms 2 (right-hand side is an APPLICATION: no value
                                    // restriction in gluon, still generalised) and 3 (bound through a
                                    // tuple PATTERN) only with the plain `f`
                                    if gform >= 2 && !(outer == 0 && extra == 0) {
                                        continue;
                                    }
                                    out.push(member(kind, linked, t, wrapper, d, gform, outer, extra));
                                }
                            }
                        }
                    }
                }
            }
        }
    }
    out
}

/// `extra`: 0 = `f x`, 1 = `f x z` (an unused second parameter AFTER `x`), 2 = `f z x` (before)
fn member(kind: &str, linked: bool, t: T, wrapper: usize, d: usize, gform: usize, outer: usize, extra: usize) -> Member {
    // what stands in `a`'s place inside the link
    let fun = link(kind, v("a"), t).3;
    let inner = if linked { v("a") } else { garg(fun, t, 2) };
    let (pre, c, arg, _) = link(kind, inner, t);
    let c = if linked { c } else { tup(vec![v("a"), c]) };
    let body = match wrapper {
        0 => c,
        1 => tup(vec![c, v("a")]),
        _ => let_("r", c, v("r")),
    };
    // d 0..3: two uses of `g`; d 4, 5: a single use (at Int / at String)
    let (t1, t2) = match d {
        0 => (T::Int, T::Str),
        1 => (T::Str, T::Int),
        2 => (T::Int, T::Int),
        3 => (T::Str, T::Str),
        4 => (T::Int, T::Int),
        _ => (T::Str, T::Str),
    };
    let use_g = |t: T, k: i64| {
        let u = app(v("g"), vec![garg(fun, t, k)]);
        // an unlinked `g` returns the pair `(a, C)`; a linked one returns C itself
        if returns_fun(kind) && linked && wrapper != 1 {
            app(u, vec![Expr::Int(0)])
        } else {
            u
        }
    };
    let dexpr = if d < 4 { tup(vec![use_g(t1, 0), use_g(t2, 1)]) } else { use_g(t1, 0) };
    let typed = if linked { t1 == t && t2 == t } else { true };
    // `let (g, _) = (\a -> …, 0)`: gluon generalises the type of a LAMBDA LITERAL at the lambda, the
    // tuple carries the polymorphic function and the pattern-bound `g` may be used at two types
    // (all 216 such members are accepted; `let (a, _) = (k, 1)` with a let-bound polymorphic `k`
    // and `let (g, _) = ((\i -> i) (\a -> …), 0)` are rejected). The model keeps pattern-bound
    // names monomorphic, so these members are outside its fragment: oracle only.
    let in_model = !(gform == 3 && !linked && t1 != t2);
    let g_lam = lam(&["a"], body.clone());
    let build = |dexpr: Expr| -> Expr {
        let with_g = match gform {
            0 => Expr::LetFun("g".into(), vec!["a".into()], b(body.clone()), b(dexpr)),
            1 => let_("g", g_lam.clone(), dexpr),
            // not a syntactic value: `let g = (\i -> i) (\a -> …)`
            2 => let_("g", app(lam(&["i"], v("i")), vec![g_lam.clone()]), dexpr),
            // bound by a pattern: `let (g, _) = (\a -> …, 0)`
            _ => Expr::Let(
                Pat::Tup(vec![Pat::Var("g".into()), Pat::Wild]),
                b(tup(vec![g_lam.clone(), Expr::Int(0)])),
                b(dexpr),
            ),
        };
        let fbody = pre.iter().rev().fold(with_g, |acc, (n, e)| let_(n, e.clone(), acc));
        let (params, args): (Vec<&str>, Vec<Expr>) = match extra {
            0 => (vec!["x"], vec![arg.clone()]),
            1 => (vec!["x", "z"], vec![arg.clone(), Expr::Int(2)]),
            _ => (vec!["z", "x"], vec![Expr::Int(2), arg.clone()]),
        };
        match outer {
            0 => Expr::LetFun("f".into(), params.iter().map(|s| s.to_string()).collect(), b(fbody), b(app(v("f"), args))),
            1 => let_("f", lam(&params, fbody), app(v("f"), args)),
            _ => app(lam(&params, fbody), args),
        }
    };
    let expr = build(dexpr.clone());
    let expanded = if gform == 3 { None } else { Some(build(subst_g(&dexpr, &g_lam))) };
    Member {
        shape: format!(
            "{}:{}:{}:w{}:d{}:g{}:o{}:x{}",
            kind,
            if linked { "linked" } else { "unlinked" },
            if t == T::Int { "int" } else { "str" },
            wrapper,
            d,
            gform,
            outer,
            extra
        ),
        expr,
        expanded,
        typed,
        in_model,
    }
}
