//! `shape_ok`: does a run-time value have the representation its static type promises?
//!
//! This is the part of "well-typed programs do not go wrong" that the VM itself never checks: a
//! program whose result is an `Int` where the checker said `String` runs to completion without
//! any complaint. The walk follows the *type* (aliases resolved with the VM's type environment)
//! and demands of the value only what every value of that type has; everything it cannot judge
//! (type variables, opaque/abstract types, applications of unknown constructors, open rows) is
//! accepted and counted as skipped.
use gluon::base::resolve;
use gluon::base::types::{arg_iter, ArcType, BuiltinType, NullInterner, Type, TypeEnv, TypeExt};
use gluon::vm::api::ValueRef;
use gluon::vm::Variants;
use gluon::Thread;
use std::collections::BTreeMap;

pub struct Walk {
    pub checked: u64,
    pub skipped: BTreeMap<String, u64>,
}

pub fn value_kind(v: &ValueRef) -> &'static str {
    match v {
        ValueRef::Byte(_) => "Byte",
        ValueRef::Int(_) => "Int",
        ValueRef::Float(_) => "Float",
        ValueRef::String(_) => "String",
        ValueRef::Data(_) => "Data",
        ValueRef::Array(_) => "Array",
        ValueRef::Userdata(_) => "Userdata",
        ValueRef::Thread(_) => "Thread",
        ValueRef::Closure(_) | ValueRef::Internal => "Function",
    }
}

/// (fingerprint tail `expected-<TypeKind>-got-<ValueKind>`, message with the path)
pub type Mismatch = (String, String);

impl Walk {
    pub fn new() -> Walk {
        Walk { checked: 0, skipped: BTreeMap::new() }
    }

    fn skip(&mut self, kind: &str) -> Result<(), Mismatch> {
        *self.skipped.entry(kind.to_string()).or_insert(0) += 1;
        Ok(())
    }

    fn bad(&self, expected: &str, got: &str, path: &str, ty: &ArcType) -> Result<(), Mismatch> {
        let t: String = format!("{}", ty).chars().take(120).collect();
        Err((
            format!("expected-{}-got-{}", expected, got),
            format!("at result{}: the type `{}` promises {} but the value is {}", path, t.replace('\n', " "), expected, got),
        ))
    }

    pub fn walk(
        &mut self,
        env: &dyn TypeEnv<Type = ArcType>,
        ty: &ArcType,
        v: Variants,
        depth: usize,
        path: &str,
    ) -> Result<(), Mismatch> {
        if depth > 50 {
            return self.skip("deep");
        }
        // strip quantifiers, resolve aliases, strip the quantifiers the alias body may start with
        let t0 = ty.remove_forall();
        let resolved = resolve::remove_aliases_cow(env, &mut NullInterner, t0);
        let t: &ArcType = resolved.remove_forall();
        let vr = v.as_ref();
        let got = value_kind(&vr);
        match &**t {
            Type::Builtin(bt) => {
                let want = match bt {
                    BuiltinType::Int => "Int",
                    // characters are code points stored as ints
                    BuiltinType::Char => "Int",
                    BuiltinType::String => "String",
                    BuiltinType::Float => "Float",
                    BuiltinType::Byte => "Byte",
                    BuiltinType::Array | BuiltinType::Function => return self.skip("unapplied-constructor"),
                };
                self.checked += 1;
                if got == want {
                    Ok(())
                } else {
                    self.bad(bt.to_str(), got, path, t)
                }
            }
            Type::Function(..) => {
                self.checked += 1;
                if got == "Function" {
                    Ok(())
                } else {
                    self.bad("Function", got, path, t)
                }
            }
            Type::App(f, args) => {
                if t.as_function().is_some() {
                    self.checked += 1;
                    return if got == "Function" { Ok(()) } else { self.bad("Function", got, path, t) };
                }
                if let Type::Builtin(BuiltinType::Array) = &**f {
                    if args.len() == 1 {
                        self.checked += 1;
                        return match vr {
                            ValueRef::Array(a) => {
                                for (i, x) in a.iter().enumerate() {
                                    self.walk(env, &args[0], x, depth + 1, &format!("{}[{}]", path, i))?;
                                }
                                Ok(())
                            }
                            _ => self.bad("Array", got, path, t),
                        };
                    }
                }
                // IO a, Lazy a, Ref a, … : abstract
                self.skip("app")
            }
            Type::Record(_) => {
                let mut it = t.row_iter();
                let mut fields = vec![];
                for f in &mut it {
                    fields.push(f);
                }
                if !matches!(&**it.current_type(), Type::EmptyRow) {
                    return self.skip("open-row");
                }
                self.checked += 1;
                match vr {
                    ValueRef::Data(d) => {
                        if d.len() != fields.len() {
                            return self.bad(
                                "Record",
                                &format!("Data-with-{}-fields", if d.len() < fields.len() { "fewer" } else { "more" }),
                                path,
                                t,
                            );
                        }
                        for (i, f) in fields.iter().enumerate() {
                            let fv = d.get_variant(i).unwrap();
                            self.walk(env, &f.typ, fv, depth + 1, &format!("{}.{}", path, f.name.declared_name()))?;
                        }
                        Ok(())
                    }
                    _ => self.bad("Record", got, path, t),
                }
            }
            Type::Variant(_) => {
                let mut it = t.row_iter();
                let mut ctors = vec![];
                for f in &mut it {
                    ctors.push(f);
                }
                if !matches!(&**it.current_type(), Type::EmptyRow) {
                    return self.skip("open-row");
                }
                self.checked += 1;
                match vr {
                    ValueRef::Data(d) => {
                        let tag = d.tag() as usize;
                        if tag >= ctors.len() {
                            return self.bad("Variant", "Data-with-tag-out-of-range", path, t);
                        }
                        let c = ctors[tag];
                        let args: Vec<&ArcType> = arg_iter(c.typ.remove_forall()).collect();
                        if d.len() != args.len() {
                            return self.bad(
                                "Variant",
                                &format!("Data-with-{}-fields", if d.len() < args.len() { "fewer" } else { "more" }),
                                path,
                                t,
                            );
                        }
                        for (i, a) in args.iter().enumerate() {
                            let fv = d.get_variant(i).unwrap();
                            self.walk(env, a, fv, depth + 1, &format!("{}.{}#{}", path, c.name.declared_name(), i))?;
                        }
                        Ok(())
                    }
                    _ => self.bad("Variant", got, path, t),
                }
            }
            Type::Generic(_) | Type::Variable(_) | Type::Skolem(_) => self.skip("type-variable"),
            Type::Hole => self.skip("hole"),
            Type::Opaque => self.skip("opaque"),
            Type::Error => self.skip("error-type"),
            Type::Alias(_) => self.skip("abstract-alias"),
            Type::Ident(_) | Type::Projection(_) => self.skip("unresolved-name"),
            Type::Effect(_) => self.skip("effect"),
            Type::Forall(..) => self.skip("forall"),
            Type::EmptyRow | Type::ExtendRow { .. } | Type::ExtendTypeRow { .. } => self.skip("row"),
        }
    }
}

/// Check `v` against `ty` on `vm`; `Ok(walk)` carries the counts.
pub fn shape_ok(vm: &Thread, ty: &ArcType, v: Variants) -> (Walk, Result<(), Mismatch>) {
    let env = vm.get_env();
    let mut w = Walk::new();
    let r = w.walk(&env, ty, v, 0, "");
    (w, r)
}
