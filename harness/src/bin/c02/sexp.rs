//! S-expression forms of C02's `tc` request: `surf::sexp` byte for byte, except that constructors
//! carry the index of their declaration (`(ctor <ty> <tag> <arity>)`, `(pc <ty> <tag> args…)`;
//! `Bool` is declaration 3 = `False | True`), plus the rendering of the generator's types.
use gv::quote;
use gv::surf::{Expr, Pat, Src, Ty, DECLS};
use std::fmt::Write;

/// index of `Bool` in the driver's declaration table (after Sh, L, Tr)
pub const BOOL_DECL: usize = 3;

pub fn apat_sexp(p: &Pat) -> String {
    match p {
        Pat::Wild => "(pw)".into(),
        Pat::Var(x) => format!("(pv {})", quote(x)),
        Pat::Int(i) => format!("(pi {})", i),
        Pat::Str(s) => format!("(ps {})", quote(s)),
        Pat::Ctor { ty, tag, args } => {
            let mut s = format!("(pc {} {}", ty, tag);
            for a in args {
                s.push(' ');
                s.push_str(&apat_sexp(a));
            }
            s.push(')');
            s
        }
        Pat::Rec(fs) => {
            let mut s = String::from("(pr");
            for (_, i, p) in fs {
                let _ = write!(s, " ({} {})", i, apat_sexp(p));
            }
            s.push(')');
            s
        }
        Pat::Tup(ps) => {
            let mut s = String::from("(pr");
            for (i, p) in ps.iter().enumerate() {
                let _ = write!(s, " ({} {})", i, apat_sexp(p));
            }
            s.push(')');
            s
        }
        Pat::As(x, p) => format!("(pas {} {})", quote(x), apat_sexp(p)),
    }
}

fn names_sexp(xs: &[String]) -> String {
    let v: Vec<String> = xs.iter().map(|x| quote(x)).collect();
    format!("({})", v.join(" "))
}

pub fn asexp(e: &Expr) -> String {
    match e {
        Expr::Int(i) => format!("(int {})", i),
        Expr::Str(s) => format!("(str {})", quote(s)),
        Expr::Var(x) => format!("(var {})", quote(x)),
        Expr::Unit => "(rec)".into(),
        Expr::True => format!("(ctor {} 1 0)", BOOL_DECL),
        Expr::False => format!("(ctor {} 0 0)", BOOL_DECL),
        Expr::Lam(xs, body) => format!("(lam {} {})", names_sexp(xs), asexp(body)),
        Expr::App(f, args) => {
            let mut s = format!("(app {}", asexp(f));
            for a in args {
                s.push(' ');
                s.push_str(&asexp(a));
            }
            s.push(')');
            s
        }
        Expr::Let(p, e1, e2) => format!("(let {} {} {})", apat_sexp(p), asexp(e1), asexp(e2)),
        Expr::LetFun(f, xs, e1, e2) => format!(
            "(let (pv {}) (lam {} {}) {})",
            quote(f),
            names_sexp(xs),
            asexp(e1),
            asexp(e2)
        ),
        Expr::LetRec(bs, body) => {
            let mut s = String::from("(letrec (");
            for (f, xs, e) in bs {
                let _ = write!(s, "({} {} {})", quote(f), names_sexp(xs), asexp(e));
            }
            let _ = write!(s, ") {})", asexp(body));
            s
        }
        Expr::If(c, a, bb) => format!("(if {} {} {})", asexp(c), asexp(a), asexp(bb)),
        Expr::Prim(op, a, bb) => format!("(prim {} {} {})", quote(op), asexp(a), asexp(bb)),
        Expr::And(a, bb) => format!("(and {} {})", asexp(a), asexp(bb)),
        Expr::Or(a, bb) => format!("(or {} {})", asexp(a), asexp(bb)),
        Expr::Ctor { ty, tag } => format!("(ctor {} {} {})", ty, tag, DECLS[*ty].ctors[*tag].1.len()),
        Expr::Match(s, alts) => {
            let mut o = format!("(match {}", asexp(s));
            for (p, e) in alts {
                let _ = write!(o, " ({} {})", apat_sexp(p), asexp(e));
            }
            o.push(')');
            o
        }
        Expr::Record { fields, base, layout } => {
            let mut s = String::from("(record (");
            for (_, e) in fields {
                s.push_str(&asexp(e));
                s.push(' ');
            }
            s.push_str(") ");
            match base {
                Some(bs) => s.push_str(&asexp(bs)),
                None => s.push_str("none"),
            }
            s.push_str(" (");
            for l in layout {
                match l {
                    Src::Field(i) => {
                        let _ = write!(s, "(f {}) ", i);
                    }
                    Src::Base(j) => {
                        let _ = write!(s, "(b {}) ", j);
                    }
                }
            }
            s.push_str("))");
            s
        }
        Expr::Proj(e, _, i) => format!("(proj {} {})", asexp(e), i),
        Expr::Tuple(es) => {
            let mut s = String::from("(record (");
            for e in es {
                s.push_str(&asexp(e));
                s.push(' ');
            }
            s.push_str(") none (");
            for i in 0..es.len() {
                let _ = write!(s, "(f {}) ", i);
            }
            s.push_str("))");
            s
        }
        Expr::Array(es) => {
            let mut s = String::from("(array");
            for e in es {
                s.push(' ');
                s.push_str(&asexp(e));
            }
            s.push(')');
            s
        }
        Expr::Error(m) => format!("(error {})", quote(m)),
    }
}

/// `<STY>`: the generator's type of the program.
pub fn sty(t: &Ty) -> String {
    match t {
        Ty::Int => "int".into(),
        Ty::Str => "str".into(),
        Ty::Bool => "bool".into(),
        Ty::Unit => "(rec)".into(),
        Ty::Fun(a, b) => format!("(fn {} {})", sty(a), sty(b)),
        Ty::Rec(fs) => {
            let mut s = String::from("(rec");
            for (_, t) in fs {
                s.push(' ');
                s.push_str(&sty(t));
            }
            s.push(')');
            s
        }
        Ty::Tup(ts) => {
            let mut s = String::from("(rec");
            for t in ts {
                s.push(' ');
                s.push_str(&sty(t));
            }
            s.push(')');
            s
        }
        Ty::Named(i) => format!("(named {})", i),
        Ty::Arr(t) => format!("(arr {})", sty(t)),
    }
}
