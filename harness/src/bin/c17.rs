//! C17 (work in progress): probe mode only.
use gluon::vm::api::IO;
use gluon::ThreadExt;

fn run_src(src: &str) -> String {
    let vm = gv::vm::new_vm();
    vm.get_database_mut().set_run_io(true);
    let r = vm.run_expr::<IO<Vec<i64>>>("c17", src);
    match r {
        Ok((IO::Value(v), _)) => format!("ok {:?}", v),
        Ok((IO::Exception(e), _)) => format!("exc {}", e.lines().next().unwrap_or("")),
        Err(e) => format!("err {}", e.to_string().lines().next().unwrap_or("")),
    }
}

fn main() {
    let a: Vec<String> = std::env::args().collect();
    if a.len() >= 3 && a[1] == "--probe" {
        let src = std::fs::read_to_string(&a[2]).unwrap();
        println!("{}", run_src(&src));
        return;
    }
}
