//! C17 correspondence + oracle: operation sequences over channels, references, lazy values and
//! coroutine threads, run as generated Gluon programs on the real VM.
//!
//! A *sequence* = up to 3 lazy declarations (thunk bodies), 2 cells, 2 channels, two coroutine
//! bodies (thread 1 may resume thread 2) and the main thread's operations. Every operation reports
//! what it observed through the extern function `ev tid kind a b` (a Rust-side log that survives
//! hangs and panics). The implementation's answer is the final status plus the event log; the Lean
//! model (`GluonModel.Chan.runOps`) must print exactly the same.
//!
//! The property oracle reads ONLY the program and the event log (no model): FIFO / exactly-once per
//! channel, empty reported only when empty, last write per cell, thunk body at most once, all forces
//! agree (and equal the thunk's value), a failing or self-dependent lazy errors on every force and
//! never hangs, no host panic.
//!
//! Programs run in child processes. The top-level future is polled by hand: `Pending` without a
//! wake-up can never complete (single OS thread, no reactor) — that is a hang, found without waiting.
//! The first hang of each fingerprint is confirmed with the real blocking `run_expr` under a watchdog.
use gluon::vm::api::IO;
use gluon::vm::ExternModule;
use gluon::{primitive, record, RootedThread, Thread, ThreadExt};
use gv::child::Exit;
use gv::{Args, Out};
use serde_json::{json, Value};
use std::collections::{BTreeMap, VecDeque};
use std::future::Future;
use std::io::{BufRead, Write};
use std::sync::atomic::{AtomicBool, Ordering};
use std::sync::{Arc, Mutex};
use std::task::{Context, Poll, Wake, Waker};
use std::time::Duration;

// ---------------------------------------------------------------------------------------------
// sequences

#[derive(Clone, Debug, PartialEq)]
enum TExpr {
    Val(i64),
    Boom,
    Add(usize, i64),
}

#[derive(Clone, Debug, PartialEq)]
enum Op {
    Send(usize, i64),
    Recv(usize),
    Load(usize),
    Store(usize, i64),
    Force(usize),
    ForceU(usize),
    Resume(usize),
    Yield,
}

#[derive(Clone, Debug, PartialEq)]
struct Seq {
    lazies: Vec<TExpr>,
    cells: [i64; 2],
    b1: Vec<Op>,
    b2: Vec<Op>,
    main: Vec<Op>,
}

const NLAZY: usize = 3;

impl TExpr {
    fn sexp(&self) -> String {
        match self {
            TExpr::Val(v) => format!("(val {})", v),
            TExpr::Boom => "boom".into(),
            TExpr::Add(k, n) => format!("(add {} {})", k, n),
        }
    }
}

impl Op {
    fn sexp(&self) -> String {
        match self {
            Op::Send(c, v) => format!("(send {} {})", c, v),
            Op::Recv(c) => format!("(recv {})", c),
            Op::Load(c) => format!("(load {})", c),
            Op::Store(c, v) => format!("(store {} {})", c, v),
            Op::Force(k) => format!("(force {})", k),
            Op::ForceU(k) => format!("(forceu {})", k),
            Op::Resume(t) => format!("(resume {})", t),
            Op::Yield => "yield".into(),
        }
    }
    fn glu(&self, t: usize) -> String {
        match self {
            Op::Send(c, v) => format!("do _ = xsend {t} {c} s{c} {v}"),
            Op::Recv(c) => format!("do _ = xrecv {t} {c} r{c}"),
            Op::Load(c) => format!("do _ = xload {t} {c} c{c}"),
            Op::Store(c, v) => format!("do _ = xstore {t} {c} c{c} {v}"),
            Op::Force(k) => format!("do _ = xforce {t} {k} z{k}"),
            Op::ForceU(k) => format!("do _ = xforceu {t} {k} z{k}"),
            Op::Resume(j) => format!("do _ = xresume {t} {j} t{j}"),
            Op::Yield => format!("do _ = xyield {t}"),
        }
    }
    fn shape(&self) -> &'static str {
        match self {
            Op::Send(..) => "s",
            Op::Recv(..) => "r",
            Op::Load(..) => "l",
            Op::Store(..) => "w",
            Op::Force(..) => "f",
            Op::ForceU(..) => "F",
            Op::Resume(..) => "R",
            Op::Yield => "y",
        }
    }
}

impl Seq {
    fn request(&self) -> String {
        let ops = |v: &Vec<Op>| v.iter().map(|o| format!(" {}", o.sexp())).collect::<String>();
        format!(
            "prog (lazies{}) (cells {} {}) (b1{}) (b2{}) (main{})",
            self.lazies.iter().map(|t| format!(" {}", t.sexp())).collect::<String>(),
            self.cells[0],
            self.cells[1],
            ops(&self.b1),
            ops(&self.b2),
            ops(&self.main)
        )
    }
    fn lazy(&self, k: usize) -> TExpr {
        self.lazies.get(k).cloned().unwrap_or(TExpr::Val(0))
    }
    /// The Gluon text of this sequence (a fragment of a do-block: fresh channels, cells, lazies,
    /// threads, then the main operations).
    fn glu(&self) -> String {
        let mut s = String::new();
        s.push_str("do _ = xsep 0\n");
        s.push_str("do { sender = s0, receiver = r0 } = channel 0\n");
        s.push_str("do { sender = s1, receiver = r1 } = channel 0\n");
        s.push_str(&format!("do c0 = ref {}\n", self.cells[0]));
        s.push_str(&format!("do c1 = ref {}\n", self.cells[1]));
        for k in 0..NLAZY {
            s.push_str(&format!("let z{k} = st.ref dummy\n"));
        }
        for k in 0..NLAZY {
            let body = match self.lazy(k) {
                TExpr::Val(v) => format!("{}", v),
                TExpr::Boom => "error \"boom\"".to_string(),
                TExpr::Add(j, n) => format!("{} + force (st.load z{})", n, j),
            };
            s.push_str(&format!("let l{k} = lazy (\\_ -> let _ = ev 9 10 {k} 0 in {body})\n"));
            s.push_str(&format!("let _ = sset z{k} l{k}\n"));
        }
        for (t, b) in [(2usize, &self.b2), (1usize, &self.b1)] {
            s.push_str(&format!("let b{t} =\n    do _ = wrap ()\n"));
            for o in b {
                s.push_str("    ");
                s.push_str(&o.glu(t));
                s.push('\n');
            }
            s.push_str("    wrap ()\n");
            s.push_str(&format!("do t{t} = spawn b{t}\n"));
        }
        for o in &self.main {
            s.push_str(&o.glu(0));
            s.push('\n');
        }
        s
    }
    fn shape(&self) -> String {
        let f = |v: &Vec<Op>| v.iter().map(|o| o.shape()).collect::<String>();
        let lz: String = self
            .lazies
            .iter()
            .map(|t| match t {
                TExpr::Val(_) => "v",
                TExpr::Boom => "b",
                TExpr::Add(..) => "a",
            })
            .collect();
        format!("{}|{}|{}|{}", lz, f(&self.main), f(&self.b1), f(&self.b2))
    }
    fn to_json(&self) -> Value {
        json!({"request": self.request()})
    }
}

const PRELUDE: &str = r#"let { send, recv, channel } = import! std.channel
let { ref, load, (<-) } = import! std.reference
let st = import! std.st.reference.prim
let { lazy, force } = import! std.lazy
let { spawn, yield, resume } = import! std.thread
let { wrap } = import! std.applicative
let { catch } = import! std.io
let { ? } = import! std.io
let { Result } = import! std.result
let string = import! std.string
let c17 = import! c17.prim

let ev t k a b : Int -> Int -> Int -> Int -> () = c17.ev t k a b
let sset c v = st.(<-) c v
let dummy = lazy (\_ -> 0)
let classify msg : String -> Int =
    if string.contains msg "<<loop>>" then 1
    else if string.contains msg "boom" then 2
    else 9
let xsep q =
    do _ = wrap ()
    wrap (ev 0 99 q 0)
let xsend t c s v =
    do x = send s v
    match x with
    | Ok _ -> wrap (ev t 1 c v)
    | Err _ -> wrap (ev t 2 c v)
let xrecv t c r =
    do x = recv r
    match x with
    | Ok v -> wrap (ev t 3 c v)
    | Err _ -> wrap (ev t 4 c 0)
let xload t i c =
    do x = load c
    wrap (ev t 5 i x)
let xstore t i c v =
    do _ = c <- v
    wrap (ev t 6 i v)
let xforce t k slot =
    do _ = wrap ()
    let _ = ev t 7 k 0
    let act =
        do _ = wrap ()
        wrap (Ok (force (st.load slot)))
    do x = catch act (\msg -> wrap (Err (classify msg)))
    match x with
    | Ok v -> wrap (ev t 8 k v)
    | Err c -> wrap (ev t 9 k c)
let xforceu t k slot =
    do _ = wrap ()
    let _ = ev t 7 k 0
    let v = force (st.load slot)
    wrap (ev t 8 k v)
let xresume t j th =
    let act =
        do r = resume th
        match r with
        | Ok _ -> wrap 0
        | Err _ -> wrap (0 - 1)
    do x = catch act (\msg -> wrap (classify msg))
    if x == 0 then wrap (ev t 11 j 0)
    else if x < 0 then wrap (ev t 12 j 0)
    else wrap (ev t 13 j x)
let xyield t =
    do _ = wrap ()
    let _ = ev t 14 0 0
    let _ = yield ()
    wrap ()

"#;

fn program(seqs: &[&Seq]) -> String {
    let mut s = String::from(PRELUDE);
    for q in seqs {
        s.push_str(&q.glu());
    }
    s.push_str("wrap ()\n");
    s
}

// ---------------------------------------------------------------------------------------------
// child: run programs on the real VM

type Event = (i64, i64, i64, i64);
static LOG: Mutex<Vec<Event>> = Mutex::new(Vec::new());

fn ev(t: i64, k: i64, a: i64, b: i64) {
    LOG.lock().unwrap_or_else(|e| e.into_inner()).push((t, k, a, b));
}
fn load_prim(vm: &Thread) -> gluon::vm::Result<ExternModule> {
    ExternModule::new(vm, record! { ev => primitive!(4, ev) })
}
fn take_log() -> Vec<Event> {
    std::mem::take(&mut *LOG.lock().unwrap_or_else(|e| e.into_inner()))
}

fn mk_vm() -> RootedThread {
    let vm = gv::vm::new_vm();
    vm.get_database_mut().set_run_io(true);
    gluon::import::add_extern_module(&vm, "c17.prim", load_prim);
    vm
}

struct Flag(AtomicBool);
impl Wake for Flag {
    fn wake(self: Arc<Self>) {
        self.0.store(true, Ordering::SeqCst);
    }
    fn wake_by_ref(self: &Arc<Self>) {
        self.0.store(true, Ordering::SeqCst);
    }
}

fn classify(msg: &str) -> i64 {
    if msg.contains("<<loop>>") {
        1
    } else if msg.contains("boom") {
        2
    } else {
        9
    }
}

/// Run one program. `block`: use the real blocking `run_expr` (a hang then really hangs; the parent's
/// watchdog kills us). Otherwise poll by hand and report `hang` when the future is `Pending` and
/// nothing woke it.
fn run_program(src: &str, block: bool) -> (String, String) {
    let vm = mk_vm();
    take_log();
    let r = gv::catch(|| {
        if block {
            let r = vm.run_expr::<IO<()>>("c17", src);
            return Some(r.map(|x| x.0));
        }
        let flag = Arc::new(Flag(AtomicBool::new(false)));
        let waker = Waker::from(flag.clone());
        let mut cx = Context::from_waker(&waker);
        let mut fut = Box::pin(vm.run_expr_async::<IO<()>>("c17", src));
        let mut polls = 0u32;
        loop {
            flag.0.store(false, Ordering::SeqCst);
            match fut.as_mut().poll(&mut cx) {
                Poll::Ready(r) => return Some(r.map(|x| x.0)),
                Poll::Pending => {
                    polls += 1;
                    if !flag.0.load(Ordering::SeqCst) || polls > 100_000 {
                        // leak the future: dropping a half-run VM future is not what we test
                        std::mem::forget(fut);
                        return None;
                    }
                }
            }
        }
    });
    match r {
        Err(p) => ("panic".into(), p),
        Ok(None) => ("hang".into(), String::new()),
        Ok(Some(Ok(IO::Value(())))) => ("ok".into(), String::new()),
        Ok(Some(Ok(IO::Exception(e)))) => (format!("(err {})", classify(&e)), first_lines(&e)),
        Ok(Some(Err(e))) => {
            let e = e.to_string();
            (format!("(err {})", classify(&e)), first_lines(&e))
        }
    }
}

fn first_lines(s: &str) -> String {
    s.lines().take(3).collect::<Vec<_>>().join(" / ").chars().take(300).collect()
}

fn child_main() {
    gv::quiet_panics();
    let stdin = std::io::stdin();
    let stdout = std::io::stdout();
    for line in stdin.lock().lines() {
        let line = line.unwrap();
        if line.trim().is_empty() {
            continue;
        }
        let v: Value = serde_json::from_str(&line).unwrap();
        let src = v["src"].as_str().unwrap();
        let block = v["block"].as_bool().unwrap_or(false);
        let (status, msg) = run_program(src, block);
        let log = take_log();
        let out = json!({"id": v["id"], "status": status, "msg": msg,
                         "log": log.iter().map(|e| json!([e.0, e.1, e.2, e.3])).collect::<Vec<_>>()});
        let mut so = stdout.lock();
        writeln!(so, "{}", out).unwrap();
        so.flush().unwrap();
    }
}

#[derive(Clone, Debug)]
struct RunResult {
    status: String,
    msg: String,
    log: Vec<Event>,
}

/// Run the programs (id, src) in child processes, `workers` at a time, `per_child` programs per child.
fn run_all(jobs: Vec<(usize, String)>, block: bool, workers: usize, per_child: usize, timeout: Duration)
    -> BTreeMap<usize, RunResult>
{
    let queue = Arc::new(Mutex::new(jobs.into_iter().collect::<VecDeque<_>>()));
    let results = Arc::new(Mutex::new(BTreeMap::new()));
    let mut hs = vec![];
    for _ in 0..workers {
        let queue = queue.clone();
        let results = results.clone();
        hs.push(std::thread::spawn(move || loop {
            let batch: Vec<(usize, String)> = {
                let mut q = queue.lock().unwrap();
                let n = per_child.min(q.len());
                q.drain(..n).collect()
            };
            if batch.is_empty() {
                break;
            }
            let mut input = String::new();
            for (id, src) in &batch {
                input.push_str(&json!({"id": id, "src": src, "block": block}).to_string());
                input.push('\n');
            }
            let exit = gv::child::run(&["--child"], input.as_bytes(), timeout);
            let (out, abnormal) = match &exit {
                Exit::Ok(o) => (o.clone(), None),
                Exit::Code(c, o, e) => (o.clone(), Some((format!("crash:exit-{}", c), e.clone()))),
                Exit::Signal(s, o, e) => (o.clone(), Some((format!("crash:signal-{}", s), e.clone()))),
                Exit::Timeout(o) => (o.clone(), Some(("timeout".to_string(), String::new()))),
            };
            let mut done = 0usize;
            {
                let mut res = results.lock().unwrap();
                for l in out.lines() {
                    if let Ok(v) = serde_json::from_str::<Value>(l) {
                        let id = v["id"].as_u64().unwrap() as usize;
                        let log = v["log"]
                            .as_array()
                            .unwrap()
                            .iter()
                            .map(|e| {
                                let e = e.as_array().unwrap();
                                (e[0].as_i64().unwrap(), e[1].as_i64().unwrap(), e[2].as_i64().unwrap(), e[3].as_i64().unwrap())
                            })
                            .collect();
                        res.insert(
                            id,
                            RunResult {
                                status: v["status"].as_str().unwrap().to_string(),
                                msg: v["msg"].as_str().unwrap().to_string(),
                                log,
                            },
                        );
                        done += 1;
                    }
                }
                if let Some((st, msg)) = abnormal {
                    if done < batch.len() {
                        // the program that was running when the child died / was killed
                        res.insert(batch[done].0, RunResult { status: st, msg, log: vec![] });
                        done += 1;
                    }
                }
            }
            if done < batch.len() {
                let mut q = queue.lock().unwrap();
                for j in batch[done..].iter().rev() {
                    q.push_front(j.clone());
                }
            }
        }));
    }
    for h in hs {
        h.join().unwrap();
    }
    Arc::try_unwrap(results).unwrap().into_inner().unwrap()
}

// ---------------------------------------------------------------------------------------------
// property oracle (reads the program and the log only)

/// The value of lazy `k` as the thunk bodies define it: Ok(v), or Err(1) self-dependent / Err(2) boom.
fn denot(q: &Seq, k: usize, visiting: &mut Vec<usize>) -> Result<i64, i64> {
    if visiting.contains(&k) {
        return Err(1);
    }
    visiting.push(k);
    let r = match q.lazy(k) {
        TExpr::Val(v) => Ok(v),
        TExpr::Boom => Err(2),
        TExpr::Add(j, n) => denot(q, j, visiting).map(|v| v + n),
    };
    visiting.pop();
    r
}

struct Failure {
    fingerprint: String,
    what: String,
}

fn oracle(q: &Seq, r: &RunResult) -> Vec<Failure> {
    let fails: std::cell::RefCell<Vec<Failure>> = std::cell::RefCell::new(vec![]);
    let fail = |fp: String, what: String| {
        let mut fails = fails.borrow_mut();
        if !fails.iter().any(|f| f.fingerprint == fp) {
            fails.push(Failure { fingerprint: fp, what });
        }
    };
    let mut queues: [VecDeque<i64>; 2] = [VecDeque::new(), VecDeque::new()];
    let mut cells = q.cells;
    let mut runs = [0u32; NLAZY];
    let mut forced: [Option<i64>; NLAZY] = [None; NLAZY];
    let mut saw_resume_exc = false;
    let log = &r.log;
    for (i, &(t, k, a, b)) in log.iter().enumerate() {
        match k {
            1 => queues[a as usize].push_back(b),
            2 => fail("send:error".into(), format!("send on channel {} reported Err", a)),
            3 => match queues[a as usize].pop_front() {
                None => fail("fifo:recv-from-empty".into(), format!("recv on channel {} returned {} but every sent value was already delivered", a, b)),
                Some(v) if v != b => fail("fifo:recv-out-of-order".into(), format!("recv on channel {} returned {} but the oldest undelivered value is {}", a, b, v)),
                _ => {}
            },
            4 => {
                if !queues[a as usize].is_empty() {
                    fail("fifo:empty-with-pending".into(), format!("recv on channel {} reported empty with {} undelivered value(s)", a, queues[a as usize].len()))
                }
            }
            5 => {
                if cells[a as usize] != b {
                    fail("ref:stale-load".into(), format!("load of cell {} returned {} but the last stored value is {}", a, b, cells[a as usize]))
                }
            }
            6 => cells[a as usize] = b,
            7 => {
                // a force must come back at once: next event of this thread (thunk RUN events aside)
                // is its result, or — for an uncaught force — the death of the thread.
                let kz = a as usize;
                let mut j = i + 1;
                while j < log.len() && log[j].1 == 10 {
                    j += 1;
                }
                let returned = j < log.len() && log[j].0 == t && (log[j].1 == 8 || log[j].1 == 9) && log[j].2 == a;
                let died = if t == 0 {
                    j == log.len() && r.status.starts_with("(err")
                } else {
                    j < log.len() && log[j].1 == 13 && log[j].2 == t
                };
                if !returned && !died {
                    let cause = match denot(q, kz, &mut vec![]) {
                        Err(1) => "self-dependency",
                        Err(_) => "failure",
                        Ok(_) => "success",
                    };
                    if t == 0 {
                        fail(format!("hang:lazy-force-after-{}-other-thread", cause),
                             format!("force of lazy {} by the main thread never returns (status {}): the thunk ended in an error on another thread and left the blackhole", kz, r.status));
                    } else {
                        fail(format!("stuck:lazy-force-after-{}-other-thread", cause),
                             format!("force of lazy {} by coroutine {} never returns (neither value nor error; resume keeps answering Ok)", kz, t));
                    }
                }
            }
            8 => {
                let kz = a as usize;
                match denot(q, kz, &mut vec![]) {
                    Ok(v) if v == b => {}
                    Ok(v) => fail("lazy:wrong-value".into(), format!("force of lazy {} returned {} but its computation yields {}", kz, b, v)),
                    Err(_) => fail("lazy:value-from-failing".into(), format!("force of the failing/self-dependent lazy {} returned {}", kz, b)),
                }
                if let Some(v) = forced[kz] {
                    if v != b {
                        fail("lazy:value-changed".into(), format!("two forces of lazy {} returned {} and {}", kz, v, b));
                    }
                }
                forced[kz] = Some(b);
            }
            9 => {
                if denot(q, a as usize, &mut vec![]).is_ok() {
                    fail("lazy:error-from-good".into(), format!("force of lazy {} reported an error although its computation succeeds", a));
                }
            }
            10 => {
                runs[a as usize] += 1;
                if runs[a as usize] > 1 {
                    fail("lazy:ran-twice".into(), format!("the computation of lazy {} ran {} times", a, runs[a as usize]));
                }
            }
            13 => saw_resume_exc = true,
            _ => {}
        }
    }
    if r.status == "panic" {
        let fp = if saw_resume_exc { "panic:resume-after-thread-error" } else { "panic:other" };
        fail(fp.into(), format!("the VM panicked: {}", r.msg.chars().take(160).collect::<String>()));
    } else if r.status == "hang" || r.status == "timeout" {
        let explained = fails.borrow().iter().any(|f| f.fingerprint.starts_with("hang:"));
        if !explained {
            fail("hang:unexplained".into(), "the program never finishes".into());
        }
    } else if r.status.starts_with("crash") {
        fail(format!("{}", r.status), format!("the VM process died: {}", r.msg.chars().take(160).collect::<String>()));
    }
    fails.into_inner()
}

// ---------------------------------------------------------------------------------------------
// generation

fn bad(q: &Seq, k: usize) -> bool {
    denot(q, k, &mut vec![]).is_err()
}

/// May this sequence hang / panic / end in an error (then it runs alone, not in a batch)?
fn risky(q: &Seq) -> bool {
    // since the D8 fix a caught force always returns; only an uncaught force of a failing lazy can end
    // the program (error on the main thread, or a dead coroutine that panics when resumed again)
    let any_bad = (0..NLAZY).any(|k| bad(q, k));
    let forces = |v: &Vec<Op>| v.iter().any(|o| matches!(o, Op::ForceU(_)));
    any_bad && (forces(&q.main) || forces(&q.b1) || forces(&q.b2))
}

struct Gen {
    rng: gv::rng::Rng,
    next_val: i64,
}

impl Gen {
    fn val(&mut self) -> i64 {
        self.next_val += 1;
        self.next_val
    }
    fn op(&mut self, tid: usize, wl: &[u64; 8]) -> Op {
        let total: u64 = wl.iter().sum();
        let mut x = self.rng.below(total);
        let mut i = 0;
        while x >= wl[i] {
            x -= wl[i];
            i += 1;
        }
        let c = if self.rng.chance(4, 5) { 0 } else { 1 };
        let k = self.rng.below(NLAZY as u64) as usize;
        match i {
            0 => Op::Send(c, self.val()),
            1 => Op::Recv(c),
            2 => Op::Load(c),
            3 => Op::Store(c, self.val()),
            4 => Op::Force(k),
            5 => Op::ForceU(k),
            6 => {
                if tid == 0 {
                    Op::Resume(1 + self.rng.below(2) as usize)
                } else if tid == 1 {
                    Op::Resume(2)
                } else {
                    Op::Yield
                }
            }
            _ => Op::Yield,
        }
    }
    fn texpr(&mut self, profile: u64) -> TExpr {
        // profile 0: only values; 1: mixed; 2: mostly failing / cyclic
        let r = self.rng.below(10);
        match profile {
            0 => {
                if r < 7 {
                    TExpr::Val(self.val())
                } else {
                    TExpr::Add(self.rng.below(NLAZY as u64) as usize, self.rng.range(1, 5))
                }
            }
            1 => {
                if r < 5 {
                    TExpr::Val(self.val())
                } else if r < 7 {
                    TExpr::Boom
                } else {
                    TExpr::Add(self.rng.below(NLAZY as u64) as usize, self.rng.range(1, 5))
                }
            }
            _ => {
                if r < 2 {
                    TExpr::Val(self.val())
                } else if r < 6 {
                    TExpr::Boom
                } else {
                    TExpr::Add(self.rng.below(NLAZY as u64) as usize, self.rng.range(1, 5))
                }
            }
        }
    }
    fn seq(&mut self, max_ops: usize) -> Seq {
        self.next_val = 10;
        // theme: which operations dominate
        let theme = self.rng.below(6);
        //            send recv load store force forceU resume yield
        let wl: [u64; 8] = match theme {
            0 => [7, 5, 1, 1, 0, 0, 3, 2],  // channels + threads
            1 => [1, 1, 6, 6, 0, 0, 3, 2],  // cells + threads
            2 => [1, 1, 1, 1, 8, 1, 4, 1],  // lazies + threads
            3 => [3, 3, 2, 2, 3, 1, 3, 2],  // everything
            5 => [1, 1, 1, 1, 2, 5, 7, 1],  // threads dying from uncaught forces, resumed again
            _ => [6, 5, 3, 3, 3, 0, 0, 1],  // single thread
        };
        let lazy_profile = match theme {
            0 | 1 => 0,
            2 | 5 => 1 + self.rng.below(2),
            _ => self.rng.below(3),
        };
        let nl = if theme <= 1 { self.rng.below(2) as usize } else { 1 + self.rng.below(NLAZY as u64) as usize };
        let lazies = (0..nl).map(|_| self.texpr(lazy_profile)).collect();
        let total = 1 + self.rng.below(max_ops as u64) as usize;
        let (n1, n2) = if theme == 4 {
            (0, 0)
        } else {
            let n1 = self.rng.below(total as u64 / 2 + 1) as usize;
            let n2 = self.rng.below((total - n1) as u64 / 2 + 1) as usize;
            (n1, n2)
        };
        let nm = total - n1 - n2;
        let cells = [100 + self.rng.below(3) as i64, 200 + self.rng.below(3) as i64];
        let mut q = Seq { lazies, cells, b1: vec![], b2: vec![], main: vec![] };
        // draw in an interleaved order so that the unique send/store values are not sorted by thread
        let mut slots: Vec<usize> = std::iter::repeat(0).take(nm).chain(std::iter::repeat(1).take(n1)).chain(std::iter::repeat(2).take(n2)).collect();
        for i in (1..slots.len()).rev() {
            let j = self.rng.below(i as u64 + 1) as usize;
            slots.swap(i, j);
        }
        for t in slots {
            let o = self.op(t, &wl);
            match t {
                0 => q.main.push(o),
                1 => q.b1.push(o),
                _ => q.b2.push(o),
            }
        }
        // threads that are never resumed contribute nothing: make sure main resumes what exists
        if !q.b1.is_empty() && !q.main.iter().any(|o| *o == Op::Resume(1)) {
            let at = self.rng.below(q.main.len() as u64 + 1) as usize;
            q.main.insert(at, Op::Resume(1));
        }
        if !q.b2.is_empty() && !q.main.iter().any(|o| *o == Op::Resume(2)) && !q.b1.iter().any(|o| *o == Op::Resume(2)) {
            let at = self.rng.below(q.main.len() as u64 + 1) as usize;
            q.main.insert(at, Op::Resume(2));
        }
        q
    }
}

/// All main-thread sequences of exactly `n` operations over the single-thread alphabet
/// {send c, recv c, load r, store r, force k (k < nl)} with the given lazies.
fn enumerate_single(n: usize, lazies: &[TExpr], out: &mut Vec<Seq>) {
    let nl = lazies.len();
    let alpha = 8 + nl;
    let mut idx = vec![0usize; n];
    loop {
        let mut v = 10;
        let mut main = vec![];
        for &i in &idx {
            v += 1;
            main.push(match i {
                0 => Op::Send(0, v),
                1 => Op::Send(1, v),
                2 => Op::Recv(0),
                3 => Op::Recv(1),
                4 => Op::Load(0),
                5 => Op::Load(1),
                6 => Op::Store(0, v),
                7 => Op::Store(1, v),
                k => Op::Force(k - 8),
            });
        }
        out.push(Seq { lazies: lazies.to_vec(), cells: [100, 200], b1: vec![], b2: vec![], main });
        let mut k = 0;
        while k < n {
            idx[k] += 1;
            if idx[k] < alpha {
                break;
            }
            idx[k] = 0;
            k += 1;
        }
        if k == n {
            break;
        }
    }
}

/// All main-thread sequences of exactly `n` operations over the given sub-alphabet (symbol numbers as in
/// `enumerate_single`: 0/1 send, 2/3 recv, 4/5 load, 6/7 store, 8+k force k).
fn enumerate_syms(n: usize, syms: &[usize], lazies: &[TExpr], out: &mut Vec<Seq>) {
    let mut idx = vec![0usize; n];
    loop {
        let mut v = 10;
        let mut main = vec![];
        for &i in &idx {
            v += 1;
            main.push(match syms[i] {
                0 => Op::Send(0, v),
                1 => Op::Send(1, v),
                2 => Op::Recv(0),
                3 => Op::Recv(1),
                4 => Op::Load(0),
                5 => Op::Load(1),
                6 => Op::Store(0, v),
                7 => Op::Store(1, v),
                k => Op::Force(k - 8),
            });
        }
        out.push(Seq { lazies: lazies.to_vec(), cells: [100, 200], b1: vec![], b2: vec![], main });
        let mut k = 0;
        while k < n {
            idx[k] += 1;
            if idx[k] < syms.len() {
                break;
            }
            idx[k] = 0;
            k += 1;
        }
        if k == n {
            break;
        }
    }
}

/// All two-thread schedules: main = interleavings of `resume 1` with operations, body 1 fixed shapes.
/// Enumerates every (main, b1) with |main| + |b1| = n over the small alphabet
/// {send 0, recv 0, force 0, force-outside-catch 0, resume 1 / yield}.
fn enumerate_threads(n: usize, syms: &[usize], lazy0: &TExpr, out: &mut Vec<Seq>) {
    for n1 in 1..n {
        let nm = n - n1;
        let mut idx = vec![0usize; n];
        loop {
            let mut v = 10;
            let mk = |i: usize, t: usize, v: &mut i64| {
                *v += 1;
                match syms[i] {
                    0 => Op::Send(0, *v),
                    1 => Op::Recv(0),
                    2 => Op::Force(0),
                    4 => Op::ForceU(0),
                    _ => {
                        if t == 0 {
                            Op::Resume(1)
                        } else {
                            Op::Yield
                        }
                    }
                }
            };
            let main: Vec<Op> = idx[..nm].iter().map(|&i| mk(i, 0, &mut v)).collect();
            let b1: Vec<Op> = idx[nm..].iter().map(|&i| mk(i, 1, &mut v)).collect();
            if main.iter().any(|o| *o == Op::Resume(1)) {
                out.push(Seq { lazies: vec![lazy0.clone()], cells: [100, 200], b1, b2: vec![], main });
            }
            let mut k = 0;
            while k < n {
                idx[k] += 1;
                if idx[k] < syms.len() {
                    break;
                }
                idx[k] = 0;
                k += 1;
            }
            if k == n {
                break;
            }
        }
    }
}

// ---------------------------------------------------------------------------------------------

fn render_payload(status: &str, log: &[Event]) -> String {
    let mut s = format!("({}", status);
    for e in log {
        s.push_str(&format!(" ({} {} {} {})", e.0, e.1, e.2, e.3));
    }
    s.push(')');
    s
}

fn parse_request(req: &str) -> Option<Seq> {
    // minimal s-expression reader for `prog (lazies …) (cells a b) (b1 …) (b2 …) (main …)`
    #[derive(Debug)]
    enum S {
        A(String),
        L(Vec<S>),
    }
    fn parse(ts: &mut std::iter::Peekable<std::vec::IntoIter<String>>) -> Option<S> {
        let t = ts.next()?;
        if t == "(" {
            let mut v = vec![];
            while ts.peek()? != ")" {
                v.push(parse(ts)?);
            }
            ts.next();
            Some(S::L(v))
        } else {
            Some(S::A(t))
        }
    }
    let spaced = format!("({})", req).replace('(', " ( ").replace(')', " ) ");
    let toks: Vec<String> = spaced.split_whitespace().map(|s| s.to_string()).collect();
    let top = parse(&mut toks.into_iter().peekable())?;
    let items = match top {
        S::L(v) => v,
        _ => return None,
    };
    let num = |s: &S| -> Option<i64> {
        match s {
            S::A(a) => a.parse().ok(),
            _ => None,
        }
    };
    let ops = |s: &S| -> Option<Vec<Op>> {
        let v = match s {
            S::L(v) => v,
            _ => return None,
        };
        let mut r = vec![];
        for o in &v[1..] {
            r.push(match o {
                S::A(a) if a == "yield" => Op::Yield,
                S::L(x) => {
                    let h = match &x[0] {
                        S::A(a) => a.as_str(),
                        _ => return None,
                    };
                    let a1 = num(&x[1])?;
                    match h {
                        "send" => Op::Send(a1 as usize, num(&x[2])?),
                        "recv" => Op::Recv(a1 as usize),
                        "load" => Op::Load(a1 as usize),
                        "store" => Op::Store(a1 as usize, num(&x[2])?),
                        "force" => Op::Force(a1 as usize),
                        "forceu" => Op::ForceU(a1 as usize),
                        "resume" => Op::Resume(a1 as usize),
                        _ => return None,
                    }
                }
                _ => return None,
            });
        }
        Some(r)
    };
    let lz = match &items[1] {
        S::L(v) => v[1..]
            .iter()
            .map(|t| match t {
                S::A(a) if a == "boom" => Some(TExpr::Boom),
                S::L(x) => match &x[0] {
                    S::A(h) if h == "val" => Some(TExpr::Val(num(&x[1])?)),
                    S::A(h) if h == "add" => Some(TExpr::Add(num(&x[1])? as usize, num(&x[2])?)),
                    _ => None,
                },
                _ => None,
            })
            .collect::<Option<Vec<_>>>()?,
        _ => return None,
    };
    let cells = match &items[2] {
        S::L(v) => [num(&v[1])?, num(&v[2])?],
        _ => return None,
    };
    Some(Seq { lazies: lz, cells, b1: ops(&items[3])?, b2: ops(&items[4])?, main: ops(&items[5])? })
}

fn replay(path: &std::path::Path) {
    let v: Value = serde_json::from_str(&std::fs::read_to_string(path).unwrap()).unwrap();
    let case = if v.get("case").is_some() { &v["case"] } else { &v };
    let req = case["request"].as_str().expect("replay file needs case.request");
    let q = parse_request(req).expect("unparseable request");
    println!("request: {}", req);
    println!("program:\n{}", program(&[&q]));
    let r = run_all(vec![(0, program(&[&q]))], false, 1, 1, Duration::from_secs(60));
    let r0 = &r[&0];
    println!("polled run: status={} msg={} log={}", r0.status, r0.msg, render_payload(&r0.status, &strip_sep(&r0.log)));
    let mut r0s = r0.clone();
    r0s.log = strip_sep(&r0.log);
    for f in oracle(&q, &r0s) {
        println!("ORACLE FAILURE {}: {}", f.fingerprint, f.what);
    }
    let rb = run_all(vec![(0, program(&[&q]))], true, 1, 1, Duration::from_secs(10));
    println!("blocking run_expr under a 10 s watchdog: status={} {}", rb[&0].status, rb[&0].msg);
}

fn strip_sep(log: &[Event]) -> Vec<Event> {
    log.iter().filter(|e| e.1 != 99).cloned().collect()
}

fn main() {
    let a: Vec<String> = std::env::args().collect();
    if a.iter().any(|x| x == "--child") {
        child_main();
        return;
    }
    if a.len() >= 3 && a[1] == "--probe" {
        let src = std::fs::read_to_string(&a[2]).unwrap();
        let (st, msg) = run_program(&src, a.len() > 3);
        println!("{} {} {:?}", st, msg, take_log());
        return;
    }
    gv::quiet_panics();
    let args = Args::parse();
    if let Some(p) = &args.replay {
        replay(p);
        // still produce (empty) outputs so that ./check can finish
        Out::new(&args.out).finish();
        return;
    }
    let mut out = Out::new(&args.out);
    let thorough = args.thorough();
    let workers = 8;

    // ---- the case list: corpus first, then enumerations, then random
    let mut seqs: Vec<(Seq, &'static str)> = vec![];
    if let Ok(rd) = std::fs::read_dir("/verif/corpus/C17") {
        let mut files: Vec<_> = rd.filter_map(|e| e.ok()).map(|e| e.path()).collect();
        files.sort();
        for f in files {
            if let Ok(s) = std::fs::read_to_string(&f) {
                if let Ok(v) = serde_json::from_str::<Value>(&s) {
                    let case = if v.get("case").is_some() { &v["case"] } else { &v };
                    if let Some(q) = case["request"].as_str().and_then(parse_request) {
                        seqs.push((q, "corpus"));
                    }
                }
            }
        }
    }
    let exh_single = if thorough { 5 } else { 4 };
    let exh_threads = if thorough { 5 } else { 4 };
    {
        let mut v = vec![];
        // single thread: channels + cells exhaustively, with one good and one failing/self-dependent lazy
        let lz_sets: Vec<Vec<TExpr>> = vec![
            vec![TExpr::Val(42), TExpr::Boom],
            vec![TExpr::Add(1, 1), TExpr::Add(0, 2)],
        ];
        for n in 0..=exh_single {
            enumerate_single(n, &lz_sets[0], &mut v);
        }
        for n in 1..=(exh_single - 1) {
            // second lazy set: only sequences that force something are new
            let mut w = vec![];
            enumerate_single(n, &lz_sets[1], &mut w);
            v.extend(w.into_iter().filter(|q| q.main.iter().any(|o| matches!(o, Op::Force(_)))));
        }
        for q in v {
            seqs.push((q, "exh-single"));
        }
        let mut v = vec![];
        for n in 2..=exh_threads {
            enumerate_threads(n, &[0, 1, 2, 3, 4], &TExpr::Val(7), &mut v);
        }
        for n in 2..=(exh_threads - 1) {
            let mut w = vec![];
            enumerate_threads(n, &[0, 1, 2, 3, 4], &TExpr::Boom, &mut w);
            v.extend(w.into_iter().filter(|q| q.main.iter().chain(q.b1.iter()).any(|o| matches!(o, Op::Force(_) | Op::ForceU(_)))));
            let mut w = vec![];
            enumerate_threads(n, &[0, 1, 2, 3, 4], &TExpr::Add(0, 1), &mut w);
            v.extend(w.into_iter().filter(|q| q.main.iter().chain(q.b1.iter()).any(|o| matches!(o, Op::Force(_) | Op::ForceU(_)))));
        }
        for q in v {
            seqs.push((q, "exh-threads"));
        }
    }
    // narrower alphabets, longer sequences
    let (len_chan1, len_chan2, len_cells, len_lazy, len_thr_chan) = if thorough { (10, 7, 6, 5, 7) } else { (8, 6, 5, 4, 6) };
    {
        let mut v = vec![];
        for n in (exh_single + 1)..=len_chan1 {
            enumerate_syms(n, &[0, 2], &[], &mut v); // one channel: send / recv
        }
        for n in (exh_single + 1)..=len_chan2 {
            enumerate_syms(n, &[0, 1, 2, 3], &[], &mut v); // two channels
        }
        for q in v {
            seqs.push((q, "exh-channels"));
        }
        let mut v = vec![];
        for n in (exh_single + 1)..=len_cells {
            enumerate_syms(n, &[4, 5, 6, 7], &[], &mut v);
        }
        for q in v {
            seqs.push((q, "exh-cells"));
        }
        // lazies only: every force sequence over representative dependency shapes
        let lazy_sets: Vec<Vec<TExpr>> = vec![
            vec![TExpr::Val(5), TExpr::Add(0, 1), TExpr::Add(1, 2)],  // chain of good ones
            vec![TExpr::Boom, TExpr::Add(0, 1), TExpr::Add(1, 2)],    // chain onto a failing one
            vec![TExpr::Add(0, 1), TExpr::Add(0, 2), TExpr::Val(3)],  // self-dependent + dependant
            vec![TExpr::Add(1, 1), TExpr::Add(2, 2), TExpr::Add(0, 3)], // 3-cycle
            vec![TExpr::Add(1, 1), TExpr::Add(0, 2), TExpr::Boom],    // 2-cycle + failing
            vec![TExpr::Add(2, 1), TExpr::Add(2, 2), TExpr::Val(9)],  // diamond onto a good one
            vec![TExpr::Add(2, 1), TExpr::Add(2, 2), TExpr::Boom],    // diamond onto a failing one
            vec![TExpr::Add(1, 1), TExpr::Add(1, 2), TExpr::Val(4)],  // depends on a self-dependent one
        ];
        let mut v = vec![];
        for lz in &lazy_sets {
            for n in 1..=len_lazy {
                enumerate_syms(n, &[8, 9, 10], lz, &mut v);
            }
        }
        for q in v {
            seqs.push((q, "exh-lazies"));
        }
        // two threads, one channel: {send 0, recv 0, resume 1 / yield}
        let mut v = vec![];
        for n in 2..=len_thr_chan {
            enumerate_threads(n, &[0, 1, 3], &TExpr::Val(7), &mut v);
        }
        for q in v {
            seqs.push((q, "exh-thread-channel"));
        }
    }
    out.stats.insert("exhaustive_one_channel_up_to_ops".into(), (len_chan1 as u64).into());
    out.stats.insert("exhaustive_two_channels_up_to_ops".into(), (len_chan2 as u64).into());
    out.stats.insert("exhaustive_cells_up_to_ops".into(), (len_cells as u64).into());
    out.stats.insert("exhaustive_lazies_up_to_forces".into(), (len_lazy as u64).into());
    out.stats.insert("exhaustive_two_thread_one_channel_up_to_ops".into(), (len_thr_chan as u64).into());
    out.stats.insert("exhaustive_single_thread_up_to_ops".into(), (exh_single as u64).into());
    out.stats.insert("exhaustive_two_thread_up_to_ops".into(), (exh_threads as u64).into());
    let n_rand = if thorough { 30000 } else { 2500 };
    let mut g = Gen { rng: gv::rng::Rng::new(args.seed, 17), next_val: 10 };
    for i in 0..n_rand {
        let max_ops = if i % 4 == 0 { 16 } else { 8 };
        seqs.push((g.seq(max_ops), "random"));
    }

    // ---- group into programs: safe sequences are batched, risky ones run alone
    let batch = 20;
    let mut programs: Vec<Vec<usize>> = vec![];
    let mut cur: Vec<usize> = vec![];
    for (i, (q, _)) in seqs.iter().enumerate() {
        if risky(q) {
            programs.push(vec![i]);
        } else {
            cur.push(i);
            if cur.len() == batch {
                programs.push(std::mem::take(&mut cur));
            }
        }
    }
    if !cur.is_empty() {
        programs.push(cur);
    }
    let mk_src = |idxs: &Vec<usize>| program(&idxs.iter().map(|&i| &seqs[i].0).collect::<Vec<_>>());
    let jobs: Vec<(usize, String)> = programs.iter().enumerate().map(|(p, idxs)| (p, mk_src(idxs))).collect();
    let n_programs = jobs.len();
    let res = run_all(jobs, false, workers, 25, Duration::from_secs(120));

    // split batch logs; batches that did not end `ok` with the right number of parts are re-run alone
    let mut per_seq: BTreeMap<usize, RunResult> = BTreeMap::new();
    let mut redo: Vec<usize> = vec![];
    for (p, idxs) in programs.iter().enumerate() {
        let r = &res[&p];
        if idxs.len() == 1 {
            let mut r1 = r.clone();
            r1.log = strip_sep(&r.log);
            per_seq.insert(idxs[0], r1);
            continue;
        }
        let mut parts: Vec<Vec<Event>> = vec![];
        for e in &r.log {
            if e.1 == 99 {
                parts.push(vec![]);
            } else if let Some(l) = parts.last_mut() {
                l.push(*e);
            }
        }
        if r.status == "ok" && parts.len() == idxs.len() {
            for (i, l) in idxs.iter().zip(parts) {
                per_seq.insert(*i, RunResult { status: "ok".into(), msg: String::new(), log: l });
            }
        } else {
            redo.extend(idxs.iter().cloned());
        }
    }
    out.add("programs", n_programs as u64);
    out.add("batched-sequences-rerun-alone", redo.len() as u64);
    if !redo.is_empty() {
        let jobs: Vec<(usize, String)> = redo.iter().map(|&i| (i, program(&[&seqs[i].0]))).collect();
        let res2 = run_all(jobs, false, workers, 25, Duration::from_secs(120));
        for (i, r) in res2 {
            let mut r1 = r.clone();
            r1.log = strip_sep(&r.log);
            per_seq.insert(i, r1);
        }
    }

    // ---- oracle + correspondence output
    let mut confirm: BTreeMap<String, usize> = BTreeMap::new(); // fingerprint -> first sequence
    let mut all_fails: Vec<(usize, Failure)> = vec![];
    for (i, (q, origin)) in seqs.iter().enumerate() {
        let r = &per_seq[&i];
        let req = q.request();
        let payload = render_payload(&r.status, &r.log);
        out.count(&format!("origin:{}", origin));
        out.count(&format!("status:{}", r.status.trim_matches(|c| c == '(' || c == ')').replace(' ', "-")));
        for e in &r.log {
            out.count(&format!("event-kind:{}", e.1));
        }
        let nops = q.main.len() + q.b1.len() + q.b2.len();
        out.count(&format!("ops:{}", if nops > 8 { "9+".to_string() } else { nops.to_string() }));
        if nops >= 2 {
            out.class(format!("{}=>{}", q.shape(), r.status));
        }
        if i % 397 == 3 {
            out.sample(json!({"request": req, "impl": payload}));
        }
        for f in oracle(q, r) {
            confirm.entry(f.fingerprint.clone()).or_insert(i);
            all_fails.push((i, f));
        }
        out.case(&req, &payload);
    }
    // confirm hangs with the real blocking run_expr under the watchdog (first of each fingerprint)
    let watchdog = Duration::from_secs(if thorough { 10 } else { 4 });
    let to_confirm: Vec<(String, usize)> = confirm
        .iter()
        .filter(|(fp, _)| fp.starts_with("hang:"))
        .map(|(fp, i)| (fp.clone(), *i))
        .collect();
    let mut confirmed: BTreeMap<String, String> = BTreeMap::new();
    if !to_confirm.is_empty() {
        let jobs: Vec<(usize, String)> = to_confirm.iter().map(|(_, i)| (*i, program(&[&seqs[*i].0]))).collect();
        let rb = run_all(jobs, true, workers, 1, watchdog);
        for (fp, i) in &to_confirm {
            confirmed.insert(fp.clone(), rb[i].status.clone());
            out.count(&format!("hang-confirmed-by-watchdog:{}:{}", fp, rb[i].status));
        }
    }
    for (i, f) in all_fails {
        let mut what = f.what.clone();
        if let Some(st) = confirmed.get(&f.fingerprint) {
            if st != "timeout" {
                // polling said hang but the real blocking call finished: our detection would be wrong
                what = format!("{} [blocking run_expr answered {} — hang detection disagrees]", what, st);
            } else {
                what = format!("{} [confirmed: blocking run_expr killed by the {} s watchdog]", what, watchdog.as_secs());
            }
        }
        out.count(&format!("oracle:{}", f.fingerprint));
        out.oracle_fail(&f.fingerprint, &what, seqs[i].0.to_json());
    }
    out.finish();
}
