//! Serializer of the public `gluon_vm::core::Expr` to the S-expression form read by
//! `lean/Driver/C04.lean`.  Symbols compare by address in gluon (base/src/symbol.rs:249), so every
//! symbol gets a canonical name `<declared name>~<k>` with k the index of its first occurrence
//! in a pre-order walk of the *input* expression; symbols that first appear in an optimiser's
//! output (the `dummy` binders of optimize.rs:223) are printed `dummy%<j>` by first occurrence
//! in that output.
use gluon::vm::core::{Alternative, Expr, Literal, Named, Pattern};
use gluon_base::symbol::{Symbol, SymbolRef};
use gluon_base::types::TypeExt;
use gv::quote;
use std::collections::HashMap;

#[derive(Default)]
pub struct Names {
    map: HashMap<usize, String>,
    next: usize,
    pub extra: HashMap<usize, String>,
    frozen: bool,
}

fn key(s: &SymbolRef) -> usize {
    s.as_str().as_ptr() as usize
}

pub fn base_name(s: &SymbolRef) -> String {
    let raw = s.as_str();
    if raw.starts_with('#') {
        return raw.to_string();
    }
    if raw.starts_with("bind_arg0x") {
        return "bind_arg".to_string();
    }
    let d = s.declared_name();
    // keep the module path of globals out; strip anything odd
    d.chars().map(|c| if c.is_ascii_alphanumeric() || "_+-*/<>=#.&|".contains(c) { c } else { '_' }).collect()
}

impl Names {
    pub fn freeze(&mut self) {
        self.frozen = true;
        self.extra.clear();
    }
    pub fn name(&mut self, s: &SymbolRef) -> String {
        let k = key(s);
        if let Some(n) = self.map.get(&k) {
            return n.clone();
        }
        let raw = s.as_str();
        if raw.starts_with('#') {
            // builtin operators are identified by their text only
            return quote(raw);
        }
        if self.frozen {
            if let Some(n) = self.extra.get(&k) {
                return n.clone();
            }
            let n = quote(&format!("dummy%{}", self.extra.len()));
            self.extra.insert(k, n.clone());
            return n;
        }
        let n = quote(&format!("{}~{}", base_name(s), self.next));
        self.next += 1;
        self.map.insert(k, n.clone());
        n
    }
    pub fn lookup(&self, s: &SymbolRef) -> Option<String> {
        self.map.get(&key(s)).cloned()
    }
}

pub fn lit(l: &Literal) -> String {
    match l {
        Literal::Byte(b) => format!("(b {})", b),
        Literal::Int(i) => format!("(i {})", i),
        Literal::Float(f) => format!("(f {})", f.into_inner().to_bits()),
        Literal::String(s) => format!("(s {})", quote(s)),
        Literal::Char(c) => format!("(ch {})", *c as u32),
    }
}

fn ctor_name(s: &Symbol) -> String {
    quote(s.declared_name())
}

pub fn pat(p: &Pattern, n: &mut Names) -> String {
    match p {
        Pattern::Constructor(id, args) => {
            let a: Vec<String> = args.iter().map(|a| n.name(&a.name)).collect();
            format!("(pc {} ({}))", ctor_name(&id.name), a.join(" "))
        }
        Pattern::Record { fields, .. } => {
            let f: Vec<String> = fields
                .iter()
                .map(|(fld, b)| {
                    let binder = b.as_ref().unwrap_or(&fld.name);
                    format!("({} {})", quote(fld.name.declared_name()), n.name(binder))
                })
                .collect();
            format!("(pr ({}))", f.join(" "))
        }
        Pattern::Ident(id) => format!("(pi {})", n.name(&id.name)),
        Pattern::Literal(l) => format!("(pl {})", lit(l)),
    }
}

pub fn expr(e: &Expr, n: &mut Names) -> String {
    match e {
        Expr::Const(l, _) => format!("(c {})", lit(l)),
        Expr::Ident(id, _) => format!("(v {})", n.name(&id.name)),
        Expr::Call(f, args) => {
            let mut s = format!("(call {}", expr(f, n));
            for a in args.iter() {
                s.push(' ');
                s.push_str(&expr(a, n));
            }
            s.push(')');
            s
        }
        Expr::Data(id, args, _) => {
            // field names of the record type as optimize.rs:253 reads them (`id.typ.row_iter()`)
            let rows: Vec<String> = id.typ.row_iter().map(|f| quote(f.name.declared_name())).collect();
            let mut s = format!("(data {} ({})", ctor_name(&id.name), rows.join(" "));
            for a in args.iter() {
                s.push(' ');
                s.push_str(&expr(a, n));
            }
            s.push(')');
            s
        }
        Expr::Let(b, body) => match &b.expr {
            Named::Expr(be) => {
                let nm = n.name(&b.name.name);
                let be = expr(be, n);
                format!("(let {} {} {})", nm, be, expr(body, n))
            }
            Named::Recursive(cs) => {
                // DepGraph adds the nodes of all closures first (dead_code.rs:285)
                let names: Vec<String> = cs.iter().map(|c| n.name(&c.name.name)).collect();
                let mut s = String::from("(rec (");
                for (i, c) in cs.iter().enumerate() {
                    if i > 0 {
                        s.push(' ');
                    }
                    let args: Vec<String> = c.args.iter().map(|a| n.name(&a.name)).collect();
                    let body = expr(c.expr, n);
                    s.push_str(&format!("({} ({}) {})", names[i], args.join(" "), body));
                }
                s.push_str(") ");
                s.push_str(&expr(body, n));
                s.push(')');
                s
            }
        },
        Expr::Match(scrut, alts) => {
            let mut s = format!("(match {}", expr(scrut, n));
            for Alternative { pattern, expr: ae } in alts.iter() {
                let p = pat(pattern, n);
                s.push_str(&format!(" ({} {})", p, expr(ae, n)));
            }
            s.push(')');
            s
        }
        Expr::Cast(e, _) => format!("(cast {})", expr(e, n)),
    }
}
