//! C14 correspondence + oracle: several OS threads compile and run generated programs on sibling
//! Gluon threads of one VM.
//!
//! Every case runs in a child process (watchdog: a hang is an OUTCOME = deadlock; a signal is an
//! outcome = memory corruption).  Two kinds of case:
//!
//! * `par`  — N (2..16) OS threads, each running a generated program on its own sibling thread
//!   (`vm.new_thread()`), with overlapping `import!` sets over K small generated modules (whose
//!   bodies call the counting extern `c14tick.tick`, which also sleeps a seeded number of
//!   microseconds so that "module is being evaluated" windows overlap), overlapping imports of
//!   real std modules, allocation pressure (list building, child collections), optionally a
//!   collector OS thread calling `root.collect()` all the time (parent collection locking every
//!   descendant), optionally threads created concurrently (`new_thread` while siblings run), and
//!   producer/consumer pairs over `std.channel`.  Start order and delays are seeded.
//!     impl.txt:  observed module-body counters and per-thread results;
//!     model:     the `Once` cells driven through a seeded random event schedule + the program
//!                value function;
//!     oracle:    parallel result == solo result (same programs run one after the other on a
//!                second VM), every requested module body ran exactly once, nothing hangs/crashes.
//! * `locks` — two OS threads each repeating one VM operation many times on threads of one VM
//!   (`re_root` dst←src, `collect`, calling a function with an argument rooted elsewhere,
//!   `new_thread`).  impl.txt: whether the pair hung; model: exhaustive search of the `Locks` model
//!   (acquisition orders read from the code); oracle: a hang is a deadlock.
use gluon::query::CompilationBase;
use gluon::vm::api::{FunctionRef, OpaqueValue, IO};
use gluon::vm::channel::{ChannelRecord, Receiver, Sender};
use gluon::vm::thread::RootedValue;
use gluon::vm::ExternModule;
use gluon::{primitive, record, record_p, RootedThread, Thread, ThreadExt};
use gv::rng::Rng;
use gv::{Args, Out};
use serde_json::{json, Value};
use std::io::Read;
use std::sync::atomic::{AtomicBool, AtomicU64, Ordering};
use std::sync::{Arc, Barrier};
use std::time::Duration;

const MAXMOD: usize = 16;

// ---------------------------------------------------------------------------------------------
// counting extern: `tick i v` records that the body of module i ran (and dawdles a little)
#[allow(clippy::declare_interior_mutable_const)]
const Z: AtomicU64 = AtomicU64::new(0);
static TICKS: [AtomicU64; MAXMOD] = [Z; MAXMOD];
static SLEEP_US: [AtomicU64; MAXMOD] = [Z; MAXMOD];
static LOADS: AtomicU64 = AtomicU64::new(0);

fn tick(i: i64, v: i64) -> i64 {
    let i = i as usize % MAXMOD;
    TICKS[i].fetch_add(1, Ordering::SeqCst);
    let us = SLEEP_US[i].load(Ordering::Relaxed);
    if us == 1 {
        std::thread::yield_now();
    } else if us > 1 {
        std::thread::sleep(Duration::from_micros(us));
    }
    v
}
fn load_tick(vm: &Thread) -> gluon::vm::Result<ExternModule> {
    LOADS.fetch_add(1, Ordering::SeqCst);
    ExternModule::new(vm, record! { tick => primitive!(2, tick) })
}
fn take_counts(k: usize) -> (Vec<u64>, u64) {
    let c = (0..k).map(|i| TICKS[i].swap(0, Ordering::SeqCst)).collect();
    (c, LOADS.swap(0, Ordering::SeqCst))
}

// ---------------------------------------------------------------------------------------------
// cases
#[derive(Clone, Debug)]
struct Module {
    c: i64,
    deps: Vec<usize>,
    sleep_us: u64,
}

#[derive(Clone, Debug, PartialEq)]
enum Role {
    Plain,
    /// sends k arrays `[i, 2i]`, i = 1..k, on channel `ch`
    Prod(usize, i64),
    /// receives k arrays from channel `ch`
    Cons(usize, i64),
}

#[derive(Clone, Debug)]
struct Prog {
    imports: Vec<usize>,
    alloc: i64,
    reps: i64,
    std: bool,
    role: Role,
    delay_us: u64,
}

#[derive(Clone, Debug)]
struct ParCase {
    modules: Vec<Module>,
    progs: Vec<Prog>,
    nchan: usize,
    collector: bool,
    spawn_inside: bool,
}

fn module_text(i: usize, m: &Module) -> String {
    let mut s = String::from("let t = import! c14tick\n");
    for d in &m.deps {
        s.push_str(&format!("let d{} = import! c14m{}\n", d, d));
    }
    let mut e = format!("{}", m.c);
    for d in &m.deps {
        e.push_str(&format!(" #Int+ d{}.v", d));
    }
    s.push_str(&format!("{{ v = t.tick {} ({}) }}\n", i, e));
    s
}

fn prog_text(p: &Prog) -> String {
    let mut s = String::new();
    for i in &p.imports {
        s.push_str(&format!("let m{} = import! c14m{}\n", i, i));
    }
    let chan = p.role != Role::Plain;
    if p.std || chan {
        s.push_str("let { Result } = import! std.types\n");
        s.push_str("let chan = import! std.channel\n");
        s.push_str("let io = import! std.io.prim\n");
        s.push_str("let arr = import! std.array.prim\n");
    }
    s.push_str("type L = | Nil | Cons Int L\n");
    s.push_str("rec let build n acc : Int -> L -> L =\n    if n #Int== 0 then acc else build (n #Int- 1) (Cons n acc)\n");
    s.push_str("let sum l acc : L -> Int -> Int =\n    match l with\n    | Nil -> acc\n    | Cons x xs -> sum xs (acc #Int+ x)\n");
    s.push_str(&format!(
        "let rep r acc : Int -> Int -> Int =\n    if r #Int== 0 then acc else rep (r #Int- 1) (acc #Int+ sum (build {} Nil) 0)\nin\n",
        p.alloc
    ));
    let mut base = format!("rep {} 0", p.reps);
    for i in &p.imports {
        base.push_str(&format!(" #Int+ m{}.v", i));
    }
    s.push_str(&format!("let base = {}\n", base));
    match p.role {
        Role::Plain => s.push_str("base\n"),
        Role::Prod(_, k) => {
            s.push_str("\\sender ->\n");
            s.push_str(&format!(
                "    rec let go i = if i #Int< {} then io.flat_map (\\_ -> go (i #Int+ 1)) (chan.send sender [i, i #Int* 2]) else io.wrap base\n    in\n",
                k + 1
            ));
            s.push_str("    go 1\n");
        }
        Role::Cons(_, _) => {
            s.push_str("\\receiver ->\n");
            s.push_str("    let k r =\n        match r with\n        | Ok x -> io.wrap (base #Int+ arr.index x 1)\n        | Err _ -> io.wrap (0 #Int- 1)\n    io.flat_map k (chan.recv receiver)\n");
        }
    }
    s
}

impl ParCase {
    fn to_json(&self) -> Value {
        json!({
            "kind": "par",
            "modules": self.modules.iter().map(|m| json!({"c": m.c, "deps": m.deps, "sleep_us": m.sleep_us})).collect::<Vec<_>>(),
            "progs": self.progs.iter().map(|p| json!({
                "imports": p.imports, "alloc": p.alloc, "reps": p.reps, "std": p.std, "delay_us": p.delay_us,
                "role": match p.role { Role::Plain => json!(["plain"]), Role::Prod(c, k) => json!(["prod", c, k]), Role::Cons(c, k) => json!(["cons", c, k]) },
            })).collect::<Vec<_>>(),
            "nchan": self.nchan, "collector": self.collector, "spawn_inside": self.spawn_inside,
        })
    }
    fn from_json(v: &Value) -> ParCase {
        let us = |x: &Value| x.as_u64().unwrap() as usize;
        ParCase {
            modules: v["modules"].as_array().unwrap().iter().map(|m| Module {
                c: m["c"].as_i64().unwrap(),
                deps: m["deps"].as_array().unwrap().iter().map(us).collect(),
                sleep_us: m["sleep_us"].as_u64().unwrap(),
            }).collect(),
            progs: v["progs"].as_array().unwrap().iter().map(|p| {
                let r = p["role"].as_array().unwrap();
                Prog {
                    imports: p["imports"].as_array().unwrap().iter().map(us).collect(),
                    alloc: p["alloc"].as_i64().unwrap(),
                    reps: p["reps"].as_i64().unwrap(),
                    std: p["std"].as_bool().unwrap(),
                    delay_us: p["delay_us"].as_u64().unwrap(),
                    role: match r[0].as_str().unwrap() {
                        "prod" => Role::Prod(us(&r[1]), r[2].as_i64().unwrap()),
                        "cons" => Role::Cons(us(&r[1]), r[2].as_i64().unwrap()),
                        _ => Role::Plain,
                    },
                }
            }).collect(),
            nchan: us(&v["nchan"]),
            collector: v["collector"].as_bool().unwrap(),
            spawn_inside: v["spawn_inside"].as_bool().unwrap(),
        }
    }
    /// modules requested by anybody (transitively)
    fn requested(&self) -> Vec<bool> {
        let mut r = vec![false; self.modules.len()];
        let mut todo: Vec<usize> = self.progs.iter().flat_map(|p| p.imports.clone()).collect();
        while let Some(m) = todo.pop() {
            if !r[m] {
                r[m] = true;
                todo.extend(self.modules[m].deps.iter().cloned());
            }
        }
        r
    }
    fn closure(&self, p: &Prog) -> Vec<usize> {
        let mut r = vec![false; self.modules.len()];
        let mut todo = p.imports.clone();
        while let Some(m) = todo.pop() {
            if !r[m] {
                r[m] = true;
                todo.extend(self.modules[m].deps.iter().cloned());
            }
        }
        (0..r.len()).filter(|i| r[*i]).collect()
    }
}

// ---------------------------------------------------------------------------------------------
// child: run one case on the real implementation
type Chan = (
    OpaqueValue<RootedThread, Sender<Vec<i64>>>,
    OpaqueValue<RootedThread, Receiver<Vec<i64>>>,
);

fn mk_vm(case: &ParCase) -> Result<(RootedThread, Vec<Chan>), String> {
    let vm = gv::vm::new_vm();
    {
        let mut db = vm.get_database_mut();
        db.set_implicit_prelude(false);
        db.run_io(true);
    }
    gluon::import::add_extern_module(&vm, "c14tick", load_tick);
    for (i, m) in case.modules.iter().enumerate() {
        SLEEP_US[i].store(m.sleep_us, Ordering::Relaxed);
        vm.get_database_mut()
            .add_module(format!("c14m{}", i), &module_text(i, m));
    }
    let mut chans = vec![];
    if case.nchan > 0 {
        // registers the Sender/Receiver types (as tests/parallel.rs does)
        vm.run_expr::<()>("chan_init", "let _ = import! std.channel in ()")
            .map_err(|e| format!("channel init: {}", e))?;
    }
    for c in 0..case.nchan {
        let (value, _) = vm
            .run_expr::<IO<_>>(
                &format!("chan{}", c),
                "let { channel } = import! std.channel in channel [0]",
            )
            .map_err(|e| format!("channel: {}", e))?;
        let record_p! { sender, receiver }: ChannelRecord<
            OpaqueValue<RootedThread, Sender<Vec<i64>>>,
            OpaqueValue<RootedThread, Receiver<Vec<i64>>>,
        > = Result::from(value).map_err(|e: String| format!("channel: {}", e))?;
        chans.push((sender, receiver));
    }
    Ok((vm, chans))
}

thread_local! {
    static PANIC_AT: std::cell::RefCell<String> = std::cell::RefCell::new(String::new());
}
/// remember where the last panic of this OS thread happened (`dir/file.rs:line`)
fn install_panic_hook() {
    std::panic::set_hook(Box::new(|info| {
        let at = match info.location() {
            Some(l) => {
                let f = l.file();
                let parts: Vec<&str> = f.rsplit('/').take(2).collect();
                format!("{}/{}:{}", parts.get(1).unwrap_or(&""), parts.first().unwrap_or(&""), l.line())
            }
            None => "unknown".to_string(),
        };
        eprintln!("c14-panic-at {}", at);
        PANIC_AT.with(|p| *p.borrow_mut() = at);
    }));
}
fn sanitize(e: &str, n: usize) -> String {
    let first = e.lines().next().unwrap_or("");
    let s: String = first.chars().take(n).collect();
    s.replace(|c: char| !c.is_ascii_alphanumeric(), "_")
}
fn err_class(e: &str) -> String {
    format!("err:{}", sanitize(e, 60))
}

/// Run program `p` on thread `th` (compile + run, the whole thing on the calling OS thread).
fn run_prog(th: &Thread, idx: usize, p: &Prog, chans: &[Chan], prod_done: &[AtomicBool], spin_limit: u64) -> String {
    let name = format!("prog{}", idx);
    let text = prog_text(p);
    match &p.role {
        Role::Plain => match th.run_expr::<i64>(&name, &text) {
            Ok((v, _)) => format!("ok:{}", v),
            Err(e) => err_class(&e.to_string()),
        },
        Role::Prod(c, _) => {
            let f: Result<
                (FunctionRef<fn(OpaqueValue<RootedThread, Sender<Vec<i64>>>) -> IO<i64>>, _),
                _,
            > = th.run_expr(&name, &text);
            match f {
                Err(e) => err_class(&e.to_string()),
                Ok((mut f, _)) => match f.call(chans[*c].0.clone()) {
                    Ok(IO::Value(v)) => format!("ok:{}", v),
                    Ok(IO::Exception(e)) => err_class(&e),
                    Err(e) => err_class(&e.to_string()),
                },
            }
        }
        Role::Cons(c, k) => {
            let f: Result<
                (FunctionRef<fn(OpaqueValue<RootedThread, Receiver<Vec<i64>>>) -> IO<i64>>, _),
                _,
            > = th.run_expr(&name, &text);
            match f {
                Err(e) => err_class(&e.to_string()),
                Ok((mut f, _)) => {
                    let mut got = 0;
                    let mut acc = 0i64;
                    let mut spins = 0u64;
                    while got < *k {
                        // a producer that failed never sends the rest: do not spin for ever
                        let producer_was_done = prod_done[*c].load(Ordering::SeqCst);
                        match f.call(chans[*c].1.clone()) {
                            Ok(IO::Value(v)) if v >= 0 => {
                                got += 1;
                                acc += v;
                            }
                            Ok(IO::Value(_)) => {
                                spins += 1;
                                if producer_was_done || spins > spin_limit {
                                    return "err:consumer_starved".into();
                                }
                                std::thread::yield_now();
                            }
                            Ok(IO::Exception(e)) => return err_class(&e),
                            Err(e) => return err_class(&e.to_string()),
                        }
                    }
                    format!("ok:{}", acc)
                }
            }
        }
    }
}

fn child_par(case: &ParCase) -> Value {
    install_panic_hook();
    let n = case.progs.len();
    let k = case.modules.len();
    let t_solo = std::time::Instant::now();
    // ---- solo reference: the same programs, one after the other (producers before their
    // consumers), each on its own sibling thread of a second VM
    let _ = take_counts(MAXMOD);
    let mut solo = vec![String::new(); n];
    let solo_counts;
    {
        let (vm, chans) = match mk_vm(case) {
            Ok(x) => x,
            Err(e) => return json!({"setup_error": e}),
        };
        let solo_done: Vec<AtomicBool> = (0..case.nchan).map(|_| AtomicBool::new(false)).collect();
        let mut order: Vec<usize> = (0..n).collect();
        order.sort_by_key(|i| match case.progs[*i].role {
            Role::Prod(..) => 0,
            Role::Plain => 1,
            Role::Cons(..) => 2,
        });
        for i in order {
            let th = vm.new_thread().unwrap();
            solo[i] = run_prog(&th, i, &case.progs[i], &chans, &solo_done, 1000);
            if let Role::Prod(c, _) = case.progs[i].role {
                solo_done[c].store(true, Ordering::SeqCst);
            }
        }
        solo_counts = take_counts(k);
    }
    // ---- parallel
    let (vm, chans) = match mk_vm(case) {
        Ok(x) => x,
        Err(e) => return json!({"setup_error": e}),
    };
    // The machine may be heavily loaded: the sequential phase (VM creation + the same programs one
    // after the other) measures how slow it is right now; the parallel phase does the same work, so
    // if it takes more than 25x that (and more than 20 s) nothing is moving any more.
    let hang_after = Duration::from_secs(20).max(t_solo.elapsed() * 25);
    let chans = Arc::new(chans);
    let prod_done: Arc<Vec<AtomicBool>> = Arc::new((0..case.nchan).map(|_| AtomicBool::new(false)).collect());
    let barrier = Arc::new(Barrier::new(n + 1 + case.collector as usize));
    let done = Arc::new(AtomicBool::new(false));
    let mut handles = vec![];
    for i in 0..n {
        let p = case.progs[i].clone();
        let pre = if case.spawn_inside { None } else { Some(vm.new_thread().unwrap()) };
        let root = vm.clone();
        let (barrier, chans, prod_done) = (barrier.clone(), chans.clone(), prod_done.clone());
        handles.push(std::thread::spawn(move || {
            barrier.wait();
            if p.delay_us == 1 {
                std::thread::yield_now();
            } else if p.delay_us > 1 {
                std::thread::sleep(Duration::from_micros(p.delay_us));
            }
            let th = match pre {
                Some(t) => t,
                None => match root.new_thread() {
                    Ok(t) => t,
                    Err(e) => {
                        if let Role::Prod(c, _) = p.role {
                            prod_done[c].store(true, Ordering::SeqCst);
                        }
                        return err_class(&format!("new_thread {}", e));
                    }
                },
            };
            drop(root);
            let r = match gv::catch(|| run_prog(&th, i, &p, &chans, &prod_done, 50_000_000)) {
                Ok(r) => r,
                Err(msg) => format!("panic:{}:{}", PANIC_AT.with(|p| p.borrow().clone()), sanitize(&msg, 40)),
            };
            if let Role::Prod(c, _) = p.role {
                prod_done[c].store(true, Ordering::SeqCst);
            }
            r
        }));
    }
    let coll = if case.collector {
        let (root, barrier, done) = (vm.clone(), barrier.clone(), done.clone());
        Some(std::thread::spawn(move || {
            barrier.wait();
            let mut n = 0u64;
            while !done.load(Ordering::SeqCst) {
                root.collect();
                n += 1;
                std::thread::sleep(Duration::from_micros(200));
            }
            n
        }))
    } else {
        None
    };
    barrier.wait();
    let t_par = std::time::Instant::now();
    while !handles.iter().all(|h| h.is_finished()) {
        if t_par.elapsed() > hang_after {
            // report and leave: the stuck OS threads cannot be joined
            println!(
                "{}",
                json!({"hang": true, "waited_ms": t_par.elapsed().as_millis() as u64,
                       "finished": handles.iter().filter(|h| h.is_finished()).count()})
            );
            std::process::exit(0);
        }
        std::thread::sleep(Duration::from_millis(5));
    }
    let par: Vec<String> = handles
        .into_iter()
        .map(|h| h.join().unwrap_or_else(|_| "panic:os_thread".into()))
        .collect();
    done.store(true, Ordering::SeqCst);
    let collections = coll.map(|h| h.join().unwrap_or(0)).unwrap_or(0);
    let par_counts = take_counts(k);
    // a final collection of everything with all threads quiescent (not after a panic: a thread
    // that panicked while running has poisoned its context mutex)
    if !par.iter().any(|r| r.starts_with("panic:")) {
        vm.collect();
    }
    json!({
        "solo": solo, "par": par,
        "solo_counts": solo_counts.0, "solo_loads": solo_counts.1,
        "par_counts": par_counts.0, "par_loads": par_counts.1,
        "collections": collections,
    })
}

// ---------------------------------------------------------------------------------------------
// `fresh`: N OS threads on sibling threads, lined up by a barrier every round; in every round all
// of them compile and run a program over names nobody has interned before (the same names in all
// threads): record fields read through a row-polymorphic accessor, polymorphic variant tags, and
// the host reads the fields by name; besides, every thread interns K further fresh names directly.
fn fresh_field(b: u64, r: u64, i: u64) -> String {
    format!("c14b{}r{}f{}", b, r, i)
}
fn fresh_tag(b: u64, r: u64, c: &str) -> String {
    format!("C14b{}r{}{}", b, r, c)
}
fn fresh_extra(b: u64, r: u64, k: u64) -> String {
    format!("c14b{}r{}n{}", b, r, k)
}
fn fresh_val(t: u64, r: u64, i: u64) -> i64 {
    ((t + 1) * 100 + i + r) as i64
}
fn fresh_prog(b: u64, r: u64, t: u64, f: u64) -> String {
    let (ta, tb) = (fresh_tag(b, r, "A"), fresh_tag(b, r, "B"));
    let sum = (0..f).map(|i| format!("x.{}", fresh_field(b, r, i))).collect::<Vec<_>>().join(" #Int+ ");
    let rec = (0..f)
        .map(|i| format!("{} = {}", fresh_field(b, r, i), fresh_val(t, r, i)))
        .collect::<Vec<_>>()
        .join(", ");
    format!(
        "type VA a = | {ta} Int .. a\nlet pa v : VA a -> Int =\n    match v with\n    | {ta} n -> n\n    | _ -> 0 #Int- 1000000\ntype VB a = | {tb} Int .. a\nlet pb v : VB a -> Int =\n    match v with\n    | {tb} n -> n #Int* 3\n    | _ -> 0 #Int- 2000000\nlet total x = {sum}\nlet rcd = {{ {rec}, c14b{b}r{r}unused = 0 }}\n{{ sum = total rcd #Int+ pa ({ta} {s}) #Int+ pb ({tb} {s}), r = rcd }}\n",
        ta = ta, tb = tb, sum = sum, rec = rec, b = b, r = r, s = t + 1
    )
}

/// Run the program of (round, thread) on `th`; `Ok((sum field, host-side sum of the fields))`.
fn fresh_run(th: &Thread, b: u64, r: u64, t: u64, f: u64, name: &str) -> Result<(i64, i64), String> {
    use gluon::vm::api::ValueRef;
    let text = fresh_prog(b, r, t, f);
    let (v, _) = th
        .run_expr::<OpaqueValue<RootedThread, gluon::vm::api::Hole>>(name, &text)
        .map_err(|e| format!("err:{}", sanitize(&e.to_string(), 60)))?;
    let v = v.get_variant();
    let data = match v.as_ref() {
        ValueRef::Data(d) => d,
        _ => return Err("err:result_not_a_record".into()),
    };
    let int_of = |x: Option<gluon::vm::Variants>| -> Option<i64> {
        match x.map(|x| x.as_ref()) {
            Some(ValueRef::Int(i)) => Some(i),
            _ => None,
        }
    };
    let sum = int_of(data.lookup_field(th, "sum")).ok_or("err:lookup_field_sum_failed")?;
    let inner = data.lookup_field(th, "r").ok_or("err:lookup_field_r_failed")?;
    let inner = match inner.as_ref() {
        ValueRef::Data(d) => d,
        _ => return Err("err:field_r_not_a_record".into()),
    };
    let mut host = 0i64;
    for i in 0..f {
        host += int_of(inner.lookup_field(th, &fresh_field(b, r, i)))
            .ok_or_else(|| "err:lookup_field_of_fresh_name_failed".to_string())?;
    }
    Ok((sum, host))
}

fn child_fresh(v: &Value) -> Value {
    install_panic_hook();
    let n = v["nthreads"].as_u64().unwrap();
    let rounds = v["rounds"].as_u64().unwrap();
    let f = v["fields"].as_u64().unwrap();
    let k = v["extra"].as_u64().unwrap();
    let b = v["base"].as_u64().unwrap();
    let mk = || {
        let vm = gv::vm::new_vm();
        vm.get_database_mut().set_implicit_prelude(false);
        vm
    };
    // ---- solo values: the same programs, one after the other, on a second VM
    let t_solo = std::time::Instant::now();
    let mut solo: Vec<Vec<Result<(i64, i64), String>>> = vec![];
    {
        let vm = mk();
        let ths: Vec<RootedThread> = (0..n).map(|_| vm.new_thread().unwrap()).collect();
        for r in 0..rounds {
            solo.push((0..n).map(|t| fresh_run(&ths[t as usize], b, r, t, f, &format!("solo_t{}_r{}", t, r))).collect());
        }
    }
    let hang_after = Duration::from_secs(30).max(t_solo.elapsed() * 25);
    // ---- parallel
    let vm = mk();
    let barrier = Arc::new(Barrier::new(n as usize));
    let progress = Arc::new(AtomicU64::new(0));
    let mut hs = vec![];
    for t in 0..n {
        let th = vm.new_thread().unwrap();
        let (barrier, progress) = (barrier.clone(), progress.clone());
        hs.push(std::thread::spawn(move || {
            let mut out: Vec<Result<(i64, i64), String>> = vec![];
            let mut ptrs: Vec<usize> = vec![];
            let mut broken: Option<String> = None;
            for r in 0..rounds {
                barrier.wait();
                // keep taking part in the barrier after a panic (the context mutex is poisoned)
                if let Some(e) = &broken {
                    out.push(Err(e.clone()));
                    ptrs.extend((0..k).map(|_| 0));
                    continue;
                }
                let res = gv::catch(|| {
                    let x = fresh_run(&th, b, r, t, f, &format!("par_t{}_r{}", t, r));
                    let p: Vec<usize> = (0..k)
                        .map(|j| th.global_env().intern(&fresh_extra(b, r, j)).map(|s| s.as_ptr() as usize).unwrap_or(1))
                        .collect();
                    (x, p)
                });
                match res {
                    Ok((x, p)) => {
                        out.push(x);
                        ptrs.extend(p);
                    }
                    Err(msg) => {
                        let e = format!("panic:{}:{}", PANIC_AT.with(|p| p.borrow().clone()), sanitize(&msg, 50));
                        out.push(Err(e.clone()));
                        ptrs.extend((0..k).map(|_| 0));
                        broken = Some(e);
                    }
                }
                progress.fetch_add(1, Ordering::SeqCst);
            }
            (out, ptrs)
        }));
    }
    let t0 = std::time::Instant::now();
    while !hs.iter().all(|h| h.is_finished()) {
        if t0.elapsed() > hang_after {
            println!("{}", json!({"hang": true, "waited_ms": t0.elapsed().as_millis() as u64, "rounds_done": progress.load(Ordering::SeqCst)}));
            std::process::exit(0);
        }
        std::thread::sleep(Duration::from_millis(5));
    }
    let per: Vec<(Vec<Result<(i64, i64), String>>, Vec<usize>)> = hs.into_iter().map(|h| h.join().unwrap()).collect();
    // ---- compare
    let mut ok = 0u64;
    let mut checksum = 0i64;
    let mut diffs: Vec<String> = vec![];
    for t in 0..n as usize {
        for r in 0..rounds as usize {
            let (p, s) = (&per[t].0[r], &solo[r][t]);
            if let Ok((a, h)) = p {
                ok += 1;
                checksum += a + h;
            }
            if p != s && diffs.len() < 12 {
                diffs.push(format!("thread {} round {}: parallel {:?}, alone {:?}", t, r, p, s));
            }
        }
    }
    let n_diffs = (0..n as usize).map(|t| (0..rounds as usize).filter(|r| per[t].0[*r] != solo[*r][t]).count()).sum::<usize>();
    // representations per directly interned name: all threads and one later request must agree
    let mut maxreps = if k > 0 || f > 0 { 1 } else { 0 };
    let mut split_names = 0u64;
    for r in 0..rounds {
        for j in 0..k {
            let idx = (r * k + j) as usize;
            let mut set: std::collections::BTreeSet<usize> = per.iter().map(|p| p.1[idx]).filter(|p| *p != 0).collect();
            if let Ok(again) = vm.global_env().intern(&fresh_extra(b, r, j)) {
                set.insert(again.as_ptr() as usize);
            }
            if set.len() > 1 {
                split_names += 1;
            }
            maxreps = maxreps.max(set.len());
        }
    }
    let solo_errs = solo.iter().flatten().filter(|x| x.is_err()).count();
    json!({"ok": ok, "checksum": checksum, "maxreps": maxreps, "split_names": split_names,
           "diffs": n_diffs, "examples": diffs, "solo_errors": solo_errs,
           "first_solo_error": solo.iter().flatten().find_map(|x| x.clone().err())})
}

/// `locks`: threads 0 = root, 1.. = children of root (created in this order); OS thread j repeats
/// its operation `iters` times:
///   ["reroot", d, s]   re-root a value owned by thread s into thread d  (RootedValue::re_root)
///   ["collect", t]     t.collect()
///   ["push", c, o]     call a function of thread c with an argument rooted in thread o
///   ["newthread", p]   p.new_thread() and drop it again
fn child_locks(v: &Value) -> Value {
    gv::quiet_panics();
    let nth = v["nthreads"].as_u64().unwrap() as usize;
    let iters = v["iters"].as_u64().unwrap();
    // a scenario that does not deadlock must end well before the watchdog even on a loaded machine
    let cap = Duration::from_millis(v["cap_ms"].as_u64().unwrap_or(3000));
    let root = gv::vm::new_vm();
    root.get_database_mut().set_implicit_prelude(false);
    let mut ths = vec![root.clone()];
    for _ in 1..nth {
        ths.push(root.new_thread().unwrap());
    }
    let ops = v["ops"].as_array().unwrap().clone();
    // (one repetition of the operation, minimum repetitions, maximum repetitions)
    let mut steps: Vec<(Box<dyn FnMut() + Send>, u64, u64)> = vec![];
    for (j, op) in ops.iter().enumerate() {
        let kind = op[0].as_str().unwrap().to_string();
        let a = op[1].as_u64().unwrap() as usize;
        let b = op.get(2).and_then(|x| x.as_u64()).unwrap_or(0) as usize;
        match kind.as_str() {
            "reroot" => {
                let (val, _) = ths[b]
                    .run_expr::<OpaqueValue<RootedThread, gluon::vm::api::Hole>>(
                        &format!("v{}", j),
                        &format!("[{}, 2, 3]", j),
                    )
                    .unwrap();
                let val: RootedValue<RootedThread> = val.into_inner();
                let d = ths[a].clone();
                steps.push((
                    Box::new(move || {
                        let _x = val.re_root(d.clone()).unwrap();
                    }),
                    iters,
                    u64::MAX,
                ));
            }
            "collect" => {
                let t = ths[a].clone();
                steps.push((Box::new(move || t.collect()), 2000, u64::MAX));
            }
            "push" => {
                let (val, _) = ths[b]
                    .run_expr::<OpaqueValue<RootedThread, Vec<i64>>>(&format!("v{}", j), &format!("[{}, 2, 3]", j))
                    .unwrap();
                let (mut f, _): (gluon::vm::api::OwnedFunction<fn(OpaqueValue<RootedThread, Vec<i64>>) -> i64>, _) = ths[a]
                    .run_expr(&format!("f{}", j), "let f x : Array Int -> Int = 1 in f")
                    .unwrap();
                steps.push((
                    Box::new(move || {
                        let _ = f.call(val.clone()).unwrap();
                    }),
                    iters,
                    u64::MAX,
                ));
            }
            "newthread" => {
                // every new thread stays in the parent's slab until collected and
                // mark_child_roots is quadratic in the number of children: keep it small
                let t = ths[a].clone();
                steps.push((
                    Box::new(move || {
                        let _c = t.new_thread().unwrap();
                    }),
                    400,
                    400,
                ));
            }
            _ => return json!({"setup_error": "unknown op"}),
        }
    }
    // every OS thread keeps repeating its operation until ALL have done their minimum (so the
    // operations overlap for the whole run), or the time cap is reached
    let n = steps.len();
    let barrier = Arc::new(Barrier::new(n));
    let pending = Arc::new(AtomicU64::new(n as u64));
    let progress: Arc<Vec<AtomicU64>> = Arc::new((0..n).map(|_| AtomicU64::new(0)).collect());
    let mut hs = vec![];
    for (j, (mut step, min, max)) in steps.into_iter().enumerate() {
        let (barrier, pending, progress) = (barrier.clone(), pending.clone(), progress.clone());
        hs.push(std::thread::spawn(move || {
            barrier.wait();
            let t0 = std::time::Instant::now();
            let mut k = 0u64;
            let mut done_min = false;
            loop {
                if k < max {
                    step();
                } else {
                    std::thread::yield_now();
                }
                k += 1;
                progress[j].store(k, Ordering::Relaxed);
                if !done_min && k >= min {
                    done_min = true;
                    pending.fetch_sub(1, Ordering::SeqCst);
                }
                if done_min && pending.load(Ordering::SeqCst) == 0 {
                    break;
                }
                if k % 16 == 0 && t0.elapsed() > cap {
                    if !done_min {
                        pending.fetch_sub(1, Ordering::SeqCst);
                    }
                    break;
                }
            }
        }));
    }
    // Deadlock = some thread is unfinished and NO thread has completed a single repetition for
    // `stall` (a repetition takes micro- to milliseconds; on a heavily loaded machine everything is
    // slow but still moves, so slowness is never mistaken for a deadlock).
    let stall = Duration::from_millis(v["stall_ms"].as_u64().unwrap_or(4000));
    let mut last: Vec<u64> = vec![0; n];
    let mut last_change = std::time::Instant::now();
    while !hs.iter().all(|h| h.is_finished()) {
        let now: Vec<u64> = progress.iter().map(|p| p.load(Ordering::Relaxed)).collect();
        if now != last {
            last = now;
            last_change = std::time::Instant::now();
        } else if last_change.elapsed() > stall {
            println!("{}", json!({"completed": false, "hung": true, "progress": last}));
            std::process::exit(0);
        }
        std::thread::sleep(Duration::from_millis(20));
    }
    let mut panicked = false;
    for h in hs {
        if h.join().is_err() {
            panicked = true;
        }
    }
    json!({"completed": true, "hung": false, "panicked": panicked})
}

fn child_main() {
    let mut s = String::new();
    std::io::stdin().read_to_string(&mut s).unwrap();
    let v: Value = serde_json::from_str(&s).unwrap();
    let r = match v["kind"].as_str().unwrap() {
        "par" => child_par(&ParCase::from_json(&v)),
        "locks" => child_locks(&v),
        "fresh" => child_fresh(&v),
        _ => json!({"setup_error": "unknown kind"}),
    };
    println!("{}", r);
}

// ---------------------------------------------------------------------------------------------
// parent: generation, model requests, oracle

fn gen_par(rng: &mut Rng, nthreads: usize, thorough: bool) -> ParCase {
    let k = rng.range(1, if thorough { 10 } else { 7 }) as usize;
    let mut modules = vec![];
    for i in 0..k {
        let mut deps = vec![];
        for d in 0..i {
            if rng.chance(1, 3) && deps.len() < 3 {
                deps.push(d);
            }
        }
        let sleep_us = match rng.below(5) {
            0 => 0,
            1 => 1,
            2 => rng.range(50, 400) as u64,
            _ => rng.range(500, 3000) as u64,
        };
        modules.push(Module { c: rng.range(1, 99), deps, sleep_us });
    }
    // overlapping import sets: a "hot" subset everybody tends to import
    let hot: Vec<usize> = (0..k).filter(|_| rng.chance(1, 2)).collect();
    let npairs = if nthreads >= 2 && rng.chance(2, 5) {
        rng.range(1, (nthreads / 2).min(3) as i64) as usize
    } else {
        0
    };
    let mut progs = vec![];
    for t in 0..nthreads {
        let mut imports: Vec<usize> = vec![];
        for m in 0..k {
            let p = if hot.contains(&m) { 3 } else { 1 };
            if rng.chance(p, 4) {
                imports.push(m);
            }
        }
        if imports.is_empty() && rng.chance(3, 4) {
            imports.push(rng.below(k as u64) as usize);
        }
        let role = if t < 2 * npairs {
            let ch = t / 2;
            // k of the pair: derived from the channel number so both ends agree
            let kk = 1 + ((ch as i64 * 7 + k as i64) % 12);
            if t % 2 == 0 { Role::Prod(ch, kk) } else { Role::Cons(ch, kk) }
        } else {
            Role::Plain
        };
        let delay_us = match rng.below(4) {
            0 => 0,
            1 => 1,
            2 => rng.range(10, 300) as u64,
            _ => rng.range(300, 2500) as u64,
        };
        progs.push(Prog {
            imports,
            alloc: if rng.chance(1, 5) { 0 } else { rng.range(5, 120) },
            reps: rng.range(0, 12),
            std: rng.chance(1, 3),
            role,
            delay_us,
        });
    }
    // randomised start order = shuffle of thread indices keeps pairs intact: shuffle only delays
    ParCase {
        modules,
        progs,
        nchan: npairs,
        collector: rng.chance(2, 5),
        spawn_inside: rng.chance(1, 3),
    }
}

/// Model request: modules, programs, and a seeded random event schedule for the `Once` cells
/// (`r m t` request, `f m` finish, `w m t` wake; some junk events that must be no-ops), closed by
/// a completing suffix.
/// `failed`: the threads that failed in the run the request describes (empty for a clean run).
/// Their requests are left out of the schedule - how far a failed thread got is not observable -
/// and the driver masks what the failure leaves undetermined (GluonModel.ParOnce.undetermined).
/// `lost`: the child process hung or died (every thread counts as failed, no count was observed).
fn par_request(case: &ParCase, rng: &mut Rng, failed: &[usize], lost: bool) -> String {
    let mut s = String::from("par (mods");
    for m in &case.modules {
        s.push_str(&format!(" ({}", m.c));
        for d in &m.deps {
            s.push_str(&format!(" {}", d));
        }
        s.push(')');
    }
    s.push_str(") (progs");
    for p in &case.progs {
        let role = match p.role {
            Role::Plain => "(plain)".to_string(),
            Role::Prod(c, k) => format!("(prod {} {})", c, k),
            Role::Cons(c, k) => format!("(cons {} {})", c, k),
        };
        s.push_str(&format!(" ((imports"));
        for i in &p.imports {
            s.push_str(&format!(" {}", i));
        }
        s.push_str(&format!(") {} {} {})", p.alloc, p.reps, role));
    }
    if lost {
        s.push_str(") (lost");
    } else if !failed.is_empty() {
        s.push_str(") (failed");
        for t in failed {
            s.push_str(&format!(" {}", t));
        }
    }
    s.push_str(") (sched");
    // every thread requests every module of the closure of its imports, in a random interleaving
    let mut reqs: Vec<(usize, usize)> = vec![];
    for (t, p) in case.progs.iter().enumerate() {
        if failed.contains(&t) {
            continue;
        }
        for m in case.closure(p) {
            reqs.push((m, t));
        }
    }
    for i in (1..reqs.len()).rev() {
        let j = rng.below(i as u64 + 1) as usize;
        reqs.swap(i, j);
    }
    let k = case.modules.len();
    let n = case.progs.len();
    let mut started = vec![false; k];
    for (m, t) in &reqs {
        s.push_str(&format!(" (r {} {})", m, t));
        started[*m] = true;
        // now and then: finish some started module, wake somebody, or emit junk
        match rng.below(6) {
            0 => {
                let f = rng.below(k as u64) as usize;
                s.push_str(&format!(" (f {})", f)); // junk if not in progress
            }
            1 => {
                s.push_str(&format!(" (w {} {})", rng.below(k as u64), rng.below(n as u64)));
            }
            2 => {
                s.push_str(&format!(" (r {} {})", m, t)); // duplicate request
            }
            _ => {}
        }
    }
    for m in 0..k {
        s.push_str(&format!(" (f {})", m));
    }
    for m in 0..k {
        for t in 0..n {
            s.push_str(&format!(" (w {} {})", m, t));
        }
    }
    s.push_str("))");
    s
}

fn shape(case: &ParCase) -> String {
    format!(
        "n{}:k{}:ch{}:coll{}:spawn{}:std{}",
        case.progs.len(),
        case.modules.len(),
        case.nchan,
        case.collector as u8,
        case.spawn_inside as u8,
        case.progs.iter().filter(|p| p.std).count().min(3)
    )
}

/// `gv::child::run`, robust against the executable being momentarily absent (the shared target
/// directory is re-linked by concurrent cargo builds of other properties).
fn run_child(input: &[u8], timeout: Duration) -> gv::child::Exit {
    for _ in 0..60 {
        match gv::catch(|| gv::child::run(&["--child"], input, timeout)) {
            Ok(e) => return e,
            Err(_) => std::thread::sleep(Duration::from_millis(500)),
        }
    }
    gv::child::run(&["--child"], input, timeout)
}

/// What one child run of a `par` case showed.
struct ParRun {
    payload: String,
    class: String,
    /// (fingerprint, what)
    failures: Vec<(String, String)>,
    collections: u64,
    /// threads whose result is not the result of the program run alone (all of them if the child
    /// process hung or died)
    failed: Vec<usize>,
    /// per-module body counts of the parallel run (none if the child process hung or died)
    counts: Option<Vec<u64>>,
    /// rendered per-thread results (empty if the child process hung or died)
    results: Vec<String>,
}

/// What a failing run leaves determined, in the form the driver prints for a request with a
/// `(failed …)` list: results of failed threads are `(failed)`; the count of a module that only
/// failed threads requested is `?` (0 or 1: the thread may or may not have got that far); if the child
/// process hung or died no count was observed and all are `?` (request with `(lost)`).
fn masked_payload(case: &ParCase, r: &ParRun) -> String {
    let mut ok_req = vec![false; case.modules.len()];
    let mut failed_req = vec![false; case.modules.len()];
    for (t, p) in case.progs.iter().enumerate() {
        for m in case.closure(p) {
            if r.failed.contains(&t) { failed_req[m] = true } else { ok_req[m] = true }
        }
    }
    let counts: Vec<String> = (0..case.modules.len())
        .map(|m| {
            let c = r.counts.as_ref().map(|c| c[m]);
            if failed_req[m] && !ok_req[m] && c.map_or(true, |c| c <= 1) {
                "?".to_string()
            } else {
                c.map_or("?".to_string(), |c| c.to_string())
            }
        })
        .collect();
    let results: Vec<String> = (0..case.progs.len())
        .map(|t| if r.failed.contains(&t) { "(failed)".to_string() } else { r.results[t].clone() })
        .collect();
    format!("(counts {}) (results {})", counts.join(" "), results.join(" "))
}

fn one_par_run(case: &ParCase, cj: &Value, timeout: Duration) -> ParRun {
    let input = serde_json::to_vec(cj).unwrap();
    let ex = run_child(&input, timeout);
    let flags = format!(
        "{}{}{}",
        if case.collector { "+collector" } else { "" },
        if case.spawn_inside { "+new_thread" } else { "" },
        if case.nchan > 0 { "+channel" } else { "" }
    );
    let n = case.progs.len();
    let mut failures = vec![];
    let mut collections = 0;
    let mut failed: Vec<usize> = (0..n).collect();
    let mut counts = None;
    let mut results = vec![];
    let payload = match &ex {
        gv::child::Exit::Ok(o) => {
            let v: Value = match serde_json::from_str(o.trim()) {
                Ok(v) => v,
                Err(_) => json!({"setup_error": format!("unparseable child output: {}", o)}),
            };
            if let Some(e) = v.get("setup_error") {
                eprintln!("c14: setup error: {}", e);
                std::process::exit(3);
            }
            if v.get("hang").is_some() {
                failures.push((
                    format!("deadlock:parallel-run{}", flags),
                    format!("{} OS threads: {} finished, the others made no end after {} ms (= 25x the time the same programs took one after the other; the schedule is not reproducible, re-run the case several times)", n, v["finished"], v["waited_ms"]),
                ));
                return ParRun { payload: "(hang)".to_string(), class: "hang".to_string(), failures, collections: 0, failed, counts, results };
            }
            let strs = |x: &Value| -> Vec<String> {
                x.as_array().unwrap().iter().map(|s| s.as_str().unwrap().to_string()).collect()
            };
            let nums = |x: &Value| -> Vec<u64> {
                x.as_array().unwrap().iter().map(|s| s.as_u64().unwrap()).collect()
            };
            let (solo, par) = (strs(&v["solo"]), strs(&v["par"]));
            let (sc, pc) = (nums(&v["solo_counts"]), nums(&v["par_counts"]));
            let requested = case.requested();
            // ---- property oracle (no model): results equal solo results; bodies ran once
            let mut any_failed = false;
            failed.clear();
            for t in 0..n {
                if solo[t].starts_with("err:") {
                    // a generated program must run when alone: generator/harness problem
                    eprintln!("c14: program fails when run alone: {} \n{}", solo[t], prog_text(&case.progs[t]));
                    std::process::exit(3);
                }
                if par[t] != solo[t] {
                    any_failed = true;
                    failed.push(t);
                    let fp = if let Some(m) = par[t].strip_prefix("panic:") {
                        // the panic location identifies the failing code, not the scenario
                        let mut it = m.splitn(3, ':');
                        format!("parallel-panic:{}:{}", it.next().unwrap_or(""), it.next().unwrap_or(""))
                    } else if let Some(m) = par[t].strip_prefix("err:") {
                        format!("parallel-error:{}{}", m, flags)
                    } else {
                        format!("result-differs-from-solo{}", flags)
                    };
                    failures.push((
                        fp,
                        format!("thread {} obtained {} in parallel but {} when run alone", t, par[t], solo[t]),
                    ));
                }
            }
            for m in 0..case.modules.len() {
                let want = requested[m] as u64;
                // a thread that failed may not have got as far as requesting its imports
                let ok = if any_failed { pc[m] <= want } else { pc[m] == want };
                if !ok {
                    failures.push((
                        format!("module-body-evaluated-{}-times{}", if pc[m] > 1 { "several" } else { "zero" }, flags),
                        format!("body of module c14m{} ran {} times in the parallel run (requested: {})", m, pc[m], want),
                    ));
                }
                if sc[m] != want {
                    failures.push((
                        "module-body-count-sequential".to_string(),
                        format!("body of module c14m{} ran {} times in the sequential run", m, sc[m]),
                    ));
                }
            }
            let loads = v["par_loads"].as_u64().unwrap();
            let any_req = requested.iter().any(|b| *b) as u64;
            if loads > 1 || (!any_failed && loads != any_req) {
                failures.push((
                    format!("extern-module-loaded-{}-times{}", loads, flags),
                    format!("loader of extern module c14tick ran {} times in the parallel run", loads),
                ));
            }
            collections = v["collections"].as_u64().unwrap_or(0);
            results = par.iter().map(|r| if r.starts_with("panic:") { "panic".to_string() } else { r.replace(':', " ") }).map(|r| format!("({})", r)).collect();
            counts = Some(pc.clone());
            format!(
                "(counts {}) (results {})",
                pc.iter().map(|c| c.to_string()).collect::<Vec<_>>().join(" "),
                results.join(" ")
            )
        }
        gv::child::Exit::Timeout(_) => {
            failures.push((
                format!("deadlock:parallel-run{}", flags),
                format!("{} OS threads did not finish within {:?} (deadlock or livelock; the schedule is not reproducible, re-run the case several times)", n, timeout),
            ));
            "(hang)".to_string()
        }
        gv::child::Exit::Signal(sig, _, err) => {
            // memory corruption shows as SIGSEGV, or as an abort from a misaligned/invalid pointer
            // check somewhere in the collector: the site varies from run to run, so the fingerprint
            // names the scenario (which features were active), the message goes into `what`
            let at = err.lines().filter(|l| l.starts_with("c14-panic-at")).last().unwrap_or("").to_string();
            let msg = err.lines().filter(|l| l.contains("panicked at") || l.contains("misaligned") || l.contains("aborting")).collect::<Vec<_>>().join(" / ");
            failures.push((
                format!("crash:memory-corruption:parallel-run{}", flags),
                format!("child process died with signal {} ({} {})", sig, at, msg.chars().take(300).collect::<String>()),
            ));
            "(crash)".to_string()
        }
        gv::child::Exit::Code(3, _, err) => {
            eprintln!("c14: child setup problem: {}", err);
            std::process::exit(3);
        }
        gv::child::Exit::Code(c, _, err) => {
            failures.push((
                format!("crash:exit-{}:parallel-run{}", c, flags),
                format!("child process exited with code {} ({})", c, err.lines().last().unwrap_or("")),
            ));
            format!("(crash exit {})", c)
        }
    };
    ParRun { payload, class: ex.class(), failures, collections, failed, counts, results }
}

const MAX_RUNS: usize = 8;

/// The fingerprint under which a failure of a parallel run is reported.  The real schedule decides
/// HOW a racy scenario fails (a panic at one of several sites, a secondary panic in the threads
/// waiting for the same salsa query, a poisoned mutex, an abort or SIGSEGV somewhere in the
/// collector, a hang, a starved consumer), so for the two scenario classes with known races the
/// fingerprint names the class; the manifestation is kept in `what` ("[detail] …") and in the
/// `failure:<detail>` counters.  Failures of the sequential reference run and failures of cases
/// that use neither channels nor std imports keep their specific fingerprint.
fn class_fingerprint(case: &ParCase, detail: &str) -> String {
    if detail == "module-body-count-sequential" {
        detail.to_string()
    } else if case.nchan > 0 {
        "unsafe:parallel-run+channel".to_string()
    } else if case.progs.iter().any(|p| p.std) {
        "unsafe:parallel-run+std-imports".to_string()
    } else {
        detail.to_string()
    }
}

/// One `par` case.  The schedule of the real run is not controllable, so a failing run (a
/// property-oracle failure: always reported, every time) is repeated - up to MAX_RUNS runs - and
/// the payload of the first clean run is what the model has to reproduce.  If no run is clean
/// (under load the listed std.types race can fail 8 runs in a row) the run with the fewest failed
/// threads is compared with the model on what its failures leave determined: the results of the
/// threads that did not fail and the body counts of every module one of them requested
/// (`masked_payload`, request with a `(failed …)` list).  Nothing is hidden by this: each failed
/// thread, wrong count, hang or crash is an oracle failure with its own fingerprint.
fn run_par(out: &mut Out, case: &ParCase, rng: &mut Rng, timeout: Duration) {
    let cj = case.to_json();
    let rng0 = rng.clone();
    let req = par_request(case, rng, &[], false);
    let n = case.progs.len();
    out.count(&format!("threads:{}", n));
    out.count(&format!("modules:{}", case.modules.len()));
    if case.collector { out.count("kind:collector"); }
    if case.spawn_inside { out.count("kind:concurrent_new_thread"); }
    if case.nchan > 0 { out.count("kind:channel_pairs"); }
    if case.progs.iter().any(|p| p.std) { out.count("kind:std_imports"); }
    // how much the import sets overlap: modules requested by >= 2 threads
    let mut users = vec![0; case.modules.len()];
    for p in &case.progs {
        for m in case.closure(p) {
            users[m] += 1;
        }
    }
    out.add("shared_module_requests", users.iter().filter(|u| **u >= 2).count() as u64);
    let mut best: Option<ParRun> = None;
    for attempt in 0..MAX_RUNS {
        let r = one_par_run(case, &cj, timeout);
        out.count("par_runs");
        out.count(&format!("outcome:{}", r.class));
        out.add("collections_while_running", r.collections);
        for (detail, what) in &r.failures {
            let fp = class_fingerprint(case, detail);
            out.oracle_fail(&fp, &format!("[{}] {}", detail, what), cj.clone());
            out.count(&format!("failure:{}", detail));
        }
        let clean = r.failures.is_empty();
        if !clean && attempt + 1 < MAX_RUNS {
            out.count("retried_after_failure");
        }
        if clean || best.as_ref().map_or(true, |b| r.failed.len() < b.failed.len()) {
            best = Some(r);
        }
        if clean {
            break;
        }
    }
    let r = best.unwrap();
    out.class(format!("{}:{}", shape(case), r.class));
    let (req, payload) = if r.failures.is_empty() {
        out.count("par-compared:clean-run");
        (req, r.payload.clone())
    } else {
        // a failure that is not a failed thread (a wrong count, a loader run twice) stays visible
        // in the payload where the model determines it
        out.count("par-compared:no-clean-run(surviving-threads-only)");
        out.add("par-threads-not-compared", r.failed.len() as u64);
        let mut rng1 = rng0;
        (par_request(case, &mut rng1, &r.failed, r.counts.is_none()), masked_payload(case, &r))
    };
    if out.n_cases % 9 == 2 {
        out.sample(json!({"case": cj, "impl": payload}));
    }
    out.case(&req, &payload);
}

// ---------------------------------------------------------------------------------------------
// lock scenarios
#[derive(Clone, Debug, PartialEq)]
enum LOp {
    Reroot(usize, usize),
    Collect(usize),
    Push(usize, usize),
    NewThread(usize),
}

impl LOp {
    fn json(&self) -> Value {
        match self {
            LOp::Reroot(d, s) => json!(["reroot", d, s]),
            LOp::Collect(t) => json!(["collect", t]),
            LOp::Push(c, o) => json!(["push", c, o]),
            LOp::NewThread(p) => json!(["newthread", p]),
        }
    }
    fn sexp(&self) -> String {
        match self {
            LOp::Reroot(d, s) => format!("(reroot {} {})", d, s),
            LOp::Collect(t) => format!("(collect {})", t),
            LOp::Push(c, o) => format!("(push {} {})", c, o),
            LOp::NewThread(p) => format!("(newthread {})", p),
        }
    }
    fn from_json(v: &Value) -> LOp {
        let u = |i: usize| v[i].as_u64().unwrap() as usize;
        match v[0].as_str().unwrap() {
            "reroot" => LOp::Reroot(u(1), u(2)),
            "collect" => LOp::Collect(u(1)),
            "push" => LOp::Push(u(1), u(2)),
            _ => LOp::NewThread(u(1)),
        }
    }
}

/// Fingerprint of a hang of a lock scenario: the pair of call shapes that were running (which
/// threads they ran on is in the replay data).  The historical name of D11 is kept.
fn lock_fingerprint(ops: &[LOp]) -> String {
    let mut k: Vec<&str> = ops
        .iter()
        .map(|o| match o {
            LOp::Reroot(..) => "re_root",
            LOp::Collect(_) => "collect",
            LOp::Push(..) => "push",
            LOp::NewThread(_) => "new_thread",
        })
        .collect();
    k.sort();
    if k.iter().all(|x| *x == "re_root") {
        "deadlock:deep_clone_value-opposite-transfers".to_string()
    } else {
        format!("deadlock:{}", k.join("-vs-"))
    }
}

/// (held context, then wanted context) pairs of one repetition of an operation, for the flat tree
/// root 0 + children: what a reader of thread.rs / api/mod.rs sees.
fn ctx_edges(op: &LOp, nth: usize) -> Vec<(usize, usize)> {
    let collect_edges = |t: usize| -> Vec<(usize, usize)> {
        // own context, then the children's in pop order (last child first)
        if t == 0 {
            let mut e: Vec<(usize, usize)> = (1..nth).map(|c| (0, c)).collect();
            for hi in 1..nth {
                for lo in 1..hi {
                    e.push((hi, lo));
                }
            }
            e
        } else {
            vec![]
        }
    };
    match op {
        LOp::Reroot(d, s) if d != s => vec![(*d, *s)],
        LOp::Reroot(..) => vec![],
        LOp::Collect(t) => collect_edges(*t),
        LOp::Push(c, o) if c != o => vec![(*c, *o)],
        LOp::Push(..) => vec![],
        LOp::NewThread(p) => collect_edges(*p),
    }
}
fn may_hang(ops: &[LOp]) -> bool {
    for (i, a) in ops.iter().enumerate() {
        for (j, b) in ops.iter().enumerate() {
            if i != j {
                for (h, w) in ctx_edges(a, 4) {
                    if ctx_edges(b, 4).contains(&(w, h)) {
                        return true;
                    }
                }
            }
        }
    }
    false
}

/// threads: 0 = root, 1..nth-1 children of the root.
fn run_locks(out: &mut Out, nth: usize, ops: &[LOp], iters: u64, timeout: Duration) {
    let cj = json!({"kind": "locks", "nthreads": nth, "ops": ops.iter().map(|o| o.json()).collect::<Vec<_>>(), "iters": iters, "cap_ms": 3000});
    let req = format!("locks {} {}", nth, ops.iter().map(|o| o.sexp()).collect::<Vec<_>>().join(" "));
    // A deadlock needs the two threads to meet in a narrow window; a run in which they do not meet
    // says nothing.  Scenarios that contain a pair of operations taking two contexts in opposite
    // orders (read off the code, independent of the Lean model) are therefore run up to 12 times
    // until a hang is seen; all others once.  What is reported is what was observed.
    let attempts = if may_hang(ops) { 12 } else { 1 };
    let mut ex = run_child(&serde_json::to_vec(&cj).unwrap(), timeout);
    for _ in 1..attempts {
        let no_hang = matches!(&ex, gv::child::Exit::Ok(o) if !o.contains("\"hung\":true"));
        if !no_hang {
            break;
        }
        out.count("locks-rerun-no-hang-yet");
        ex = run_child(&serde_json::to_vec(&cj).unwrap(), timeout);
    }
    let hung = |e: &gv::child::Exit| match e {
        gv::child::Exit::Ok(o) => o.contains("\"hung\":true"),
        gv::child::Exit::Timeout(_) => true,
        _ => false,
    };
    let payload = match &ex {
        gv::child::Exit::Ok(o) if !hung(&ex) => {
            if o.contains("\"panicked\":true") {
                out.oracle_fail("panic:lock-scenario", &format!("an OS thread panicked in {:?}", ops), cj.clone());
            }
            "(deadlock false)".to_string()
        }
        gv::child::Exit::Ok(_) | gv::child::Exit::Timeout(_) => {
            out.oracle_fail(
                &lock_fingerprint(ops),
                &format!("OS threads repeating {:?} on threads of one VM (0 = root, others its children) never finish", ops),
                cj.clone(),
            );
            "(deadlock true)".to_string()
        }
        gv::child::Exit::Signal(sig, _, err) => {
            out.oracle_fail(
                &format!("crash:signal-{}:lock-scenario", sig),
                &format!("child died with signal {} ({}) in {:?}", sig, err.lines().last().unwrap_or(""), ops),
                cj.clone(),
            );
            format!("(crash signal {})", sig)
        }
        gv::child::Exit::Code(c, _, err) => {
            out.oracle_fail(
                &format!("crash:exit-{}:lock-scenario", c),
                &format!("child exited with code {} ({}) in {:?}", c, err.lines().last().unwrap_or(""), ops),
                cj.clone(),
            );
            format!("(crash exit {})", c)
        }
    };
    out.count("kind:locks");
    let oc = if payload == "(deadlock true)" { "hang".to_string() } else { ex.class() };
    out.count(&format!("locks-outcome:{}", oc));
    out.class(format!("locks:{:?}:{}", ops, oc));
    if ops.len() >= 2 && out.samples.len() < 3 {
        out.sample(json!({"case": cj, "impl": payload}));
    }
    out.case(&req, &payload);
}

// ---------------------------------------------------------------------------------------------
// fresh names
fn run_fresh(out: &mut Out, n: u64, rounds: u64, f: u64, k: u64, b: u64) {
    let cj = json!({"kind": "fresh", "nthreads": n, "rounds": rounds, "fields": f, "extra": k, "base": b});
    let req = format!("fresh {} {} {} {} {}", n, rounds, f, k, b);
    let ex = run_child(&serde_json::to_vec(&cj).unwrap(), Duration::from_secs(900));
    const FP: &str = "unsafe:parallel-run+fresh-names";
    let payload = match &ex {
        gv::child::Exit::Ok(o) => {
            let v: Value = serde_json::from_str(o.trim()).unwrap_or(json!({"setup_error": o}));
            if v.get("setup_error").is_some() {
                eprintln!("c14: fresh: unparseable child output {}", o);
                std::process::exit(3);
            }
            if v.get("hang").is_some() {
                out.oracle_fail(FP, &format!("[deadlock] {} OS threads compiling programs over fresh names stopped making progress after {} rounds", n, v["rounds_done"]), cj.clone());
                "(hang)".to_string()
            } else {
                if v["solo_errors"].as_u64().unwrap_or(0) > 0 {
                    eprintln!("c14: fresh: a program fails when run alone: {}\n{}", v["first_solo_error"], fresh_prog(b, 0, 0, f));
                    std::process::exit(3);
                }
                if v["diffs"].as_u64().unwrap_or(0) > 0 {
                    out.oracle_fail(FP, &format!("[result-differs-from-solo] {} of {} programs over fresh field/tag names gave another result than alone, e.g. {}", v["diffs"], n * rounds, v["examples"]), cj.clone());
                }
                if v["split_names"].as_u64().unwrap_or(0) > 0 {
                    out.oracle_fail(FP, &format!("[interned-twice] {} fresh names have more than one interned representation (up to {})", v["split_names"], v["maxreps"]), cj.clone());
                }
                format!("(fresh (ok {}) (maxreps {}) (checksum {}))", v["ok"], v["maxreps"], v["checksum"])
            }
        }
        gv::child::Exit::Timeout(_) => {
            out.oracle_fail(FP, "[deadlock] backstop watchdog", cj.clone());
            "(hang)".to_string()
        }
        gv::child::Exit::Signal(sig, _, err) => {
            out.oracle_fail(FP, &format!("[crash] child died with signal {} ({})", sig, err.lines().last().unwrap_or("")), cj.clone());
            "(crash)".to_string()
        }
        gv::child::Exit::Code(c, _, err) => {
            out.oracle_fail(FP, &format!("[crash] child exited with code {} ({})", c, err.lines().last().unwrap_or("")), cj.clone());
            "(crash)".to_string()
        }
    };
    out.count("kind:fresh-names");
    out.add("fresh-name-rounds", rounds);
    out.add("fresh-name-programs", n * rounds);
    out.class(format!("fresh:n{}:{}", n, ex.class()));
    out.sample(json!({"case": cj, "impl": payload}));
    out.case(&req, &payload);
}

fn main() {
    if std::env::args().any(|a| a == "--child") {
        child_main();
        return;
    }
    let args = Args::parse();
    let mut out = Out::new(&args.out);
    let thorough = args.thorough();
    // backstops: the children detect hangs themselves (adaptively); see child_par / child_locks
    let par_timeout = Duration::from_secs(600);
    let lock_timeout = Duration::from_secs(180);

    if let Some(rp) = &args.replay {
        let v: Value = serde_json::from_str(&std::fs::read_to_string(rp).unwrap()).unwrap();
        let case = v.get("case").cloned().unwrap_or(v);
        let mut rng = Rng::new(args.seed, 1400);
        // the schedule is not reproducible: run the case several times
        for round in 0..5 {
            match case["kind"].as_str().unwrap_or("") {
                "par" => run_par(&mut out, &ParCase::from_json(&case), &mut rng, par_timeout),
                "fresh" => {
                    let u = |k: &str| case[k].as_u64().unwrap();
                    run_fresh(&mut out, u("nthreads"), u("rounds"), u("fields"), u("extra"), u("base"))
                }
                "locks" => {
                    let ops: Vec<LOp> = case["ops"].as_array().unwrap().iter().map(LOp::from_json).collect();
                    run_locks(&mut out, case["nthreads"].as_u64().unwrap() as usize, &ops, case["iters"].as_u64().unwrap(), lock_timeout)
                }
                _ => {}
            }
            println!("replay round {}: oracle failures so far {}", round, out.n_oracle_fail);
        }
        out.finish();
        return;
    }

    // ---- lock scenarios (Locks model); threads 0 = root, 1, 2, 3 = its children
    use LOp::*;
    let iters = if thorough { 200_000 } else { 40_000 };
    let scen: Vec<Vec<LOp>> = vec![
        vec![Reroot(1, 2), Reroot(2, 1)], // opposite directions between siblings: D11
        vec![Reroot(1, 2), Reroot(1, 2)], // same direction
        vec![Reroot(1, 2), Reroot(3, 2)], // same source, different destinations
        vec![Reroot(2, 1), Reroot(3, 1)],
        vec![Reroot(1, 1), Reroot(1, 1)], // same thread: only one context
        vec![Reroot(0, 1), Reroot(1, 0)], // parent <-> child, opposite
        vec![Reroot(1, 0), Reroot(2, 0)], // from the parent into two children
        vec![Reroot(1, 2), Reroot(3, 0)], // disjoint
        vec![Reroot(1, 2), Reroot(2, 3)], // chain, no cycle
        vec![Collect(0), Push(1, 0)],     // parent collects while a child is handed a parent-rooted argument
        vec![Collect(0), Push(1, 1)],     // argument rooted in the child itself
        vec![Collect(1), Push(1, 0)],     // the child collects itself
        vec![Collect(0), Collect(1)],     // parent and child collect
        vec![Collect(0), Collect(0)],
        vec![Collect(0), NewThread(0)],
        vec![Collect(0), NewThread(1)],
        vec![NewThread(0), NewThread(0)],
        vec![NewThread(0), Push(1, 0)],
        vec![Push(1, 0), Push(2, 0)],
        vec![Collect(0), Reroot(2, 1)],   // re-root in the order in which collect locks the children
        vec![Collect(0), Reroot(1, 2)],   // … and against it (collect pops the LAST child first)
    ];
    for x in &scen {
        run_locks(&mut out, 4, x, iters, lock_timeout);
    }
    let mut rngx = Rng::new(args.seed, 1401);
    let extra = if thorough { 16 } else { 4 };
    for _ in 0..extra {
        let p: Vec<LOp> = (0..2).map(|_| Reroot(rngx.below(4) as usize, rngx.below(4) as usize)).collect();
        run_locks(&mut out, 4, &p, iters, lock_timeout);
    }

    // ---- fresh names: N in {2,4,8,16}; names are unique per (seed, case, round)
    let fr_rounds = if thorough { 600 } else { 150 };
    for (ci, n) in [2u64, 4, 8, 16].iter().enumerate() {
        run_fresh(&mut out, *n, fr_rounds, 8, 4, (args.seed % 100_000) * 10 + ci as u64);
    }

    // ---- parallel runs
    let mut rng = Rng::new(args.seed, 14);
    let ncases = if thorough { 300 } else { 48 };
    for i in 0..ncases {
        // 2..16 OS threads, every count is reached
        let nthreads = if i < 15 { 2 + i } else { rng.range(2, 16) as usize };
        let mut case = gen_par(&mut rng, nthreads, thorough);
        if case.collector && case.nchan > 0 {
            // known finding `deadlock:collect-vs-push-…` (shown by the lock scenarios above): a
            // collecting parent and a child that is handed a parent-rooted channel end deadlock.
            // Keep the channel traffic, drop the collector.
            case.collector = false;
            out.count("skipped:collector-with-channel-pairs(known-deadlock)");
        }
        if case.spawn_inside && case.nchan > 0 {
            // same cycle, the collection being the one `new_thread` triggers by allocating in the
            // parent (lock scenario `new_thread-vs-push`)
            case.spawn_inside = false;
            out.count("skipped:concurrent-new_thread-with-channel-pairs(known-deadlock)");
        }
        run_par(&mut out, &case, &mut rng, par_timeout);
    }
    out.finish();
}
