//! C11 correspondence + oracle: marshalling between Rust and gluon.
//!
//! For every type of a fixed family (see `types!` below) and every generated value `x`:
//!  * correspondence `(rt <tcode> <val>)`: the marshalled value (walked through `ValueRef`) and what
//!    `Getable::from_value` makes of it, against the Lean model's `push` / `get`;
//!  * correspondence `(ser <val>)`: what `api::ser::Ser` pushes, against the model's `ser`;
//!  * correspondence `(conv <val> <tcode>)`: `api::convert::<A, B>` (push as A, get as B);
//!  * correspondence `(gg <tcode> <tcode>)`: `Thread::get_global::<B>` of a global of type A;
//!  * oracle (no model): x == roundtrip(x) directly, through `\x -> x`, through a gluon literal and
//!    `run_expr::<T>`, through Ser/De; a generated gluon observer function sees the corresponding
//!    value; the marshalled representation is the one gluon code of that type relies on;
//!    `get_global` at a non-matching type is refused with `WrongType`.
#[path = "c11/derived.rs"]
mod derived;
#[path = "c11/gv.rs"]
mod gvw;
#[path = "c11/marsh.rs"]
mod marsh;
#[path = "c11/orders.rs"]
mod orders;
use orders::*;
use derived::*;
use gluon::vm::api::{self, de, ser::Ser, FunctionRef, Getable, Hole, OpaqueValue, OwnedFunction, Pushable};
use gluon::{RootedThread, Thread, ThreadExt};
use gv::rng::Rng;
use gv::{Args, Out};
use gvw::walk;
use marsh::Marsh;
use serde::{de::DeserializeOwned, Serialize};
use serde_json::json;
use std::cmp::Ordering;
use std::collections::BTreeMap;

const HEADER: &str = r#"
let { Ordering, Option, Result, Bool } = import! std.types
let sp = import! std.string.prim
let prim = import! std.prim
let cp = import! std.char.prim
let ap = import! std.array.prim
let map @ { Map } = import! std.map
let { Color, Shape } = import! c11t
let cat a b : String -> String -> String = sp.append a b
let cat3 a b c : String -> String -> String -> String = cat a (cat b c)
let obs_str x : String -> String = cat3 (prim.show_int (sp.len x)) ":" x
let arr_go f xs i acc : (a -> String) -> Array a -> Int -> String -> String =
    if i #Int== ap.len xs then acc else arr_go f xs (i #Int+ 1) (cat3 acc (f (ap.index xs i)) ",")
let obs_arr f xs : (a -> String) -> Array a -> String = cat (arr_go f xs 0 "[") "]"
let map_go f m acc : (a -> String) -> Map String a -> String -> String =
    match m with
    | Tip -> acc
    | Bin k v l r -> map_go f r (cat (map_go f l acc) (cat3 (obs_str k) "=" (cat (f v) ",")))
"#;

struct Cx {
    vm: RootedThread,
    out: Out,
    seed: u64,
    n_random: usize,
    /// replay filter: (type name, index)
    only: Option<(String, usize)>,
    verbose: bool,
    /// flush the output files after every case (child processes that may be killed)
    flush_each: bool,
}

fn type_name<T>() -> String {
    std::any::type_name::<T>()
        .replace("alloc::string::", "")
        .replace("alloc::vec::", "")
        .replace("alloc::collections::btree::map::", "")
        .replace("core::option::", "")
        .replace("core::result::", "")
        .replace("core::cmp::", "")
        .replace("c11::derived::", "")
        .replace(' ', "")
}

fn salt(s: &str) -> u64 {
    let mut h = 0xcbf29ce484222325u64;
    for b in s.bytes() {
        h = (h ^ b as u64).wrapping_mul(0x100000001b3);
    }
    h
}

fn skeleton(v: &str) -> String {
    let mut o = String::new();
    let mut in_str = false;
    let mut esc = false;
    let mut last_hash = false;
    for c in v.chars() {
        if in_str {
            if esc {
                esc = false;
            } else if c == '\\' {
                esc = true;
            } else if c == '"' {
                in_str = false;
            }
            continue;
        }
        if c == '"' {
            in_str = true;
            o.push('$');
            last_hash = false;
        } else if c.is_ascii_digit() || c == '-' {
            if !last_hash {
                o.push('#');
            }
            last_hash = true;
        } else {
            o.push(c);
            last_hash = false;
        }
        if o.len() > 60 {
            break;
        }
    }
    o
}

fn norm_err(e: &str) -> String {
    // keep the shape of a message: drop quoted / back-quoted fragments (they hold values) and digits
    let mut o = String::new();
    let mut it = e.chars().peekable();
    while let Some(c) = it.next() {
        if c == '"' {
            while let Some(d) = it.next() {
                if d == '\\' {
                    it.next();
                } else if d == '"' {
                    break;
                }
            }
            o.push_str("\"\"");
        } else if c == '`' {
            while let Some(d) = it.next() {
                if d == '`' {
                    break;
                }
            }
            o.push_str("``");
        } else if c.is_ascii_digit() {
            if !o.ends_with('N') {
                o.push('N');
            }
        } else if c == '\n' {
            o.push(' ');
        } else if c.is_ascii_graphic() || c == ' ' {
            o.push(c);
        } else {
            o.push('?');
        }
        if o.len() > 100 {
            break;
        }
    }
    o
}

fn values<T: Marsh>(cx: &Cx) -> Vec<T> {
    let name = type_name::<T>();
    let mut r = Rng::new(cx.seed, salt(&name));
    let mut v = T::boundaries();
    for _ in 0..cx.n_random {
        v.push(T::gen(&mut r));
    }
    v
}

fn selected(cx: &Cx, name: &str, i: usize) -> bool {
    match &cx.only {
        None => true,
        Some((n, k)) => n == name && *k == i,
    }
}

fn run_type<T>(cx: &mut Cx)
where
    T: Marsh,
    T::Type: Sized,
{
    let name = type_name::<T>();
    if let Some((n, _)) = &cx.only {
        if *n != name {
            return;
        }
    }
    let vals = values::<T>(cx);
    let vm = cx.vm.clone();
    // gluon functions for this type
    let id_src = format!("{}\nlet f : {} -> {} = \\x -> x\nf\n", HEADER, T::gtype(), T::gtype());
    let mut defs = vec![];
    let obs_expr = T::obs_fn(&mut defs);
    let obs_src = format!("{}\n{}\nlet f : {} -> String = {}\nf\n", HEADER, defs.join("\n"), T::gtype(), obs_expr);
    let dbg = std::env::var("C11_DEBUG").is_ok();
    if dbg { eprintln!("id {}", id_src.len()); }
    let mut id_fn: Option<OwnedFunction<fn(T) -> T>> =
        match vm.run_expr::<OwnedFunction<fn(T) -> T>>(&format!("c11_id_{}", salt(&name)), &id_src) {
            Ok((f, _)) => Some(f),
            Err(e) => {
                cx.out.oracle_fail(
                    &format!("setup:identity:{}", name),
                    &format!("`\\x -> x` at {} -> {} is refused: {}", T::gtype(), T::gtype(), norm_err(&e.to_string())),
                    json!({"type": name, "index": 0, "op": "identity-setup"}),
                );
                None
            }
        };
    if dbg { eprintln!("obs\n{}", &obs_src[HEADER.len()..]); }
    let mut obs_fn: Option<OwnedFunction<fn(T) -> String>> =
        match vm.run_expr::<OwnedFunction<fn(T) -> String>>(&format!("c11_obs_{}", salt(&name)), &obs_src) {
            Ok((f, _)) => Some(f),
            Err(e) => {
                cx.out.oracle_fail(
                    &format!("setup:observer:{}", name),
                    &format!("observer of type {} -> String is refused: {}", T::gtype(), norm_err(&e.to_string())),
                    json!({"type": name, "index": 0, "op": "observer-setup"}),
                );
                None
            }
        };
    cx.out.count(&format!("type:{}", name));
    if std::env::var("C11_DEBUG").is_ok() {
        eprintln!("type {}", name);
    }
    for (i, x) in vals.iter().enumerate() {
        if !selected(cx, &name, i) {
            continue;
        }
        let val = x.val();
        if dbg { eprintln!("val {}", val); }
        let replay = |op: &str| json!({"type": name, "index": i, "op": op, "val": val});
        cx.out.count(&format!("head:{}", T::head()));
        cx.out.class(format!("{}|{}", name, skeleton(&val)));
        // --- push, walk, get back ---------------------------------------------------------
        // (no `RootedValue` here: rooting a NaN float panics on drop, see `child_nan`)
        let pushed = gv::catch(|| -> gluon::vm::Result<(gvw::Gv, Result<T, String>)> {
            let mut ctx = vm.current_context();
            x.clone().vm_push(&mut ctx)?;
            let v = ctx.pop();
            let g = walk(&vm, (*v).clone());
            let back = gv::catch(|| T::from_value(&vm, (*v).clone()));
            Ok((g, back))
        });
        let (gvs, back) = match pushed {
            Ok(Ok((g, back))) => {
                if let Err(blame) = x.conforms(&g) {
                    cx.out.oracle_fail(
                        &format!("shape:push:{}", blame),
                        &format!("{} is not marshalled to the gluon value of type {} (layer `{}`): {}", name, T::gtype(), blame, clip(&g.sexp())),
                        replay("push"),
                    );
                }
                let b = match back {
                    Ok(y) => {
                        if !y.same(x) {
                            cx.out.oracle_fail(
                                &format!("roundtrip:direct:{}", T::head()),
                                &format!("{}: pushed {} came back as {}", name, clip(&val), clip(&y.val())),
                                replay("direct"),
                            );
                        }
                        y.val()
                    }
                    Err(p) => {
                        cx.out.oracle_fail(
                            &format!("roundtrip:direct-panic:{}", T::head()),
                            &format!("{}: from_value of the pushed value panicked: {}", name, norm_err(&p)),
                            replay("direct"),
                        );
                        "panic".into()
                    }
                };
                (g.sexp(), b)
            }
            Ok(Err(e)) => {
                cx.out.oracle_fail(
                    &format!("push-error:{}", T::head()),
                    &format!("{}: vm_push failed: {}", name, norm_err(&e.to_string())),
                    replay("push"),
                );
                ("push-error".into(), "none".into())
            }
            Err(p) => {
                cx.out.oracle_fail(
                    &format!("push-panic:{}", T::head()),
                    &format!("{}: vm_push panicked: {}", name, norm_err(&p)),
                    replay("push"),
                );
                ("push-panic".into(), "none".into())
            }
        };
        let payload = format!("({} {})", gvs, back);
        if cx.verbose {
            println!("value   {}\npushed  {}\nback    {}", val, gvs, back);
        }
        if i % 97 == 3 {
            cx.out.sample(json!({"type": name, "request": clip(&format!("rt {} {}", T::tcode(), val)), "impl": clip(&payload)}));
        }
        cx.out.case(&format!("rt {} {}", T::tcode(), val), &payload);
        // --- through `\x -> x` ------------------------------------------------------------
        if let Some(f) = id_fn.as_mut() {
            match gv::catch(|| f.call(x.clone())) {
                Ok(Ok(y)) => {
                    cx.out.count("op:identity-call");
                    if !y.same(x) {
                        cx.out.oracle_fail(
                            &format!("roundtrip:fn:{}", T::head()),
                            &format!("{}: {} through `\\x -> x` came back as {}", name, clip(&val), clip(&y.val())),
                            replay("identity"),
                        );
                    }
                    if cx.verbose {
                        println!("id-fn   {}", y.val());
                    }
                }
                Ok(Err(e)) => cx.out.oracle_fail(
                    &format!("roundtrip:fn-error:{}", T::head()),
                    &format!("{}: calling `\\x -> x` failed: {}", name, norm_err(&e.to_string())),
                    replay("identity"),
                ),
                Err(p) => cx.out.oracle_fail(
                    &format!("roundtrip:fn-panic:{}", T::head()),
                    &format!("{}: calling `\\x -> x` panicked: {}", name, norm_err(&p)),
                    replay("identity"),
                ),
            }
        }
        // --- gluon-side observation -------------------------------------------------------
        if let Some(f) = obs_fn.as_mut() {
            let want = x.obs();
            match gv::catch(|| f.call(x.clone())) {
                Ok(Ok(got)) => {
                    cx.out.count("op:observe");
                    if got != want {
                        cx.out.oracle_fail(
                            &format!("observe:{}", first_diff_head::<T>()),
                            &format!("{}: gluon code sees {:?} for {} (expected {:?})", name, clip(&got), clip(&val), clip(&want)),
                            replay("observe"),
                        );
                    }
                    if cx.verbose {
                        println!("observe {:?}", got);
                    }
                }
                Ok(Err(e)) => cx.out.oracle_fail(
                    &format!("observe-error:{}", T::head()),
                    &format!("{}: observer failed: {}", name, norm_err(&e.to_string())),
                    replay("observe"),
                ),
                Err(p) => cx.out.oracle_fail(
                    &format!("observe-panic:{}", T::head()),
                    &format!("{}: observer panicked: {}", name, norm_err(&p)),
                    replay("observe"),
                ),
            }
        }
    }
    // --- gluon literal -> run_expr::<T> and run_expr::<Vec<T>> ------------------------------
    let mut lits: Vec<(usize, &T, String)> = vec![];
    for (i, x) in vals.iter().enumerate() {
        if !selected(cx, &name, i) {
            continue;
        }
        match x.lit() {
            Some(l) if l.len() < 600 => lits.push((i, x, l)),
            _ => cx.out.count("skipped:no-gluon-literal"),
        }
    }
    let singles = if cx.only.is_some() { lits.len() } else { 3.min(lits.len()) };
    let step = if singles == 0 { 1 } else { (lits.len() / singles).max(1) };
    for k in 0..singles {
        let (i, x, l) = &lits[(k * step).min(lits.len() - 1)];
        let src = format!("{}\nlet v : {} = {}\nv\n", HEADER, T::gtype(), l);
        let replay = json!({"type": name, "index": i, "op": "literal", "val": x.val()});
        if dbg { eprintln!("lit {}", &src[HEADER.len()..]); }
        match gv::catch(|| vm.run_expr::<T>("c11_lit", &src)) {
            Ok(Ok((y, _))) => {
                cx.out.count("op:literal-run_expr");
                if !y.same(x) {
                    cx.out.oracle_fail(
                        &format!("from-gluon:{}", T::head()),
                        &format!("{}: gluon literal {} is received as {}", name, clip(l), clip(&y.val())),
                        replay,
                    );
                }
                if cx.verbose {
                    println!("literal {} -> {}", l, y.val());
                }
            }
            Ok(Err(e)) => cx.out.oracle_fail(
                &format!("from-gluon-error:{}", T::head()),
                &format!("{}: run_expr::<T>({}) failed: {}", name, clip(l), norm_err(&e.to_string())),
                replay,
            ),
            Err(p) => cx.out.oracle_fail(
                &format!("from-gluon-panic:{}", T::head()),
                &format!("{}: run_expr::<T>({}) panicked: {}", name, clip(l), norm_err(&p)),
                replay,
            ),
        }
    }
    if cx.only.is_none() && !lits.is_empty() {
        for chunk in lits.chunks(12).take(if cx.n_random > 100 { 8 } else { 2 }) {
            let body: Vec<&str> = chunk.iter().map(|c| c.2.as_str()).collect();
            let src = format!("{}\nlet v : Array {} = [{}]\nv\n", HEADER, T::gtype(), body.join(", "));
            let replay = json!({"type": name, "index": chunk[0].0, "op": "literal-array"});
            if dbg { eprintln!("lits {}", &src[HEADER.len()..]); }
            match gv::catch(|| vm.run_expr::<Vec<T>>("c11_lits", &src)) {
                Ok(Ok((ys, _))) => {
                    cx.out.add("op:literal-in-array", chunk.len() as u64);
                    let ok = ys.len() == chunk.len() && ys.iter().zip(chunk).all(|(y, c)| y.same(c.1));
                    if !ok {
                        cx.out.oracle_fail(
                            &format!("from-gluon:{}", T::head()),
                            &format!("{}: array of gluon literals [{}] is received differently", name, clip(&body.join(", "))),
                            replay,
                        );
                    }
                }
                Ok(Err(e)) => cx.out.oracle_fail(
                    &format!("from-gluon-error:{}", T::head()),
                    &format!("{}: run_expr::<Vec<T>> failed: {}", name, norm_err(&e.to_string())),
                    replay,
                ),
                Err(p) => cx.out.oracle_fail(
                    &format!("from-gluon-panic:{}", T::head()),
                    &format!("{}: run_expr::<Vec<T>> panicked: {}", name, norm_err(&p)),
                    replay,
                ),
            }
        }
    }
}

fn first_diff_head<T: Marsh>() -> String {
    T::head().to_string()
}

fn clip(s: &str) -> String {
    if s.chars().count() > 160 {
        let t: String = s.chars().take(160).collect();
        format!("{}…", t)
    } else {
        s.to_string()
    }
}

/// One `De` attempt (child process): `kind` = "ser-de" (De of what Ser pushed) or "push-de" (De of
/// what Pushable pushed).
fn de_attempt<T>(vm: &Thread, x: &T, kind: &str) -> String
where
    T: Marsh + Serialize + DeserializeOwned,
    T::Type: Sized,
{
    let typ = T::make_type(vm);
    let r = gv::catch(|| -> gluon::vm::Result<Result<gluon::vm::Result<T>, String>> {
        let mut ctx = vm.current_context();
        if kind == "ser-de" {
            Ser(x.clone()).vm_push(&mut ctx)?;
        } else {
            x.clone().vm_push(&mut ctx)?;
        }
        let v = ctx.pop();
        Ok(gv::catch(|| de::from_value::<T>(vm, (*v).clone(), &typ)))
    });
    match r {
        Ok(Ok(r)) => match de_verdict(&r, x) {
            // "ok~": equal for the oracle (a quieted signalling NaN), not identical for the model
            Ok(()) => match &r {
                Ok(Ok(y)) if y.val() != x.val() => format!("ok~ {}", y.val()),
                _ => "ok".into(),
            },
            Err(w) => w,
        },
        Ok(Err(e)) => format!("push-error: {}", norm_err(&e.to_string())),
        Err(p) => format!("push-panic: {}", norm_err(&p)),
    }
}

/// Child: all De attempts of one type, one line each; `A` marks the attempt that is running.
fn child_de_type<T>(vm: &Thread, t_idx: usize, cfg: &serde_json::Value)
where
    T: Marsh + Serialize + DeserializeOwned,
    T::Type: Sized,
{
    use std::io::Write;
    let start_t = cfg["start_t"].as_u64().unwrap() as usize;
    let start_v = cfg["start_v"].as_u64().unwrap() as usize;
    if t_idx < start_t {
        return;
    }
    let name = type_name::<T>();
    let mut r = Rng::new(cfg["seed"].as_u64().unwrap(), salt(&name));
    let mut vals = T::boundaries();
    for _ in 0..cfg["n"].as_u64().unwrap() {
        vals.push(T::gen(&mut r));
    }
    let out = std::io::stdout();
    for (i, x) in vals.iter().enumerate() {
        if t_idx == start_t && i < start_v {
            continue;
        }
        for kind in ["ser-de", "push-de"] {
            let skip = cfg["skip"].as_array().unwrap().iter().any(|s| s[0].as_u64() == Some(t_idx as u64) && s[1].as_str() == Some(kind));
            if skip {
                continue;
            }
            let mut o = out.lock();
            writeln!(o, "A {} {} {}", t_idx, i, kind).unwrap();
            o.flush().unwrap();
            let v = de_attempt::<T>(vm, x, kind);
            writeln!(o, "R {} {} {} {}", t_idx, i, kind, v.replace('\n', " ")).unwrap();
            o.flush().unwrap();
        }
    }
}

type DeResults = std::collections::HashMap<(usize, usize, String), String>;

/// Parent: run the De child to completion, restarting after every crash (stack overflow in `De`
/// cannot be caught in-process).
fn collect_de(seed: u64, n: usize) -> DeResults {
    let mut res = DeResults::new();
    let mut skip: Vec<(usize, String)> = vec![];
    let (mut start_t, mut start_v) = (0usize, 0usize);
    for _round in 0..400 {
        let cfg = json!({"seed": seed, "n": n, "start_t": start_t, "start_v": start_v,
            "skip": skip.iter().map(|(t, k)| json!([t, k])).collect::<Vec<_>>()});
        let e = gv::child::run(&["--child", "de"], cfg.to_string().as_bytes(), std::time::Duration::from_secs(1200));
        let (done, text) = match &e {
            gv::child::Exit::Ok(s) => (true, s.clone()),
            gv::child::Exit::Code(_, s, _) | gv::child::Exit::Signal(_, s, _) | gv::child::Exit::Timeout(s) => (false, s.clone()),
        };
        let mut pending: Option<(usize, usize, String)> = None;
        for line in text.lines() {
            let mut it = line.splitn(5, ' ');
            let tag = it.next().unwrap_or("");
            let t: usize = it.next().and_then(|x| x.parse().ok()).unwrap_or(0);
            let v: usize = it.next().and_then(|x| x.parse().ok()).unwrap_or(0);
            let k = it.next().unwrap_or("").to_string();
            match tag {
                "A" => pending = Some((t, v, k)),
                "R" => {
                    res.insert((t, v, k), it.next().unwrap_or("").to_string());
                    pending = None;
                }
                _ => {}
            }
        }
        if done {
            break;
        }
        match pending {
            Some((t, v, k)) => {
                res.insert((t, v, k.clone()), format!("crash: {}", e.class()));
                // one crash per (type, kind) is enough: skip the rest of that kind for the type
                skip.push((t, k));
                start_t = t;
                start_v = v;
            }
            None => break,
        }
    }
    res
}

/// The serde bridge: `Ser` in, `De` out.
fn run_serde<T>(cx: &mut Cx, t_idx: usize, de_res: &DeResults)
where
    T: Marsh + Serialize + DeserializeOwned,
    T::Type: Sized,
{
    let name = type_name::<T>();
    if let Some((n, _)) = &cx.only {
        if *n != name {
            return;
        }
    }
    let vals = values::<T>(cx);
    let vm = cx.vm.clone();
    for (i, x) in vals.iter().enumerate() {
        if !selected(cx, &name, i) {
            continue;
        }
        let val = x.val();
        let replay = |op: &str| json!({"type": name, "index": i, "op": op, "val": val});
        let mut ser_ok = false;
        let pushed = gv::catch(|| -> gluon::vm::Result<gvw::Gv> {
            let mut ctx = vm.current_context();
            Ser(x.clone()).vm_push(&mut ctx)?;
            let v = ctx.pop();
            Ok(walk(&vm, (*v).clone()))
        });
        let payload = match &pushed {
            Ok(Ok(g)) => {
                match x.conforms(g) {
                    Ok(()) => ser_ok = true,
                    Err(blame) => cx.out.oracle_fail(
                        &format!("ser-shape:{}", blame),
                        &format!(
                            "Ser<{}> does not push the gluon value of type {} (layer `{}`): {} becomes {}",
                            name, T::gtype(), blame, clip(&val), clip(&g.sexp())
                        ),
                        replay("ser"),
                    ),
                }
                g.sexp()
            }
            Ok(Err(e)) => {
                cx.out.oracle_fail(
                    &format!("ser-error:{}", T::head()),
                    &format!("Ser<{}> failed: {}", name, norm_err(&e.to_string())),
                    replay("ser"),
                );
                "error".into()
            }
            Err(p) => {
                cx.out.oracle_fail(
                    &format!("ser-panic:{}", T::head()),
                    &format!("Ser<{}> panicked: {}", name, norm_err(p)),
                    replay("ser"),
                );
                "panic".into()
            }
        };
        if cx.verbose {
            println!("ser     {}", payload);
        }
        cx.out.count("op:ser");
        cx.out.class(format!("ser|{}|{}", name, skeleton(&val)));
        cx.out.case(&format!("ser {}", val), &payload);
        for kind in ["ser-de", "push-de"] {
            let verdict = if cx.only.is_some() {
                // replay: one attempt in a child of its own
                let cfg = json!({"seed": cx.seed, "n": cx.n_random, "start_t": t_idx, "start_v": i, "skip": [], "one": kind});
                let e = gv::child::run(&["--child", "de"], cfg.to_string().as_bytes(), std::time::Duration::from_secs(300));
                match &e {
                    gv::child::Exit::Ok(s) => s.lines().find(|l| l.starts_with("R ")).and_then(|l| l.splitn(5, ' ').nth(4)).unwrap_or("?").to_string(),
                    _ => format!("crash: {}", e.class()),
                }
            } else {
                match de_res.get(&(t_idx, i, kind.to_string())) {
                    Some(v) => v.clone(),
                    None => {
                        cx.out.count(&format!("skipped:{}-after-crash", kind));
                        continue;
                    }
                }
            };
            if cx.verbose {
                println!("{} {}", kind, verdict);
            }
            cx.out.count(&format!("op:{}", kind));
            if kind == "push-de" {
                // correspondence with the Lean model of `De`: outcome class (+ the value read)
                let payload = if verdict == "ok" {
                    "ok".to_string()
                } else if let Some(v) = verdict.strip_prefix("differs: got ").or(verdict.strip_prefix("ok~ ")) {
                    format!("(differs {})", v)
                } else {
                    verdict.split(':').next().unwrap_or("?").to_string()
                };
                cx.out.class(format!("de|{}|{}", name, payload.split(' ').next().unwrap_or("")));
                cx.out.case(&format!("de {} {}", T::tcode(), val), &payload);
            }
            if verdict == "ok" || verdict.starts_with("ok~ ") {
                cx.out.count(&format!("op:{}-ok", kind));
                continue;
            }
            if kind == "ser-de" && !ser_ok {
                // a non type-faithful Ser output is reported above; do not report its consequence twice
                cx.out.count("serde-rt-fails-after-bad-ser");
                continue;
            }
            let fp = fp_of(&verdict, T::head());
            // a crash is De's unbounded recursion whatever produced the value: one fingerprint family
            let family = if kind == "ser-de" && !verdict.starts_with("crash") { "serde-rt" } else { "de" };
            cx.out.oracle_fail(
                &format!("{}:{}", family, fp),
                &format!("{}: {} {}: {}", name, clip(&val), if kind == "ser-de" { "through Ser then De" } else { "marshalled, then read with De" }, clip(&verdict)),
                replay(kind),
            );
        }
    }
}

/// failure class of a De verdict + head constructor of the requested type (stable across seeds)
fn fp_of(why: &str, head: &str) -> String {
    let class = why.split(':').next().unwrap_or("?");
    format!("{}:{}", class, head)
}

fn de_verdict<T: Marsh>(r: &Result<gluon::vm::Result<T>, String>, x: &T) -> Result<(), String> {
    match r {
        Ok(Ok(y)) => {
            if y.same(x) {
                Ok(())
            } else {
                Err(format!("differs: got {}", y.val()))
            }
        }
        Ok(Err(e)) => Err(format!("error: {}", norm_err(&e.to_string()))),
        Err(p) => Err(format!("panic: {}", norm_err(p))),
    }
}

/// `api::convert::<A, B>`: push as A, read as B (the `as` casts of the integer/float impls).
fn run_conv<A, B>(cx: &mut Cx)
where
    A: Marsh,
    B: Marsh,
{
    if cx.only.is_some() {
        return;
    }
    let vm = cx.vm.clone();
    let name = format!("{}->{}", type_name::<A>(), type_name::<B>());
    let mut r = Rng::new(cx.seed, salt(&name));
    let mut vals = A::boundaries();
    for _ in 0..cx.n_random {
        vals.push(A::gen(&mut r));
    }
    for x in vals {
        // what `api::convert::<A, B>` does (api/mod.rs:582): push as A, pop, read as B; the panic of
        // an `ice!` is caught before it unwinds through the context lock (it would poison the VM)
        let res = gv::catch(|| -> gluon::vm::Result<Result<B, String>> {
            let mut ctx = vm.current_context();
            x.clone().vm_push(&mut ctx)?;
            let v = ctx.pop();
            Ok(gv::catch(|| B::from_value(&vm, (*v).clone())))
        });
        let payload = match res {
            Ok(Ok(Ok(y))) => y.val(),
            Ok(Ok(Err(_))) => "panic".into(),
            Ok(Err(_)) => "error".into(),
            Err(_) => "panic".into(),
        };
        // and the real `convert` where it cannot panic
        if payload != "panic" {
            match gv::catch(|| api::convert::<A, B>(&vm, x.clone())) {
                Ok(Ok(y)) if y.val() == payload => {}
                _ => cx.out.oracle_fail("convert:differs", &format!("api::convert {} differs from push+from_value for {}", name, x.val()), json!({"op": "conv"})),
            }
        }
        cx.out.count("op:convert");
        cx.out.class(format!("conv|{}|{}", name, payload == "panic"));
        cx.out.case(&format!("conv {} {}", x.val(), B::tcode()), &payload);
    }
}

/// Globals of known gluon types requested at matching and non-matching Rust types.
fn run_globals(cx: &mut Cx) {
    if cx.only.is_some() {
        return;
    }
    let vm = cx.vm.clone();
    let src = r#"
let { Color, Shape } = import! c11t
let { Result, Option, Bool, Ordering } = import! std.types
let o : Option Int = Some 7
let os : Option String = None
let r : Result String Int = Ok 3
let a : Array Int = [1, 2, 3]
let ab : Array Byte = [1b, 2b]
let ae : Array String = []
let tp : (Int, String) = (1, "one")
let pt : { x : Int, y : Float } = { x = 4, y = 2.5 }
let ptr : { y : Float, x : Int } = { y = 2.5, x = 4 }
let col : Color = Green
let sh : Shape = Rect { w = 3, h = 4 }
{
    i = 41, f = 1.5, s = "str", c = 'c', b = 9b, u = (), t = True, o, os, r, a, ab, ae, tp, pt, ptr, col, sh,
    fi = \x -> x #Int+ 1,
    fs = \x -> (import! std.string.prim).len x,
    f2 = \x y -> x #Int* y,
}
"#;
    if let Err(e) = vm.load_script("c11g", src) {
        cx.out.oracle_fail("setup:globals", &format!("cannot load the globals module: {}", e), json!({"op": "globals"}));
        return;
    }
    // (field, gluon type, tcode or "")
    let globals: Vec<(&str, String, String)> = vec![
        ("i", "Int".into(), "i64".into()),
        ("f", "Float".into(), "f64".into()),
        ("s", "String".into(), "string".into()),
        ("c", "Char".into(), "char".into()),
        ("b", "Byte".into(), "u8".into()),
        ("u", "()".into(), "unit".into()),
        ("t", "Bool".into(), "bool".into()),
        ("o", <Option<i64>>::gtype(), <Option<i64>>::tcode()),
        ("os", <Option<String>>::gtype(), <Option<String>>::tcode()),
        ("r", <Result<i64, String>>::gtype(), <Result<i64, String>>::tcode()),
        ("a", <Vec<i64>>::gtype(), <Vec<i64>>::tcode()),
        ("ab", <Vec<u8>>::gtype(), <Vec<u8>>::tcode()),
        ("ae", <Vec<String>>::gtype(), <Vec<String>>::tcode()),
        ("tp", <(i64, String)>::gtype(), <(i64, String)>::tcode()),
        ("pt", Point::gtype(), Point::tcode()),
        ("ptr", "{ y : Float, x : Int }".into(), "(struct (\"y\" f64) (\"x\" i32))".into()),
        ("col", Color::gtype(), Color::tcode()),
        ("sh", Shape::gtype(), Shape::tcode()),
        ("fi", "Int -> Int".into(), "".into()),
        ("fs", "String -> Int".into(), "".into()),
        ("f2", "Int -> Int -> Int".into(), "".into()),
    ];
    macro_rules! req {
        ($t:ty, $gt:expr, $tc:expr, $show:expr) => {{
            let gt: String = $gt;
            let tc: String = $tc;
            for (field, gtype, gtc) in &globals {
                let name = format!("c11g.{}", field);
                let res = gv::catch(|| vm.get_global::<$t>(&name));
                let same_type = *gtype == gt;
                // records with reordered fields: the statement leaves open whether they are the
                // same type; both answers are acceptable, a wrong value never is
                let reordered = (*field == "ptr" && gt == Point::gtype()) || (*field == "pt" && gt == "{ y : Float, x : Int }");
                let show: &dyn Fn(&$t) -> String = &$show;
                let (payload, detail) = match &res {
                    Ok(Ok(v)) => ("ok".to_string(), show(v)),
                    Ok(Err(gluon::vm::Error::WrongType(_, _))) => ("wrong-type".to_string(), String::new()),
                    Ok(Err(e)) => (format!("error"), norm_err(&e.to_string())),
                    Err(p) => ("panic".to_string(), norm_err(p)),
                };
                let replay = json!({"op": "get_global", "global": name, "global_type": gtype, "requested": stringify!($t)});
                if reordered {
                    if payload != "wrong-type" && !(payload == "ok" && detail == "Point{x:4,y:2.5}") {
                        cx.out.oracle_fail(
                            &format!("get_global:reordered-record:{}", payload),
                            &format!("get_global::<{}>({}) of a record with reordered fields: {} {}", stringify!($t), name, payload, detail),
                            replay,
                        );
                    }
                } else if same_type {
                    if payload != "ok" {
                        cx.out.oracle_fail(
                            &format!("get_global:refused:{}", field),
                            &format!("get_global::<{}>({} : {}) is refused: {} {}", stringify!($t), name, gtype, payload, detail),
                            replay,
                        );
                    }
                } else if payload != "wrong-type" {
                    cx.out.oracle_fail(
                        &format!("get_global:not-refused:{}:{}", gtype.split(' ').next().unwrap_or(""), gt.split(' ').next().unwrap_or("")),
                        &format!("get_global::<{}>({} : {}) is not refused with WrongType: {} {}", stringify!($t), name, gtype, payload, detail),
                        replay,
                    );
                }
                cx.out.count(&format!("get_global:{}", payload));
                cx.out.class(format!("gg|{}|{}|{}", field, stringify!($t), payload));
                if !gtc.is_empty() && !tc.is_empty() {
                    cx.out.case(&format!("gg {} {}", gtc, tc), &payload);
                }
            }
        }};
    }
    req!(i64, "Int".into(), "i64".into(), |v| format!("{}", v));
    req!(u16, "Int".into(), "u16".into(), |v| format!("{}", v));
    req!(f64, "Float".into(), "f64".into(), |v| format!("{}", v));
    req!(f32, "Float".into(), "f32".into(), |v| format!("{}", v));
    req!(String, "String".into(), "string".into(), |v| v.clone());
    req!(char, "Char".into(), "char".into(), |v| format!("{}", v));
    req!(u8, "Byte".into(), "u8".into(), |v| format!("{}", v));
    req!((), "()".into(), "unit".into(), |_| "()".into());
    req!(bool, "Bool".into(), "bool".into(), |v| format!("{}", v));
    req!(Ordering, "Ordering".into(), "ordering".into(), |v| format!("{:?}", v));
    req!(Option<i64>, <Option<i64>>::gtype(), <Option<i64>>::tcode(), |v| format!("{:?}", v));
    req!(Option<String>, <Option<String>>::gtype(), <Option<String>>::tcode(), |v| format!("{:?}", v));
    req!(Result<i64, String>, <Result<i64, String>>::gtype(), <Result<i64, String>>::tcode(), |v| format!("{:?}", v));
    req!(Result<String, i64>, <Result<String, i64>>::gtype(), <Result<String, i64>>::tcode(), |v| format!("{:?}", v));
    req!(Vec<i64>, <Vec<i64>>::gtype(), <Vec<i64>>::tcode(), |v| format!("{:?}", v));
    req!(Vec<u8>, <Vec<u8>>::gtype(), <Vec<u8>>::tcode(), |v| format!("{:?}", v));
    req!(Vec<String>, <Vec<String>>::gtype(), <Vec<String>>::tcode(), |v| format!("{:?}", v));
    req!((i64, String), <(i64, String)>::gtype(), <(i64, String)>::tcode(), |v| format!("{:?}", v));
    req!((String, i64), <(String, i64)>::gtype(), <(String, i64)>::tcode(), |v| format!("{:?}", v));
    req!((i64, String, i64), <(i64, String, i64)>::gtype(), <(i64, String, i64)>::tcode(), |v| format!("{:?}", v));
    req!(Point, Point::gtype(), Point::tcode(), |v| format!("Point{{x:{},y:{}}}", v.x, v.y));
    req!(Color, Color::gtype(), Color::tcode(), |v| format!("{:?}", v));
    req!(Shape, Shape::gtype(), Shape::tcode(), |v| format!("{:?}", v));
    req!(BTreeMap<String, i64>, <BTreeMap<String, i64>>::gtype(), <BTreeMap<String, i64>>::tcode(), |v| format!("{:?}", v));
    req!(FunctionRef<fn(i64) -> i64>, "Int -> Int".into(), "".into(), |_| "fn".into());
    req!(FunctionRef<fn(String) -> i64>, "String -> Int".into(), "".into(), |_| "fn".into());
    req!(FunctionRef<fn(i64) -> String>, "Int -> String".into(), "".into(), |_| "fn".into());
    req!(FunctionRef<fn(i64, i64) -> i64>, "Int -> Int -> Int".into(), "".into(), |_| "fn".into());
    req!(FunctionRef<fn(f64) -> f64>, "Float -> Float".into(), "".into(), |_| "fn".into());
}


/// `std.map.Map String V` values as gluon code builds them (any tree shape), held opaquely.
type OM<V> = OpaqueValue<RootedThread, BTreeMap<String, V>>;

const MAP_MOD: &str = r#"
let map @ { Map } = import! std.map
let { Semigroup } = import! std.semigroup
let string @ { ? } = import! std.string
let app l r : Map String a -> Map String a -> Map String a =
    (map.semigroup ?string.ord).append l r
let idm m : Map String a -> Map String a = m
{ app, idm }
"#;

fn flush(cx: &mut Cx) {
    use std::io::Write;
    if cx.flush_each {
        let _ = cx.out.cases.flush();
        let _ = cx.out.imp.flush();
        let _ = cx.out.oracle.flush();
    }
}

fn gen_key(r: &mut Rng) -> String {
    match r.below(10) {
        0 => <String as Marsh>::gen(r),
        1 => String::new(),
        _ => {
            let l = r.range(1, 2);
            (0..l).map(|_| *r.pick(&['a', 'b', 'c', 'd', 'm', 'x', 'z', 'é', '0'])).collect()
        }
    }
}

/// Maps that gluon code builds or modifies before the host reads them: `std.map.insert` in random
/// orders (colliding keys, 0..50 entries; descending = left spines), `append` of two maps, inserts into
/// a map Rust pushed.  The host's `BTreeMap` must hold exactly the entries gluon code sees in the
/// tree (observer) and, for insert-only builds, the entries inserted (last write wins); the real tree
/// shape also goes to the Lean model's `get`.
fn run_gluon_maps<V>(cx: &mut Cx)
where
    V: Marsh,
    V::Type: Sized,
    V: for<'vm2> Pushable<'vm2>,
{
    let name = format!("gluon-map<{}>", type_name::<V>());
    if let Some((n, _)) = &cx.only {
        if *n != name {
            return;
        }
    }
    let vm = cx.vm.clone();
    let tcode = <BTreeMap<String, V>>::tcode();
    macro_rules! setup {
        ($e:expr, $what:expr) => {
            match gv::catch(|| $e) {
                Ok(Ok(x)) => x,
                Ok(Err(e)) => {
                    cx.out.oracle_fail(&format!("setup:gluon-map:{}", $what), &format!("{}: {}", name, norm_err(&e.to_string())), json!({"type": name, "index": 0, "op": "gluon-map"}));
                    return;
                }
                Err(p) => {
                    cx.out.oracle_fail(&format!("setup:gluon-map:{}", $what), &format!("{}: panic {}", name, norm_err(&p)), json!({"type": name, "index": 0, "op": "gluon-map"}));
                    return;
                }
            }
        };
    }
    let mut ins: OwnedFunction<fn(String, V, OM<V>) -> OM<V>> = setup!(vm.get_global("std.map.insert_string"), "insert");
    let empty: OM<V> = setup!(vm.get_global("std.map.empty"), "empty");
    let mut app: OwnedFunction<fn(OM<V>, OM<V>) -> OM<V>> = setup!(vm.get_global("c11m.app"), "append");
    let mut rd: OwnedFunction<fn(OM<V>) -> BTreeMap<String, V>> = setup!(vm.get_global("c11m.idm"), "read");
    let mut lift: OwnedFunction<fn(BTreeMap<String, V>) -> OM<V>> = setup!(vm.get_global("c11m.idm"), "lift");
    let mut defs = vec![];
    let obs_expr = <BTreeMap<String, V>>::obs_fn(&mut defs);
    let obs_src = format!("{}\n{}\nlet f : {} -> String = {}\nf\n", HEADER, defs.join("\n"), <BTreeMap<String, V>>::gtype(), obs_expr);
    let mut observer: OwnedFunction<fn(OM<V>) -> String> =
        setup!(vm.run_expr::<OwnedFunction<fn(OM<V>) -> String>>(&format!("c11_mobs_{}", salt(&name)), &obs_src).map(|x| x.0), "observer");

    let mut r = Rng::new(cx.seed, salt(&name));
    let n_cases = if cx.n_random > 100 { 300 } else { 60 };
    let sizes = [0usize, 1, 2, 3, 4, 5, 7, 9, 13, 21, 34, 50];
    for i in 0..n_cases {
        // generate always (determinism), run only the selected index on replay
        // small trees first: a reader that revisits subtrees is exponential on long spines
        let n = if i < n_cases / 3 { sizes[r.below(7) as usize] } else { sizes[r.below(sizes.len() as u64) as usize] };
        let mode = r.below(6);
        let mut entries: Vec<(String, V)> = (0..n).map(|_| (gen_key(&mut r), V::gen(&mut r))).collect();
        let extra: Vec<(String, V)> = (0..r.below(8) as usize).map(|_| (gen_key(&mut r), V::gen(&mut r))).collect();
        if !selected(cx, &name, i) {
            continue;
        }
        let how = match mode {
            0 | 1 => "insert-random-order",
            2 => {
                entries.sort_by(|a, b| b.0.cmp(&a.0));
                "insert-descending"
            }
            3 => {
                entries.sort_by(|a, b| a.0.cmp(&b.0));
                "insert-ascending"
            }
            4 => "append",
            _ => "insert-into-pushed",
        };
        let replay = json!({"type": name, "index": i, "op": "gluon-map", "how": how, "entries": entries.len()});
        // build in gluon
        let build = |ins: &mut OwnedFunction<fn(String, V, OM<V>) -> OM<V>>, start: OM<V>, es: &[(String, V)]| -> Result<OM<V>, String> {
            let mut m = start;
            for (k, v) in es {
                m = match gv::catch(|| ins.call(k.clone(), v.clone(), m.clone())) {
                    Ok(Ok(m2)) => m2,
                    Ok(Err(e)) => return Err(norm_err(&e.to_string())),
                    Err(p) => return Err(format!("panic {}", norm_err(&p))),
                };
            }
            Ok(m)
        };
        let mut expected: Option<BTreeMap<String, V>> = None;
        let built: Result<OM<V>, String> = match how {
            "append" => {
                let a = build(&mut ins, empty.clone(), &entries);
                let b = build(&mut ins, empty.clone(), &extra);
                match (a, b) {
                    (Ok(a), Ok(b)) => match gv::catch(|| app.call(a, b)) {
                        Ok(Ok(m)) => Ok(m),
                        Ok(Err(e)) => Err(norm_err(&e.to_string())),
                        Err(p) => Err(format!("panic {}", norm_err(&p))),
                    },
                    (Err(e), _) | (_, Err(e)) => Err(e),
                }
            }
            "insert-into-pushed" => {
                let mut base = BTreeMap::new();
                for (k, v) in &entries {
                    base.insert(k.clone(), v.clone());
                }
                let mut exp = base.clone();
                for (k, v) in &extra {
                    exp.insert(k.clone(), v.clone());
                }
                expected = Some(exp);
                match gv::catch(|| lift.call(base)) {
                    Ok(Ok(m)) => build(&mut ins, m, &extra),
                    Ok(Err(e)) => Err(norm_err(&e.to_string())),
                    Err(p) => Err(format!("panic {}", norm_err(&p))),
                }
            }
            _ => {
                let mut exp = BTreeMap::new();
                for (k, v) in &entries {
                    exp.insert(k.clone(), v.clone());
                }
                expected = Some(exp);
                build(&mut ins, empty.clone(), &entries)
            }
        };
        let m = match built {
            Ok(m) => m,
            Err(e) => {
                cx.out.oracle_fail("gluon-map:build-error", &format!("{} ({}): building the map in gluon failed: {}", name, how, e), replay);
                continue;
            }
        };
        // what the tree really is, and what the host reads from it
        let g = walk(&vm, m.get_variant());
        let direct = gv::catch(|| <BTreeMap<String, V>>::from_value(&vm, m.get_variant()));
        let payload = match &direct {
            Ok(y) => y.val(),
            Err(_) => "panic".to_string(),
        };
        cx.out.count(&format!("gluon-map:{}", how));
        cx.out.class(format!("gmap|{}|{}|{}", name, how, entries.len().min(9)));
        if cx.verbose {
            println!("how     {}\ntree    {}\nread    {}", how, g.sexp(), payload);
        }
        cx.out.case(&format!("getg {} {}", tcode, g.sexp()), &payload);
        flush(cx);
        let via_fn = gv::catch(|| rd.call(m.clone()));
        let seen = gv::catch(|| observer.call(m.clone()));
        match (&direct, &via_fn) {
            (Ok(d), Ok(Ok(f))) => {
                if !d.same(f) {
                    cx.out.oracle_fail("gluon-map:fn-vs-direct", &format!("{} ({}): a function result and from_value disagree", name, how), replay.clone());
                }
                if let Some(exp) = &expected {
                    if !d.same(exp) {
                        cx.out.oracle_fail(
                            "gluon-map:differs",
                            &format!("{} ({}): the host reads {} entries of a gluon-built map that holds {}: read {} expected {}", name, how, d.len(), exp.len(), clip(&d.val()), clip(&exp.val())),
                            replay.clone(),
                        );
                    }
                }
                match &seen {
                    Ok(Ok(sv)) => {
                        if *sv != d.obs() {
                            cx.out.oracle_fail(
                                "gluon-map:host-vs-gluon-view",
                                &format!("{} ({}): gluon code sees {:?} in the tree, the host reads {:?}", name, how, clip(sv), clip(&d.obs())),
                                replay.clone(),
                            );
                        }
                    }
                    _ => cx.out.oracle_fail("gluon-map:observer-error", &format!("{} ({}): the gluon observer failed", name, how), replay.clone()),
                }
            }
            _ => cx.out.oracle_fail("gluon-map:read-panic", &format!("{} ({}): reading the map panicked or failed", name, how), replay.clone()),
        }
        flush(cx);
    }
}

/// `std.json.Value`'s `Object` shares `from_gluon_map` (api/json.rs:136).
fn run_json_maps(cx: &mut Cx) {
    let name = "gluon-map<json>".to_string();
    if let Some((n, _)) = &cx.only {
        if *n != name {
            return;
        }
    }
    let vm = cx.vm.clone();
    type JM = OpaqueValue<RootedThread, BTreeMap<String, serde_json::Value>>;
    let setup = (|| -> gluon::vm::Result<_> {
        vm.run_expr::<OpaqueValue<&Thread, Hole>>("c11_json_pre", "let _ = import! std.json\n()").map_err(|e| gluon::vm::Error::Message(e.to_string()))?;
        let ins: OwnedFunction<fn(String, serde_json::Value, JM) -> JM> = vm.get_global("std.map.insert_string")?;
        let empty: JM = vm.get_global("std.map.empty")?;
        let (obj, _) = vm
            .run_expr::<OwnedFunction<fn(JM) -> serde_json::Value>>("c11_json_obj", "let { Value } = import! std.json\n\\m -> Object m")
            .map_err(|e| gluon::vm::Error::Message(e.to_string()))?;
        Ok((ins, empty, obj))
    })();
    let (mut ins, empty, mut obj) = match setup {
        Ok(x) => x,
        Err(e) => {
            cx.out.oracle_fail("setup:gluon-map:json", &norm_err(&e.to_string()), json!({"type": name, "index": 0, "op": "gluon-map"}));
            return;
        }
    };
    let mut r = Rng::new(cx.seed, salt(&name));
    for i in 0..(if cx.n_random > 100 { 100 } else { 30 }) {
        let n = r.range(0, 20) as usize;
        let entries: Vec<(String, i64)> = (0..n).map(|_| (gen_key(&mut r), r.range(-5, 5))).collect();
        if !selected(cx, &name, i) {
            continue;
        }
        let mut exp = serde_json::Map::new();
        let mut m = empty.clone();
        let mut ok = true;
        for (k, v) in &entries {
            exp.insert(k.clone(), serde_json::Value::from(*v));
            match gv::catch(|| ins.call(k.clone(), serde_json::Value::from(*v), m.clone())) {
                Ok(Ok(m2)) => m = m2,
                _ => {
                    ok = false;
                    break;
                }
            }
        }
        let replay = json!({"type": name, "index": i, "op": "gluon-map", "how": "json-object"});
        let got = if ok { gv::catch(|| obj.call(m.clone())) } else { Err("build".into()) };
        cx.out.count("gluon-map:json-object");
        match got {
            Ok(Ok(v)) => {
                if v != serde_json::Value::Object(exp.clone()) {
                    cx.out.oracle_fail("gluon-map:differs", &format!("std.json Object built in gluon is received as {} (expected {})", clip(&v.to_string()), clip(&serde_json::Value::Object(exp).to_string())), replay);
                }
            }
            _ => cx.out.oracle_fail("gluon-map:read-panic", "reading a gluon-built std.json Object failed", replay),
        }
    }
}

/// Arrays gluon code builds with `array.append` (the representation comes from the first array,
/// possibly an empty one).
fn run_gluon_arrays<T>(cx: &mut Cx)
where
    T: Marsh,
    T::Type: Sized,
{
    let name = format!("gluon-array<{}>", type_name::<T>());
    if let Some((n, _)) = &cx.only {
        if *n != name {
            return;
        }
    }
    let vm = cx.vm.clone();
    let src = format!("let f : {t} -> {t} -> {t} = \\a b -> (import! std.array.prim).append a b\nf", t = <Vec<T>>::gtype());
    let mut f = match vm.run_expr::<OwnedFunction<fn(Vec<T>, Vec<T>) -> Vec<T>>>(&format!("c11_arr_{}", salt(&name)), &format!("{}\n{}", HEADER, src)) {
        Ok((f, _)) => f,
        Err(e) => {
            cx.out.oracle_fail("setup:gluon-array", &format!("{}: {}", name, norm_err(&e.to_string())), json!({"type": name, "index": 0, "op": "gluon-array"}));
            return;
        }
    };
    let mut r = Rng::new(cx.seed, salt(&name));
    for i in 0..(if cx.n_random > 100 { 120 } else { 24 }) {
        let mut a = <Vec<T>>::gen(&mut r);
        let mut b = <Vec<T>>::gen(&mut r);
        match i % 4 {
            0 => a.clear(),
            1 => b.clear(),
            _ => {}
        }
        if !selected(cx, &name, i) {
            continue;
        }
        let mut want = a.clone();
        want.extend(b.iter().cloned());
        let replay = json!({"type": name, "index": i, "op": "gluon-array"});
        cx.out.count("gluon-array:append");
        cx.out.class(format!("garr|{}|{}|{}", name, a.is_empty(), b.is_empty()));
        match gv::catch(|| f.call(a.clone(), b.clone())) {
            Ok(Ok(y)) => {
                if !y.same(&want) {
                    cx.out.oracle_fail("gluon-array:differs", &format!("{}: array.append of {} and {} is received as {}", name, clip(&a.val()), clip(&b.val()), clip(&y.val())), replay);
                }
            }
            Ok(Err(e)) => cx.out.oracle_fail("gluon-array:error", &format!("{}: {}", name, norm_err(&e.to_string())), replay),
            Err(p) => cx.out.oracle_fail("gluon-array:panic", &format!("{}: {}", name, norm_err(&p)), replay),
        }
    }
}

/// Records whose fields gluon code writes in another order than the Rust struct declares them:
/// either the typechecker refuses the expression or the struct is read correctly (by name).
fn run_record_orders(cx: &mut Cx) {
    if cx.only.is_some() {
        return;
    }
    let vm = cx.vm.clone();
    let want = Point { x: 4, y: 2.5 };
    for (k, src) in ["{ x = 4, y = 2.5 }", "{ y = 2.5, x = 4 }", "let r = { y = 2.5, x = 4 }\nr", "let f x y = { y, x }\nf 4 2.5", "let r = { y = 2.5, x = 4, z = 1 }\n{ x = r.x, y = r.y }"].iter().enumerate() {
        let res = gv::catch(|| vm.run_expr::<Point>("c11_rec_order", src));
        let outcome = match &res {
            Ok(Ok((p, _))) => {
                if p.same(&want) {
                    "ok"
                } else {
                    "wrong-value"
                }
            }
            Ok(Err(_)) => "refused",
            Err(_) => "panic",
        };
        cx.out.count(&format!("record-order:{}", outcome));
        cx.out.class(format!("recorder|{}|{}", k, outcome));
        if outcome == "wrong-value" || outcome == "panic" || (k == 0 && outcome != "ok") {
            cx.out.oracle_fail(&format!("record-order:{}", outcome), &format!("run_expr::<Point>({:?}): {}", src, outcome), json!({"op": "record-order", "src": src}));
        }
    }
    let src = "{ opt = Some 7b, pos = { y = 0.5, x = 1 }, alpha = [\"a\"], zeta = \"z\" }";
    let want = Rec { zeta: "z".into(), alpha: vec!["a".into()], pos: Point { x: 1, y: 0.5 }, opt: Some(7) };
    let res = gv::catch(|| vm.run_expr::<Rec>("c11_rec_order2", src));
    let outcome = match &res {
        Ok(Ok((p, _))) => if p.same(&want) { "ok" } else { "wrong-value" },
        Ok(Err(_)) => "refused",
        Err(_) => "panic",
    };
    cx.out.count(&format!("record-order:{}", outcome));
    if outcome == "wrong-value" || outcome == "panic" {
        cx.out.oracle_fail(&format!("record-order:{}", outcome), &format!("run_expr::<Rec>({:?}): {}", src, outcome), json!({"op": "record-order", "src": src}));
    }
}


/// Wave 2: a host type bound with `vm_type` to a gluon-declared type whose field order differs from the
/// Rust declaration, through the real derive macros, in both directions.
fn run_order<T>(cx: &mut Cx)
where
    T: OrdCase,
    T::Type: Sized,
{
    if cx.only.is_some() {
        return;
    }
    let vm = cx.vm.clone();
    let name = T::NAME;
    let shape = T::SHAPE;
    let imports = "let { N3_g210, E_g210 } = import! c11o\n";
    let pre = format!("{}{}let {{ {} }} = import! c11o\n", HEADER, imports, name);
    // values: distinct per field, extremes first, then seeded random ones
    let mut r = Rng::new(cx.seed, salt(name));
    let mut vals: Vec<T> = vec![];
    let strs = |k: usize| -> Vec<String> { (0..7).map(|i| format!("s{}{}", k, (b'a' + i as u8) as char)).collect() };
    let fixed: [&[i64]; 3] = [&[i64::MIN, i64::MAX, 0, -1, 1, 42, -42], &[i64::MAX, i64::MIN, 7, 1 << 32, -(1 << 32), 3, 2], &[1, 2, 3, 4, 5, 6, 7]];
    for (k, ints) in fixed.iter().enumerate() {
        vals.extend(T::make(&mut Src { ints: ints.to_vec(), strs: strs(k), i: 0, s: 0 }));
    }
    for k in 0..(if cx.n_random > 100 { 12 } else { 3 }) {
        let ints: Vec<i64> = (0..7).map(|_| r.next() as i64).collect();
        vals.extend(T::make(&mut Src { ints, strs: strs(3 + k), i: 0, s: 0 }));
    }
    let replay = |dir: &str, x: &T| json!({"op": "order", "type": name, "direction": dir, "val": x.val(), "gluon_fields": T::gluon_fields()});
    let perm = if T::PERMUTED { "permuted" } else { "same-order" };
    // derive(VmType): the generated type IS the gluon-declared one
    match gv::catch(|| <T as api::VmType>::make_type(&vm).to_string()) {
        Ok(t) if t == format!("c11o.{}", name) => cx.out.count("order:vmtype:ok"),
        Ok(t) => cx.out.oracle_fail(&format!("derive-vmtype:wrong-type:{}", shape), &format!("{}: make_type gives {} instead of the bound gluon type c11o.{}", name, clip(&t), name), replay("vmtype", &vals[0])),
        Err(p) => cx.out.oracle_fail(&format!("derive-vmtype:panic:{}", shape), &format!("{}: make_type panicked: {}", name, norm_err(&p)), replay("vmtype", &vals[0])),
    }
    // gluon functions of the bound type
    let mut observers: Vec<OwnedFunction<fn(T) -> String>> = vec![];
    for (k, o) in T::obs_src().iter().take(1).enumerate() {
        let src = format!("{}let f : {} -> String = {}\nf\n", pre, name, o);
        match vm.run_expr::<OwnedFunction<fn(T) -> String>>(&format!("c11_ord_obs{}_{}", k, name), &src) {
            Ok((f, _)) => observers.push(f),
            Err(e) => cx.out.oracle_fail(&format!("setup:order-observer:{}", shape), &format!("{}: {}", name, norm_err(&e.to_string())), replay("observer-setup", &vals[0])),
        }
    }
    let mut fns: Vec<(&str, OwnedFunction<fn(T) -> T>)> = vec![];
    for (how, body) in [("identity", "(\\x -> x)".to_string()), ("rebuild", T::rebuild_src())] {
        let src = format!("{}let f : {} -> {} = {}\nf\n", pre, name, name, body);
        match vm.run_expr::<OwnedFunction<fn(T) -> T>>(&format!("c11_ord_{}_{}", how, name), &src) {
            Ok((f, _)) => fns.push((how, f)),
            Err(e) => cx.out.oracle_fail(&format!("setup:order-{}:{}", how, shape), &format!("{}: {}", name, norm_err(&e.to_string())), replay("fn-setup", &vals[0])),
        }
    }
    for x in &vals {
        let val = x.val();
        cx.out.count(&format!("order:{}:{}", shape, perm));
        cx.out.class(format!("order|{}|{}|{}", shape, T::gluon_fields(), skeleton(&val)));
        // --- Rust -> gluon value -> Rust (Pushable, then Getable), model op `rt`
        let pushed = gv::catch(|| -> gluon::vm::Result<(gvw::Gv, Result<T, String>)> {
            let mut ctx = vm.current_context();
            x.clone().vm_push(&mut ctx)?;
            let v = ctx.pop();
            let g = walk(&vm, (*v).clone());
            let back = gv::catch(|| T::from_value(&vm, (*v).clone()));
            Ok((g, back))
        });
        match pushed {
            Ok(Ok((g, back))) => {
                let b = match back {
                    Ok(y) => {
                        if y != *x {
                            cx.out.oracle_fail(&format!("derive-roundtrip:fields-swapped:{}", shape), &format!("{}: pushed {} came back as {}", name, clip(&val), clip(&y.val())), replay("direct", x));
                        }
                        y.val()
                    }
                    Err(p) => {
                        cx.out.oracle_fail(&format!("derive-roundtrip:panic:{}", shape), &format!("{}: from_value of the pushed value panicked: {}", name, norm_err(&p)), replay("direct", x));
                        "panic".into()
                    }
                };
                cx.out.case(&format!("rt {} {}", T::tcode(), val), &format!("({} {})", g.sexp(), b));
            }
            Ok(Err(e)) => cx.out.oracle_fail(&format!("derive-pushable:error:{}", shape), &format!("{}: {}", name, norm_err(&e.to_string())), replay("push", x)),
            Err(p) => cx.out.oracle_fail(&format!("derive-pushable:panic:{}", shape), &format!("{}: {}", name, norm_err(&p)), replay("push", x)),
        }
        // --- Rust -> gluon: gluon code of the DECLARED type observes the corresponding value.
        // NOT run when the field types differ by position: the pushed record keeps the Rust order, typed
        // gluon code reads by the offset of ITS declaration (GetOffset) and would take an Int for a String
        // (process abort on the unchanged tree: finding derive-pushable:fields-swapped, see notes/C11.md)
        if !T::TYPE_COMPAT {
            cx.out.count("order:skipped:observe-type-confusion");
        }
        for f in observers.iter_mut().filter(|_| T::TYPE_COMPAT) {
            match gv::catch(|| f.call(x.clone())) {
                Ok(Ok(seen)) => {
                    if seen != x.obs() {
                        cx.out.oracle_fail(&format!("derive-pushable:fields-swapped:{}", shape), &format!("{} (gluon fields {}): gluon code sees {} for {}", name, T::gluon_fields(), clip(&seen), clip(&x.obs())), replay("observe", x));
                    } else {
                        cx.out.count("order:observe:ok");
                    }
                }
                Ok(Err(e)) => cx.out.oracle_fail(&format!("derive-pushable:observer-error:{}", shape), &format!("{} (gluon fields {}): {}", name, T::gluon_fields(), norm_err(&e.to_string())), replay("observe", x)),
                Err(p) => cx.out.oracle_fail(&format!("derive-pushable:observer-panic:{}", shape), &format!("{}: {}", name, norm_err(&p)), replay("observe", x)),
            }
        }
        // --- round trip through gluon functions (identity; rebuild in the gluon declaration order)
        for (how, f) in fns.iter_mut().filter(|(h, _)| T::TYPE_COMPAT || *h == "identity") {
            match gv::catch(|| f.call(x.clone())) {
                Ok(Ok(y)) => {
                    if y != *x {
                        cx.out.oracle_fail(&format!("derive-roundtrip:fields-swapped:{}:{}", how, shape), &format!("{} (gluon fields {}): {} came back as {}", name, T::gluon_fields(), clip(&val), clip(&y.val())), replay(how, x));
                    } else {
                        cx.out.count(&format!("order:{}:ok", how));
                    }
                }
                Ok(Err(e)) => cx.out.oracle_fail(&format!("derive-roundtrip:error:{}:{}", how, shape), &format!("{}: {}", name, norm_err(&e.to_string())), replay(how, x)),
                Err(p) => cx.out.oracle_fail(&format!("derive-roundtrip:panic:{}:{}", how, shape), &format!("{} (gluon fields {}): {}", name, T::gluon_fields(), norm_err(&p)), replay(how, x)),
            }
        }
        // --- gluon -> Rust (Getable): a value written by gluon code in the gluon declaration order
        let src = format!("{}let v : {} = {}\nv\n", pre, name, x.lit());
        let got = gv::catch(|| -> Result<(gvw::Gv, Result<T, String>), String> {
            let (v, _) = vm.run_expr::<OpaqueValue<RootedThread, Hole>>(&format!("c11_ord_lit_{}", name), &src).map_err(|e| e.to_string())?;
            let g = walk(&vm, v.get_variant());
            let back = gv::catch(|| T::from_value(&vm, v.get_variant()));
            Ok((g, back))
        });
        match got {
            Ok(Ok((g, back))) => {
                let b = match back {
                    Ok(y) => {
                        if y != *x {
                            cx.out.oracle_fail(&format!("derive-getable:fields-swapped:{}", shape), &format!("{}: gluon value {} (fields {}) is read as {}", name, clip(&x.lit()), T::gluon_fields(), clip(&y.val())), replay("get", x));
                        } else {
                            cx.out.count("order:get:ok");
                        }
                        y.val()
                    }
                    Err(p) => {
                        cx.out.oracle_fail(&format!("derive-getable:panic:{}", shape), &format!("{}: reading the gluon value {} (fields {}) panicked: {}", name, clip(&x.lit()), T::gluon_fields(), norm_err(&p)), replay("get", x));
                        "panic".into()
                    }
                };
                cx.out.case(&format!("getg {} {}", T::tcode(), g.sexp()), &b);
            }
            Ok(Err(e)) => cx.out.oracle_fail(&format!("derive-getable:literal-refused:{}", shape), &format!("{}: {}", name, norm_err(&e)), replay("get", x)),
            Err(p) => cx.out.oracle_fail(&format!("derive-getable:panic:{}", shape), &format!("{}: {}", name, norm_err(&p)), replay("get", x)),
        }
        // the same through run_expr::<T>
        match gv::catch(|| vm.run_expr::<T>(&format!("c11_ord_lit2_{}", name), &src)) {
            Ok(Ok((y, _))) => {
                if y != *x {
                    cx.out.oracle_fail(&format!("derive-getable:fields-swapped:{}", shape), &format!("{}: run_expr::<{}> of {} (fields {}) gives {}", name, name, clip(&x.lit()), T::gluon_fields(), clip(&y.val())), replay("get", x));
                }
            }
            Ok(Err(e)) => cx.out.oracle_fail(&format!("derive-getable:refused:{}", shape), &format!("{}: {}", name, norm_err(&e.to_string())), replay("get", x)),
            Err(p) => cx.out.oracle_fail(&format!("derive-getable:panic:{}", shape), &format!("{}: run_expr::<{}> panicked: {}", name, name, norm_err(&p)), replay("get", x)),
        }
        flush(cx);
    }
}

fn run_orders(cx: &mut Cx) {
    if cx.only.is_some() {
        return;
    }
    if let Err(e) = cx.vm.load_script("c11o", ORDER_TYPES_SRC) {
        cx.out.oracle_fail("setup:order-types:module", &norm_err(&e.to_string()), json!({"op": "order"}));
        return;
    }
    macro_rules! ord { ($($t:ty),* $(,)?) => {$( run_order::<$t>(cx); )*}; }
    order_types!(ord);
}

/// Everything whose shape only gluon code produces, in-process.
fn gluon_built_section(cx: &mut Cx) {
    // values whose shape only gluon code produces
    if let Err(e) = cx.vm.load_script("c11m", MAP_MOD) {
        if std::env::var("C11_DEBUG").is_ok() { eprintln!("{}", e); }
        cx.out.oracle_fail("setup:gluon-map:module", &norm_err(&e.to_string()), json!({"op": "gluon-map"}));
    } else {
        run_gluon_maps::<i32>(cx);
        run_gluon_maps::<Vec<u8>>(cx);
        run_gluon_maps::<Option<String>>(cx);
        run_gluon_maps::<(f32, Option<String>)>(cx);
        run_gluon_maps::<Point>(cx);
        run_gluon_maps::<Shape>(cx);
        run_gluon_maps::<BTreeMap<String, i32>>(cx);
        run_json_maps(cx);
    }
    run_gluon_arrays::<u8>(cx);
    run_gluon_arrays::<i64>(cx);
    run_gluon_arrays::<f64>(cx);
    run_gluon_arrays::<String>(cx);
    run_gluon_arrays::<Option<i16>>(cx);
    run_gluon_arrays::<Vec<u8>>(cx);
    run_gluon_arrays::<()>(cx);
    run_gluon_arrays::<(i32, String)>(cx);
    run_record_orders(cx);
    run_orders(cx);
}

/// The same in a child process with a time limit: a reader that walks a subtree twice is exponential
/// on the spines (a hang, not a wrong answer); what the child wrote until then is merged.
fn run_gluon_built(cx: &mut Cx, args: &Args) {
    if let Some((n, _)) = &cx.only {
        if n.starts_with("gluon-") {
            gluon_built_section(cx);
        }
        return;
    }
    let sub = args.out.join("gluon-built");
    let _ = std::fs::create_dir_all(&sub);
    let limit = if cx.n_random > 100 { 1800 } else { 300 };
    let seed = cx.seed.to_string();
    let e = gv::child::run(
        &["--child", "gluon-built", "--seed", &seed, "--tier", &args.tier, "--out", sub.to_str().unwrap()],
        b"",
        std::time::Duration::from_secs(limit),
    );
    let read = |n: &str| std::fs::read_to_string(sub.join(n)).unwrap_or_default();
    let (cases, imp) = (read("cases.txt"), read("impl.txt"));
    let strip = |l: &str| -> Option<String> {
        let l = l.strip_prefix('(')?.strip_suffix(')')?;
        Some(l.splitn(2, ' ').nth(1)?.to_string())
    };
    let mut last = String::new();
    for (c, i) in cases.lines().zip(imp.lines()) {
        if let (Some(c), Some(i)) = (strip(c), strip(i)) {
            last = clip(&c);
            cx.out.case(&c, &i);
        }
    }
    for l in read("oracle.jsonl").lines() {
        if let Ok(o) = serde_json::from_str::<serde_json::Value>(l) {
            cx.out.oracle_fail(o["fingerprint"].as_str().unwrap_or("?"), o["what"].as_str().unwrap_or("?"), o["replay"].clone());
        }
    }
    if let Ok(st) = serde_json::from_str::<serde_json::Value>(&read("stats.json")) {
        if let Some(d) = st["distribution"].as_object() {
            for (k, v) in d {
                cx.out.add(k, v.as_u64().unwrap_or(0));
            }
        }
        for k in 0..st["distinct_nontrivial"].as_u64().unwrap_or(0) {
            cx.out.class(format!("gluon-built#{}", k));
        }
    }
    match &e {
        gv::child::Exit::Ok(_) => {}
        gv::child::Exit::Timeout(_) => cx.out.oracle_fail(
            "gluon-built:hang",
            &format!("reading values built by gluon code did not finish within {} s; last completed case: {}", limit, last),
            json!({"op": "gluon-built"}),
        ),
        other => cx.out.oracle_fail(
            "gluon-built:crash",
            &format!("the process reading values built by gluon code died ({}); last completed case: {}", other.class(), last),
            json!({"op": "gluon-built"}),
        ),
    }
}

/// The types that also go through the serde bridge (everything except `Ordering`, which has no
/// serde impls).
macro_rules! serde_types {
    ($m:ident) => {
        // primitives
        $m!((), u8, i16, i32, i64, u16, u32, u64, usize, isize, f32, f64, bool, char, String);
        // containers, nesting depth <= 3
        $m!(
            Option<i32>, Option<String>, Option<Option<u8>>, Option<Vec<f64>>, Option<()>,
            Result<i64, String>, Result<Option<bool>, Vec<u8>>, Result<(), ()>,
            Vec<u8>, Vec<i64>, Vec<u32>, Vec<u64>, Vec<f64>, Vec<f32>, Vec<String>, Vec<bool>, Vec<char>, Vec<()>,
            Vec<Vec<u8>>, Vec<Vec<i32>>, Vec<Option<i16>>, Vec<(i32, String)>, Vec<Result<u8, f64>>,
            (i32, String), (u8, f64, bool), (Option<i32>, Vec<String>, (u64, char)), ((), ()), (i16, u16, isize, usize),
            BTreeMap<String, i32>, BTreeMap<String, Vec<u8>>, Option<BTreeMap<String, String>>, Vec<BTreeMap<String, i32>>,
            BTreeMap<String, (f32, Option<String>)>,
        );
        // derived structs and enums
        $m!(
            Point, Rec, Wrap, Pair, Unit, Color, Shape,
            Vec<Shape>, Vec<Color>, Vec<Unit>, Vec<Point>, Option<Rec>, Result<Shape, Color>, BTreeMap<String, Shape>,
            (Color, Wrap), Vec<Option<Pair>>, Option<Vec<Wrap>>,
        );
    };
}

fn child_de() {
    use std::io::Read;
    let mut inp = String::new();
    std::io::stdin().read_to_string(&mut inp).unwrap();
    let cfg: serde_json::Value = serde_json::from_str(&inp).unwrap();
    let vm = gv::vm::new_vm();
    gv::quiet_panics();
    if let Err(e) = vm.load_script("c11t", TYPES_SRC) {
        eprintln!("c11t: {}", e);
        std::process::exit(3);
    }
    if let Err(e) = vm.run_expr::<OpaqueValue<&Thread, Hole>>("c11_pre", "let _ = import! std.map\nlet _ = import! std.types\n()") {
        eprintln!("preload: {}", e);
        std::process::exit(3);
    }
    let mut t_idx = 0usize;
    if let Some(kind) = cfg.get("one").and_then(|k| k.as_str()) {
        // single attempt (replay)
        let (st, sv) = (cfg["start_t"].as_u64().unwrap() as usize, cfg["start_v"].as_u64().unwrap() as usize);
        macro_rules! one { ($($t:ty),* $(,)?) => {$(
            if t_idx == st {
                let name = type_name::<$t>();
                let mut r = Rng::new(cfg["seed"].as_u64().unwrap(), salt(&name));
                let mut vals = <$t as Marsh>::boundaries();
                for _ in 0..cfg["n"].as_u64().unwrap() { vals.push(<$t as Marsh>::gen(&mut r)); }
                println!("R {} {} {} {}", st, sv, kind, de_attempt::<$t>(&vm, &vals[sv], kind));
            }
            t_idx += 1;
        )*}; }
        serde_types!(one);
        let _ = t_idx;
        return;
    }
    macro_rules! go { ($($t:ty),* $(,)?) => {$( child_de_type::<$t>(&vm, t_idx, &cfg); t_idx += 1; )*}; }
    serde_types!(go);
    let _ = t_idx;
}

/// Child process: keep a NaN float in a `RootedValue` (what `Pushable::marshal`, `run_expr::<T>` and
/// `OpaqueValue` do) and drop it.
fn child(mode: &str) {
    if mode == "de" {
        return child_de();
    }
    if mode == "gluon-built" {
        let args = Args::parse();
        let vm = gv::vm::new_vm();
        gv::quiet_panics();
        if let Err(e) = vm.load_script("c11t", TYPES_SRC) {
            eprintln!("c11t: {}", e);
            std::process::exit(3);
        }
        if let Err(e) = vm.run_expr::<OpaqueValue<&Thread, Hole>>("c11_pre", "let _ = import! std.map\nlet _ = import! std.types\n()") {
            eprintln!("preload: {}", e);
            std::process::exit(3);
        }
        let n = if args.thorough() { 400 } else { 40 };
        let mut cx = Cx { vm, out: Out::new(&args.out), seed: args.seed, n_random: n, only: None, verbose: false, flush_each: true };
        gluon_built_section(&mut cx);
        cx.out.finish();
        return;
    }
    if mode == "gluon-src" {
        use std::io::Read;
        let mut src = String::new();
        std::io::stdin().read_to_string(&mut src).unwrap();
        let vm = gv::vm::new_vm();
        match vm.load_script("probe", &src) {
            Ok(()) => println!("ok"),
            Err(e) => println!("{}", e),
        }
        return;
    }
    let vm = gv::vm::new_vm();
    match mode {
        "nan-marshal" => {
            let r = f64::NAN.marshal::<&Thread>(&vm).unwrap();
            let ok = match r.get_variant().as_ref() {
                api::ValueRef::Float(f) => f.is_nan(),
                _ => false,
            };
            drop(r);
            println!("{}", if ok { "ok" } else { "not-nan" });
        }
        "one-marshal" => {
            let r = 1.5f64.marshal::<&Thread>(&vm).unwrap();
            drop(r);
            println!("ok");
        }
        "nan-run-expr" => {
            let (x, _) = vm.run_expr::<f64>("c11_nan", "0.0 #Float/ 0.0").unwrap();
            println!("{}", if x.is_nan() { "ok" } else { "not-nan" });
        }
        "nan-f32-run-expr" => {
            let (x, _) = vm.run_expr::<f32>("c11_nan", "0.0 #Float/ 0.0").unwrap();
            println!("{}", if x.is_nan() { "ok" } else { "not-nan" });
        }
        _ => println!("unknown-mode"),
    }
}

fn run_children(cx: &mut Cx) {
    if cx.only.as_ref().map_or(false, |o| o.0 != "<child>") {
        return;
    }
    for mode in ["one-marshal", "nan-marshal", "nan-run-expr", "nan-f32-run-expr"] {
        let e = gv::child::run(&["--child", mode], b"", std::time::Duration::from_secs(120));
        let ok = matches!(&e, gv::child::Exit::Ok(s) if s.trim() == "ok");
        cx.out.count(&format!("child:{}:{}", mode, e.class()));
        cx.out.class(format!("child|{}|{}", mode, e.class()));
        if !ok {
            let detail = match &e {
                gv::child::Exit::Code(_, _, err) | gv::child::Exit::Signal(_, _, err) => norm_err(
                    err.lines().find(|l| l.contains("Rooted value") || l.contains("panicked")).unwrap_or(""),
                ),
                gv::child::Exit::Ok(s) => s.trim().to_string(),
                gv::child::Exit::Timeout(_) => "timeout".into(),
            };
            cx.out.oracle_fail(
                "rooted-value:nan-float",
                &format!("a NaN float handed over through a RootedValue ({}) does not come back: {} {}", mode, e.class(), detail),
                json!({"op": "child", "mode": mode}),
            );
        }
    }
}

fn main() {
    let args = Args::parse();
    if let Some(i) = args.extra.iter().position(|a| a == "--child") {
        child(args.extra.get(i + 1).map(|s| s.as_str()).unwrap_or(""));
        return;
    }

    let mut seed = args.seed;
    let mut only = None;
    if let Some(p) = &args.replay {
        let v: serde_json::Value = serde_json::from_str(&std::fs::read_to_string(p).unwrap()).unwrap();
        if let Some(s) = v.get("seed").and_then(|s| s.as_u64()) {
            seed = s;
        }
        let case = v.get("case").cloned().unwrap_or(v.clone());
        if case.get("op").and_then(|o| o.as_str()) == Some("child") {
            only = Some(("<child>".to_string(), 0));
            println!("replaying the RootedValue/NaN child processes");
        } else if let (Some(t), Some(i)) = (case.get("type").and_then(|t| t.as_str()), case.get("index").and_then(|i| i.as_u64())) {
            only = Some((t.to_string(), i as usize));
            println!("replaying {} value #{} (op {})", t, i, case.get("op").and_then(|o| o.as_str()).unwrap_or("?"));
        }
    }
    let tier_n = if args.thorough() || only.is_some() { 400 } else { 40 };
    let vm = match gv::catch(|| gv::vm::new_vm()) { Ok(v) => v, Err(e) => { eprintln!("new_vm: {}", e); std::process::exit(3) } };
    vm.load_script("c11t", TYPES_SRC).unwrap_or_else(|e| { eprintln!("c11t: {}", e); std::process::exit(3) });
    vm.run_expr::<OpaqueValue<&Thread, Hole>>("c11_pre", "let _ = import! std.map\nlet _ = import! std.types\n()")
        .unwrap_or_else(|e| { eprintln!("preload: {}", e); std::process::exit(3) });
    if std::env::var("C11_DEBUG").is_ok() {
        std::panic::set_hook(Box::new(|i| eprintln!("PANIC {}", i)));
    } else {
        gv::quiet_panics();
    }
    let verbose = only.is_some();
    let mut cx = Cx { vm, out: Out::new(&args.out), seed, n_random: tier_n, only, verbose, flush_each: false };

    let de_res = if cx.only.is_none() { collect_de(seed, tier_n) } else { DeResults::new() };
    let mut t_idx = 0usize;
    macro_rules! both { ($($t:ty),* $(,)?) => {$( run_type::<$t>(&mut cx); run_serde::<$t>(&mut cx, t_idx, &de_res); t_idx += 1; )*}; }
    macro_rules! plain { ($($t:ty),* $(,)?) => {$( run_type::<$t>(&mut cx); )*}; }
    serde_types!(both);
    plain!(Ordering, Vec<Ordering>, (Ordering, bool), Option<Ordering>);
    let _ = t_idx;
    // cross-type reads (the `as` casts)
    macro_rules! conv { ($($a:ty => $b:ty),* $(,)?) => {$( run_conv::<$a, $b>(&mut cx); )*}; }
    conv!(i64 => i16, i64 => i32, i64 => u16, i64 => u32, i64 => u64, i64 => usize, i64 => isize, i64 => char,
          u64 => i64, u64 => i32, u32 => i16, usize => u16, isize => u32, i32 => char, u32 => char,
          f64 => f32, f32 => f64, char => u32, char => i16, i16 => u64, i32 => u64);
    run_gluon_built(&mut cx, &args);
    run_globals(&mut cx);
    run_children(&mut cx);
    cx.out.stats.insert("types".into(), serde_json::Value::from(68u64));
    cx.out.finish();
}
