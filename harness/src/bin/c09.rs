//! C09 — the front end is total.
//!
//! Three parts, all driven by `--seed`:
//!  1. **Layout correspondence.**  The REAL `/repo/parser/src/layout.rs` is compiled into this
//!     binary with `#[path]` (the module is private in gluon_parser; `crate::base`, `crate::token`,
//!     `crate::Error`, `debug!`, `quick_error!` are supplied by small shims below, so no hook in
//!     /repo is needed and any edit of layout.rs is picked up by the next `cargo build`).  Token
//!     streams (kind + line/column/absolute) are fed to `Layout` exactly like the `Tokenizer`
//!     feeds it (EOF for ever after the last token) and to the Lean model `LayoutAlgo.layout`.
//!  2. **Front-end oracle** (model independent): random bytes / UTF-8, token soups with random
//!     indentation and grammar-aware mutations of real programs, ≤ 4 KiB, through
//!     `parse_partial_expr` and `typecheck_str` in child processes with a per-input watchdog;
//!     every error is rendered (`emit_string` + `Display`) and every span is checked to lie in
//!     its file on char boundaries.
//!  3. **Nesting probes** 10…2000 in child processes running on an ordinary 8 MB main stack.
#![allow(dead_code, unused_macros, unused_imports, unused_variables)]

extern crate gluon_base as base;

macro_rules! debug {
    ($($t:tt)*) => {{}};
}
// Shim for the single use of `quick_error!` in layout.rs (unit variants with a display string).
macro_rules! quick_error {
    ( $(#[$m:meta])* pub enum $name:ident { $( $v:ident { display($s:expr) } )* } ) => {
        $(#[$m])*
        pub enum $name { $( $v ),* }
        impl std::fmt::Display for $name {
            fn fmt(&self, f: &mut std::fmt::Formatter) -> std::fmt::Result {
                match self { $( $name::$v => write!(f, $s) ),* }
            }
        }
    };
}

/// What layout.rs imports from `crate::token` (parser/src/token.rs:234-238).
pub mod token {
    use crate::base::pos::{Location, Spanned};
    pub use gluon_parser::Token;
    pub use gluon_parser::TokenizeError as Error;
    pub type BorrowedToken<'input> = Token<&'input str>;
    pub type SpannedToken<'input> = Spanned<Token<&'input str>, Location>;
    pub type SpError = Spanned<Error, Location>;
    pub type Result<T, E = SpError> = std::result::Result<T, E>;
}

/// What layout.rs needs from `crate::Error` (parser/src/lib.rs:145): `From` both error types.
#[derive(Debug)]
pub enum Error {
    Token(token::Error),
    Layout(layout::Error),
}
impl From<token::Error> for Error {
    fn from(e: token::Error) -> Error {
        Error::Token(e)
    }
}
impl From<layout::Error> for Error {
    fn from(e: layout::Error) -> Error {
        Error::Layout(e)
    }
}

#[path = "/repo/parser/src/layout.rs"]
mod layout;

// Part 1b (tokenizer correspondence): the real str_suffix.rs here, the real token.rs inside
// `toklex::real` (they refer to `crate::str_suffix`, `crate::ParserSource`, `crate::base`).
pub use gluon_parser::ParserSource;
#[path = "/repo/parser/src/str_suffix.rs"]
mod str_suffix;
#[path = "c09/toklex.rs"]
mod toklex;

use base::metadata::{Comment, CommentType};
use base::pos::{self, BytePos, Column, Line, Location, Span, Spanned};
use gluon::ThreadExt;
use gv::rng::Rng;
use gv::{quote, Args, Out};
use std::collections::{BTreeMap, BTreeSet};
use std::io::{BufRead, BufReader, Read, Write};
use std::process::{Command, Stdio};
use std::sync::mpsc;
use std::time::{Duration, Instant};
use token::Token;

// ------------------------------------------------------------------------------------------
// Token kinds (names = constructors of `GluonModel.LayoutAlgo.Kind`)
// ------------------------------------------------------------------------------------------

#[derive(Clone, Copy, Debug, PartialEq, Eq, PartialOrd, Ord)]
enum K {
    Shebang,
    Doc,
    AttrOpen,
    Rec,
    Else,
    If,
    In,
    Let,
    Do,
    Seq,
    Match,
    Then,
    Type,
    With,
    Comma,
    Equals,
    Lambda,
    Pipe,
    RArrow,
    LBrace,
    LBracket,
    LParen,
    RBrace,
    RBracket,
    RParen,
    OpenBlock,
    CloseBlock,
    Semi,
    Eof,
    Other,
    LexErr,
}

impl K {
    fn name(self) -> &'static str {
        match self {
            K::Shebang => "shebang",
            K::Doc => "doc",
            K::AttrOpen => "attrOpen",
            K::Rec => "rec",
            K::Else => "else",
            K::If => "if",
            K::In => "in",
            K::Let => "let",
            K::Do => "do",
            K::Seq => "seq",
            K::Match => "match",
            K::Then => "then",
            K::Type => "type",
            K::With => "with",
            K::Comma => "comma",
            K::Equals => "equals",
            K::Lambda => "lambda",
            K::Pipe => "pipe",
            K::RArrow => "rarrow",
            K::LBrace => "lbrace",
            K::LBracket => "lbracket",
            K::LParen => "lparen",
            K::RBrace => "rbrace",
            K::RBracket => "rbracket",
            K::RParen => "rparen",
            K::OpenBlock => "openBlock",
            K::CloseBlock => "closeBlock",
            K::Semi => "semi",
            K::Eof => "eof",
            K::Other => "other",
            K::LexErr => "lexErr",
        }
    }
    fn token(self) -> Token<&'static str> {
        match self {
            K::Shebang => Token::ShebangLine(""),
            K::Doc => Token::DocComment(Comment {
                typ: CommentType::Line,
                content: "",
            }),
            K::AttrOpen => Token::AttributeOpen,
            K::Rec => Token::Rec,
            K::Else => Token::Else,
            K::If => Token::If,
            K::In => Token::In,
            K::Let => Token::Let,
            K::Do => Token::Do,
            K::Seq => Token::Seq,
            K::Match => Token::Match,
            K::Then => Token::Then,
            K::Type => Token::Type,
            K::With => Token::With,
            K::Comma => Token::Comma,
            K::Equals => Token::Equals,
            K::Lambda => Token::Lambda,
            K::Pipe => Token::Pipe,
            K::RArrow => Token::RArrow,
            K::LBrace => Token::LBrace,
            K::LBracket => Token::LBracket,
            K::LParen => Token::LParen,
            K::RBrace => Token::RBrace,
            K::RBracket => Token::RBracket,
            K::RParen => Token::RParen,
            K::OpenBlock => Token::OpenBlock,
            K::CloseBlock => Token::CloseBlock,
            K::Semi => Token::Semi,
            K::Eof => Token::EOF,
            K::Other | K::LexErr => Token::Identifier("x"),
        }
    }
    fn of(t: &Token<&str>) -> K {
        match t {
            Token::ShebangLine(_) => K::Shebang,
            Token::DocComment(_) => K::Doc,
            Token::AttributeOpen => K::AttrOpen,
            Token::Rec => K::Rec,
            Token::Else => K::Else,
            Token::If => K::If,
            Token::In => K::In,
            Token::Let => K::Let,
            Token::Do => K::Do,
            Token::Seq => K::Seq,
            Token::Match => K::Match,
            Token::Then => K::Then,
            Token::Type => K::Type,
            Token::With => K::With,
            Token::Comma => K::Comma,
            Token::Equals => K::Equals,
            Token::Lambda => K::Lambda,
            Token::Pipe => K::Pipe,
            Token::RArrow => K::RArrow,
            Token::LBrace => K::LBrace,
            Token::LBracket => K::LBracket,
            Token::LParen => K::LParen,
            Token::RBrace => K::RBrace,
            Token::RBracket => K::RBracket,
            Token::RParen => K::RParen,
            Token::OpenBlock => K::OpenBlock,
            Token::CloseBlock => K::CloseBlock,
            Token::Semi => K::Semi,
            Token::EOF => K::Eof,
            _ => K::Other,
        }
    }
}

/// A token as the layout algorithm sees it: kind, start (line, column, absolute), absolute end.
#[derive(Clone, Copy, Debug, PartialEq)]
struct LTok {
    k: K,
    line: u32,
    col: u32,
    s: u32,
    e: u32,
}

impl LTok {
    fn sexp(&self) -> String {
        format!("({} {} {} {} {})", self.k.name(), self.line, self.col, self.s, self.e)
    }
    fn start(&self) -> Location {
        Location {
            line: Line::from(self.line),
            column: Column::from(self.col),
            absolute: BytePos::from(self.s),
        }
    }
    fn end(&self) -> Location {
        Location {
            line: Line::from(self.line),
            column: Column::from(self.col + (self.e - self.s)),
            absolute: BytePos::from(self.e),
        }
    }
}

// ------------------------------------------------------------------------------------------
// Part 1: the real Layout on a token stream
// ------------------------------------------------------------------------------------------

/// How many EOFs the feed hands out before it gives up with the marker error.  The real
/// `Tokenizer` hands out EOF for ever (token.rs:847); `Layout` asks for at most a handful unless
/// `scan_continue_block` is in its endless loop.
const EOF_LIMIT: usize = 64;

struct Feed<'a> {
    toks: &'a [LTok],
    eof: LTok,
    i: usize,
    eofs: usize,
}

impl<'a> Iterator for Feed<'a> {
    type Item = token::Result<token::SpannedToken<'static>>;
    fn next(&mut self) -> Option<Self::Item> {
        if self.i < self.toks.len() {
            let t = self.toks[self.i];
            self.i += 1;
            if t.k == K::LexErr {
                return Some(Err(pos::spanned2(
                    t.start(),
                    t.end(),
                    token::Error::UnterminatedStringLiteral,
                )));
            }
            return Some(Ok(pos::spanned2(t.start(), t.end(), t.k.token())));
        }
        self.eofs += 1;
        if self.eofs > EOF_LIMIT {
            let l = self.eof.start();
            return Some(Err(pos::spanned2(l, l, token::Error::UnexpectedEof)));
        }
        let l = self.eof.start();
        Some(Ok(pos::spanned2(l, l, Token::EOF)))
    }
}

#[derive(Debug, Clone, PartialEq)]
enum LayoutEnd {
    Ok,
    Unindented(u32),
    Lex(u32, u32),
    Hang,
    Panic(String),
    Fuel,
}

/// The bound proved in Lean (`layout_total`: at most 40n+7 calls of layout_next_token for n
/// input tokens); a real Layout that needs more is a violation (`hang:layout:unbounded-output`).
fn layout_fuel(n: usize) -> usize {
    40 * n + 7
}

fn run_real_layout(toks: &[LTok], eof: LTok) -> (Vec<(K, u32, u32)>, LayoutEnd) {
    let fuel = layout_fuel(toks.len());
    let mut outv = vec![];
    let res = gv::catch(|| {
        let feed = Feed {
            toks,
            eof,
            i: 0,
            eofs: 0,
        };
        let mut l = layout::Layout::new(feed);
        let mut v = vec![];
        for _ in 0..fuel {
            match l.next() {
                None => return (v, LayoutEnd::Ok),
                Some(Ok((s, t, e))) => v.push((K::of(&t), s.to_usize() as u32, e.to_usize() as u32)),
                Some(Err(sp)) => {
                    let end = match sp.value {
                        Error::Layout(layout::Error::UnindentedTooFar) => {
                            LayoutEnd::Unindented(sp.span.start().to_usize() as u32)
                        }
                        Error::Token(token::Error::UnexpectedEof) => LayoutEnd::Hang,
                        Error::Token(_) => LayoutEnd::Lex(
                            sp.span.start().to_usize() as u32,
                            sp.span.end().to_usize() as u32,
                        ),
                    };
                    return (v, end);
                }
            }
        }
        (v, LayoutEnd::Fuel)
    });
    match res {
        Ok((v, e)) => {
            outv = v;
            (outv, e)
        }
        Err(p) => (outv, LayoutEnd::Panic(p)),
    }
}

fn layout_case(out: &mut Out, toks: &[LTok], eof: LTok, origin: &str) -> LayoutEnd {
    let mut req = format!("layout {}", layout_fuel(toks.len()));
    for t in toks {
        req.push(' ');
        req.push_str(&t.sexp());
    }
    req.push(' ');
    req.push_str(&eof.sexp());
    let (v, end) = run_real_layout(toks, eof);
    let endtxt = match &end {
        LayoutEnd::Ok => "ok".to_string(),
        LayoutEnd::Unindented(a) => format!("(err unindented {})", a),
        LayoutEnd::Lex(s, e) => format!("(err lex {} {})", s, e),
        LayoutEnd::Hang => "hang".to_string(),
        LayoutEnd::Panic(_) => "panic".to_string(),
        LayoutEnd::Fuel => "fuel".to_string(),
    };
    let mut payload = format!("({}", endtxt);
    for (k, s, e) in &v {
        payload.push_str(&format!(" ({} {} {})", k.name(), s, e));
    }
    payload.push(')');
    // Property oracle at this level (independent of the model): returns, no panic, and every
    // emitted token / error carries the span of some input token.
    let replay = serde_json::json!({"kind": "layout", "request": req});
    match &end {
        LayoutEnd::Hang => out.oracle_fail(
            "hang:layout:scan_continue_block",
            "Layout::scan_continue_block did not return within 64 EOFs of look-ahead (regression of commit 3521415: inside `rec`, an attribute not closed before the end of input made the `for i in 0..` loop peek EOF for ever)",
            replay.clone(),
        ),
        LayoutEnd::Panic(p) => out.oracle_fail(
            &format!("panic:layout:{}", short(p)),
            &format!("Layout panicked: {}", p),
            replay.clone(),
        ),
        LayoutEnd::Fuel => out.oracle_fail(
            "hang:layout:unbounded-output",
            "Layout produced more than 40n+7 tokens for n input tokens (the bound proved for the model)",
            replay.clone(),
        ),
        _ => {}
    }
    let spans: BTreeSet<(u32, u32)> = toks.iter().chain(Some(&eof)).map(|t| (t.s, t.e)).collect();
    if v.iter().any(|(_, s, e)| !spans.contains(&(*s, *e))) {
        out.oracle_fail(
            "span:layout:token",
            "Layout emitted a token whose span is not the span of an input token",
            replay.clone(),
        );
    }
    if let LayoutEnd::Unindented(a) = end {
        if !toks.iter().chain(Some(&eof)).any(|t| t.s == a) {
            out.oracle_fail(
                "span:layout:unindented",
                "UnindentedTooFar reported at a position that is not the start of a token",
                replay.clone(),
            );
        }
    }
    out.count(&format!("layout:end:{}", endtxt.split(' ').next().unwrap().trim_matches('(')));
    out.count(&format!("layout:origin:{}", origin));
    // statistics for `layout_blocks_covered` (not an oracle: the property does not speak of blocks)
    {
        let (mut o, mut c, mut early) = (0i64, 0i64, false);
        for (k, _, _) in &v {
            match k {
                K::OpenBlock => o += 1,
                K::CloseBlock => c += 1,
                _ => {}
            }
            if c > o {
                early = true;
            }
        }
        if early {
            out.count("layout:blocks:close-emitted-before-its-queued-open");
        }
        if matches!(end, LayoutEnd::Ok) {
            out.count(if c <= o { "layout:blocks:final-closes<=opens" } else { "layout:blocks:final-closes>opens" });
        }
        if v.len() > 5 * toks.len().max(1) + 2 {
            out.count("layout:output>5n+2");
        }
    }
    let inserted: BTreeSet<&str> = v
        .iter()
        .zip(0..)
        .filter(|((k, _, _), _)| matches!(k, K::OpenBlock | K::CloseBlock | K::Semi | K::In))
        .map(|((k, _, _), _)| k.name())
        .collect();
    let kinds: BTreeSet<K> = toks.iter().map(|t| t.k).collect();
    if kinds.len() >= 2 && toks.len() >= 3 {
        let shape: Vec<&str> = toks.iter().take(24).map(|t| t.k.name()).collect();
        let cols: Vec<u32> = toks.iter().take(24).map(|t| t.col.min(9)).collect();
        out.class(format!("L:{:x}:{}", fnv(&format!("{:?}{:?}", shape, cols)), endtxt));
    }
    for k in &inserted {
        out.count(&format!("layout:inserted:{}", k));
    }
    if out.n_cases % 997 == 3 {
        out.sample(serde_json::json!({"request": req.chars().take(400).collect::<String>(), "impl": payload.chars().take(400).collect::<String>()}));
    }
    out.case(&req, &payload);
    end
}

fn fnv(s: &str) -> u64 {
    let mut h = 0xcbf29ce484222325u64;
    for b in s.bytes() {
        h ^= b as u64;
        h = h.wrapping_mul(0x100000001b3);
    }
    h
}

fn short(p: &str) -> String {
    let s: String = p
        .chars()
        .filter(|c| c.is_ascii_alphanumeric() || *c == ' ' || *c == '_')
        .take(48)
        .collect();
    s.trim().replace(' ', "_")
}

// ------------------------------------------------------------------------------------------
// A lexer good enough to get kinds + positions of real programs (positions follow
// token.rs `CharLocations`: line 0-based, column 1-based in bytes, absolute = 1 + byte offset).
// It also yields the byte range of every token, which the text mutators use.
// ------------------------------------------------------------------------------------------

fn lex(src: &str) -> Vec<LTok> {
    let b = src.as_bytes();
    let n = b.len();
    // line / column of each byte offset
    let mut line = vec![0u32; n + 1];
    let mut col = vec![1u32; n + 1];
    let (mut l, mut c) = (0u32, 1u32);
    for i in 0..n {
        line[i] = l;
        col[i] = c;
        if b[i] == b'\n' {
            l += 1;
            c = 1;
        } else {
            c += 1;
        }
    }
    line[n] = l;
    col[n] = c;
    let mut v = vec![];
    let mut i = 0;
    let is_id0 = |c: u8| c == b'_' || c.is_ascii_alphabetic();
    let is_id = |c: u8| c == b'_' || c.is_ascii_alphanumeric() || c == b'\'';
    let mut push = |k: K, s: usize, e: usize, v: &mut Vec<LTok>| {
        v.push(LTok {
            k,
            line: line[s],
            col: col[s],
            s: s as u32 + 1,
            e: e as u32 + 1,
        })
    };
    while i < n {
        let c = b[i];
        let s = i;
        match c {
            b',' => {
                i += 1;
                push(K::Comma, s, i, &mut v)
            }
            b'\\' => {
                i += 1;
                push(K::Lambda, s, i, &mut v)
            }
            b'{' => {
                i += 1;
                push(K::LBrace, s, i, &mut v)
            }
            b'[' => {
                i += 1;
                push(K::LBracket, s, i, &mut v)
            }
            b'(' => {
                i += 1;
                push(K::LParen, s, i, &mut v)
            }
            b'}' => {
                i += 1;
                push(K::RBrace, s, i, &mut v)
            }
            b']' => {
                i += 1;
                push(K::RBracket, s, i, &mut v)
            }
            b')' => {
                i += 1;
                push(K::RParen, s, i, &mut v)
            }
            b'?' => {
                i += 1;
                push(K::Other, s, i, &mut v)
            }
            b'"' => {
                i += 1;
                while i < n && b[i] != b'"' {
                    if b[i] == b'\\' {
                        i += 1;
                    }
                    i += 1;
                }
                i = (i + 1).min(n);
                push(K::Other, s, i, &mut v)
            }
            b'r' if i + 1 < n && (b[i + 1] == b'"' || b[i + 1] == b'#') => {
                let mut j = i + 1;
                let mut d = 0;
                while j < n && b[j] == b'#' {
                    d += 1;
                    j += 1;
                }
                if j < n && b[j] == b'"' {
                    j += 1;
                    // find `"` followed by d `#`
                    let mut end = n;
                    let mut k = j;
                    while k < n {
                        if b[k] == b'"' && k + d < n + 0 && b[k + 1..].len() >= d && b[k + 1..k + 1 + d].iter().all(|x| *x == b'#') {
                            end = k + 1 + d;
                            break;
                        }
                        k += 1;
                    }
                    i = end;
                    push(K::Other, s, i, &mut v)
                } else {
                    // `r#x`: the tokenizer reports InvalidRawStringDelimiter as an Err item
                    push(K::LexErr, s, j.min(n), &mut v);
                    i = n;
                }
            }
            b'\'' => {
                i += 1;
                if i < n && b[i] == b'\\' {
                    i += 1;
                }
                i = (i + 1).min(n);
                if i < n && b[i] == b'\'' {
                    i += 1;
                }
                push(K::Other, s, i, &mut v)
            }
            b'/' if i + 1 < n && b[i + 1] == b'/' => {
                while i < n && b[i] != b'\n' {
                    i += 1;
                }
                if src[s..i].starts_with("///") {
                    push(K::Doc, s, i, &mut v)
                }
            }
            b'/' if i + 1 < n && b[i + 1] == b'*' => {
                let mut j = i + 2;
                let mut closed = false;
                while j + 1 < n {
                    if b[j] == b'*' && b[j + 1] == b'/' {
                        closed = true;
                        break;
                    }
                    j += 1;
                }
                if closed {
                    i = j + 2;
                    if src[s..i].starts_with("/**") && i - s > 5 {
                        push(K::Doc, s, i, &mut v)
                    }
                } else {
                    push(K::LexErr, n, n, &mut v);
                    i = n;
                }
            }
            b'#' if i == 0 && i + 1 < n && b[i + 1] == b'!' => {
                while i < n && b[i] != b'\n' {
                    i += 1;
                }
                push(K::Shebang, s, i, &mut v)
            }
            b'#' if i + 1 < n && b[i + 1] == b'[' => {
                i += 2;
                push(K::AttrOpen, s, i, &mut v)
            }
            c if is_id0(c) => {
                while i < n && is_id(b[i]) {
                    i += 1;
                }
                if i < n && b[i] == b'!' {
                    i += 1;
                }
                let k = match &src[s..i] {
                    "rec" => K::Rec,
                    "else" => K::Else,
                    "if" => K::If,
                    "in" => K::In,
                    "let" => K::Let,
                    "do" => K::Do,
                    "seq" => K::Seq,
                    "match" => K::Match,
                    "then" => K::Then,
                    "type" => K::Type,
                    "with" => K::With,
                    _ => K::Other,
                };
                push(k, s, i, &mut v)
            }
            c if c.is_ascii_digit() || (c == b'-' && i + 1 < n && b[i + 1].is_ascii_digit()) => {
                i += 1;
                while i < n && (b[i].is_ascii_alphanumeric() || b[i] == b'.') {
                    i += 1;
                }
                push(K::Other, s, i, &mut v)
            }
            c if base::ast::is_operator_byte(c) => {
                while i < n && base::ast::is_operator_byte(b[i]) {
                    i += 1;
                }
                let k = match &src[s..i] {
                    "=" => K::Equals,
                    "|" => K::Pipe,
                    "->" => K::RArrow,
                    _ => K::Other,
                };
                push(k, s, i, &mut v)
            }
            _ => {
                i += 1;
            }
        }
    }
    v
}

fn eof_for(src: &str) -> LTok {
    let mut l = 0u32;
    let mut c = 1u32;
    for b in src.bytes() {
        if b == b'\n' {
            l += 1;
            c = 1;
        } else {
            c += 1;
        }
    }
    let a = src.len() as u32 + 1;
    LTok {
        k: K::Eof,
        line: l,
        col: c,
        s: a,
        e: a,
    }
}

// ------------------------------------------------------------------------------------------
// Generators
// ------------------------------------------------------------------------------------------

const SOUP_KINDS: &[(K, u32)] = &[
    (K::Other, 30),
    (K::Let, 10),
    (K::Equals, 10),
    (K::In, 5),
    (K::Rec, 4),
    (K::Type, 4),
    (K::If, 3),
    (K::Then, 3),
    (K::Else, 3),
    (K::Match, 3),
    (K::With, 3),
    (K::Pipe, 4),
    (K::RArrow, 5),
    (K::Lambda, 3),
    (K::Do, 2),
    (K::Seq, 1),
    (K::Comma, 4),
    (K::LBrace, 3),
    (K::RBrace, 3),
    (K::LParen, 3),
    (K::RParen, 3),
    (K::LBracket, 2),
    (K::RBracket, 3),
    (K::AttrOpen, 3),
    (K::Doc, 2),
    (K::LexErr, 1),
];

fn pick_kind(rng: &mut Rng, table: &[(K, u32)]) -> K {
    let total: u32 = table.iter().map(|x| x.1).sum();
    let mut r = rng.below(total as u64) as u32;
    for (k, w) in table {
        if r < *w {
            return *k;
        }
        r -= *w;
    }
    K::Other
}

/// Random token soup laid out with random indentation (a few indentation levels re-used, so
/// that Less / Equal / Greater against the enclosing contexts all occur).
fn gen_soup(rng: &mut Rng, max_len: usize) -> (Vec<LTok>, LTok) {
    let n = 1 + rng.below(max_len as u64) as usize;
    let levels: Vec<u32> = (0..4).map(|_| 1 + rng.below(10) as u32).collect();
    let small: Vec<(K, u32)> = {
        // a biased sub-alphabet makes deep states likelier than the uniform soup
        let mut t: Vec<(K, u32)> = SOUP_KINDS.to_vec();
        for e in t.iter_mut() {
            if rng.chance(1, 2) {
                e.1 = if e.0 == K::Other { 10 } else { 0 };
            }
        }
        t
    };
    let table: &[(K, u32)] = if rng.chance(1, 2) { SOUP_KINDS } else { &small };
    let (mut line, mut col, mut abs) = (0u32, *rng.pick(&levels), 1u32);
    if rng.chance(1, 3) {
        col = 1;
    }
    abs += col - 1;
    let mut v = vec![];
    if rng.chance(1, 40) {
        v.push(LTok {
            k: K::Shebang,
            line,
            col: 1,
            s: 1,
            e: 4,
        });
        line += 1;
        abs = 5 + col - 1;
    }
    for _ in 0..n {
        let k = pick_kind(rng, table);
        let w = 1 + rng.below(3) as u32;
        v.push(LTok {
            k,
            line,
            col,
            s: abs,
            e: abs + w,
        });
        if k == K::LexErr {
            break;
        }
        if rng.chance(1, 3) || k == K::Doc {
            line += 1;
            let c = if rng.chance(3, 4) {
                *rng.pick(&levels)
            } else {
                1 + rng.below(14) as u32
            };
            abs += w + 1 + (c - 1);
            col = c;
        } else {
            let sp = rng.below(2) as u32;
            col += w + sp;
            abs += w + sp;
        }
    }
    let eof = if rng.chance(1, 2) {
        LTok {
            k: K::Eof,
            line,
            col,
            s: abs,
            e: abs,
        }
    } else {
        LTok {
            k: K::Eof,
            line: line + 1,
            col: 1,
            s: abs + 1,
            e: abs + 1,
        }
    };
    (v, eof)
}

/// Hand-written programs covering every construct the layout algorithm distinguishes.
const SMALL: &[&str] = &[
    "let x = 1\nx",
    "let x = 1 in x",
    "let f x y =\n    let z = x\n    z\nf 1 2",
    "rec let f x = g x\nlet g x = f x\nf",
    "rec\nlet f x = g x\nlet g x = f x\nin f",
    "rec\n    #[inline]\n    let f x = 1\n    #[inline]\n    let g x = 2\nf",
    "type T = | A Int | B\nlet x = A 1\nmatch x with\n| A y -> y\n| B -> 0",
    "rec type A = { b : B }\ntype B = { a : Option A }\nin 1",
    "if x then\n    1\nelse if y then\n    2\nelse\n    3",
    "if x then 1 else 2",
    "let { a, b } = { a = 1, b = \"s\" }\na",
    "do x = Some 1\nseq f x\nlet y = x\nwrap y",
    "\\x y -> x #Int+ y",
    "let f = \\x ->\n        x\n    1\nf",
    "match x with\n| Some y ->\n    let z = y\n    z\n| None -> 0",
    "{ x = 1, y = { z = [1, 2, 3] }, f = \\a -> a }",
    "#[infix(left, 6)]\nlet (+) = (+)\n1 + 2 * 3",
    "/// doc\nlet x = 1\n/** block doc */\nlet y = 2\n// c\nx /* c */ + y",
    "#!/bin/gluon\nlet x = 1\nx",
    "let x =\n1\nx",
    "let io @ { ? } = import! std.io\nio.println \"a\"",
    "type Option a = | Some a | None\nlet map f x : (a -> b) -> Option a -> Option b =\n    match x with\n    | Some y -> Some (f y)\n    | None -> None\n{ Option, map }",
    "let x = (1, 'c', 2.0, 3b, r#\"raw\"#)\nx",
    "let f x : forall a . a -> a = x\nf",
    "(1 + 2",
    "let x = in",
    "rec let x = 1\n#[a]\nlet y = 2\nx",
    // records with TYPE fields, type declarations, implicit arguments (seeds for the record mutations)
    "type Test = Int\nlet a = { Test, x = 1 }\nlet b = { Test, x = 2 }\n[a, b]",
    "type Test = Int\nlet r = { Test, x = 1, y = \"s\" }\nlet { Test, x } = r\nx",
    "type Elem = String\ntype Key = Int\nlet m = { Key, Elem, get = \\k -> \"v\", size = 0 }\nlet n = { Key, Elem, get = \\k -> \"w\", size = 1 }\nif m.size #Int== 0 then m else n",
    "type Show a = { show : a -> String }\nlet show ?s : [Show a] -> a -> String = s.show\nlet int_show : Show Int = { show = \\_ -> \"i\" }\nshow 1",
    "let f r : { x : Int, y : Int } -> Int = r.x\nlet g s : { x : Int | r } -> Int = s.x\nf { x = 1, y = 2 } #Int+ g { x = 1, z = 3 }",
    "rec type Tree a = | Leaf | Node (Forest a)\ntype Forest a = { items : Array (Tree a) }\nin\nlet t : Tree Int = Node { items = [Leaf] }\n{ Tree, Forest, t }",
    "type Pair a b = { fst : a, snd : b }\nlet swap p : Pair a b -> Pair b a = { fst = p.snd, snd = p.fst }\nlet { fst, snd } = swap { fst = 1, snd = \"s\" }\n{ Pair, swap, fst }",
];

struct Seeds {
    texts: Vec<String>,
}

fn load_seeds() -> Seeds {
    let mut files = vec![];
    fn walk(dir: &std::path::Path, out: &mut Vec<std::path::PathBuf>) {
        if let Ok(rd) = std::fs::read_dir(dir) {
            let mut es: Vec<_> = rd.filter_map(|e| e.ok()).map(|e| e.path()).collect();
            es.sort();
            for p in es {
                if p.is_dir() {
                    walk(&p, out);
                } else if p.extension().map(|e| e == "glu").unwrap_or(false) {
                    out.push(p);
                }
            }
        }
    }
    for d in ["/repo/std", "/repo/examples", "/repo/tests/pass"] {
        walk(std::path::Path::new(d), &mut files);
    }
    let mut texts: Vec<String> = SMALL.iter().map(|s| s.to_string()).collect();
    for f in files {
        if let Ok(s) = std::fs::read_to_string(&f) {
            texts.push(s);
        }
    }
    Seeds { texts }
}

/// Cut a window of whole lines of at most `max` bytes out of a seed.
fn window(rng: &mut Rng, s: &str, max: usize) -> String {
    if s.len() <= max {
        return s.to_string();
    }
    let lines: Vec<&str> = s.split_inclusive('\n').collect();
    let start = if rng.chance(1, 2) {
        0
    } else {
        rng.below(lines.len() as u64) as usize
    };
    let mut out = String::new();
    for l in &lines[start..] {
        if out.len() + l.len() > max {
            break;
        }
        out.push_str(l);
    }
    out
}

/// Pieces of a text: (whitespace/comment gap before the token, token text).
fn pieces(src: &str) -> (Vec<(String, String)>, String) {
    let toks = lex(src);
    let mut v = vec![];
    let mut last = 0usize;
    for t in &toks {
        let (s, e) = ((t.s - 1) as usize, (t.e - 1) as usize);
        if s < last || e > src.len() || !src.is_char_boundary(s) || !src.is_char_boundary(e) {
            continue;
        }
        v.push((src[last..s].to_string(), src[s..e].to_string()));
        last = e;
    }
    (v, src[last..].to_string())
}

fn join(p: &[(String, String)], tail: &str) -> String {
    let mut s = String::new();
    for (g, t) in p {
        s.push_str(g);
        s.push_str(t);
    }
    s.push_str(tail);
    s
}

const SOUP_TEXT: &[&str] = &[
    "let", "rec", "type", "in", "if", "then", "else", "match", "with", "do", "seq", "forall", "=", "->", "|",
    "\\", ",", "{", "}", "(", ")", "[", "]", "#[", "x", "y", "f", "Some", "None", "1", "2.5", "3b", "'c'",
    "\"s\"", "+", "*", "<|", ".", "..", ":", "@", "?", "_", "///d\n", "// c\n", "/* c */", "import!", "std.io",
    "#Int+", "r#\"raw\"#", "0x1f", "-1", "é", "'", "\"", "/*", "#!", "\t", "λ", "1.", "1x", "0x", "r#x",
];

/// Mutate the fields of one `{ … }` group (record expression, pattern or type): drop, duplicate,
/// swap two fields, or move a field into another group.  Fields are the comma-separated runs of
/// pieces at depth 0 of the group, so type fields (`{ Test, x = 1 }`) are moved like value fields.
fn mutate_record(rng: &mut Rng, p: &mut Vec<(String, String)>) -> bool {
    let opens: Vec<usize> = (0..p.len()).filter(|i| p[*i].1 == "{").collect();
    if opens.is_empty() {
        return false;
    }
    let group = |p: &Vec<(String, String)>, o: usize| -> Option<(usize, Vec<(usize, usize)>)> {
        // returns (index of the closing brace, field ranges [a, b) )
        let mut depth = 0i32;
        let mut fields = vec![];
        let mut start = o + 1;
        for i in o..p.len() {
            match p[i].1.as_str() {
                "{" | "(" | "[" => depth += 1,
                "}" | ")" | "]" => {
                    depth -= 1;
                    if depth == 0 {
                        if i > start {
                            fields.push((start, i));
                        }
                        return if p[i].1 == "}" { Some((i, fields)) } else { None };
                    }
                }
                "," if depth == 1 => {
                    if i > start {
                        fields.push((start, i));
                    }
                    start = i + 1;
                }
                _ => {}
            }
        }
        None
    };
    for _ in 0..6 {
        let o = *rng.pick(&opens);
        let (close, fields) = match group(p, o) {
            Some(x) if !x.1.is_empty() => x,
            _ => continue,
        };
        let fi = rng.below(fields.len() as u64) as usize;
        let (a, b) = fields[fi];
        let field: Vec<(String, String)> = p[a..b].to_vec();
        match rng.below(4) {
            0 => {
                // drop the field together with one adjacent comma
                let (mut a2, mut b2) = (a, b);
                if b < close && p[b].1 == "," {
                    b2 = b + 1;
                } else if a > o + 1 && p[a - 1].1 == "," {
                    a2 = a - 1;
                }
                p.drain(a2..b2);
            }
            1 => {
                // duplicate it
                let mut ins = vec![(" ".to_string(), ",".to_string())];
                ins.extend(field.iter().cloned());
                let at = b;
                for (k, x) in ins.into_iter().enumerate() {
                    p.insert(at + k, x);
                }
            }
            2 if fields.len() >= 2 => {
                let fj = (fi + 1 + rng.below(fields.len() as u64 - 1) as usize) % fields.len();
                let (c, d) = fields[fj];
                let other: Vec<(String, String)> = p[c..d].to_vec();
                // replace the later range first
                let ((lo, lo_new), (hi, hi_new)) = if a < c {
                    (((a, b), other), ((c, d), field))
                } else {
                    (((c, d), field), ((a, b), other))
                };
                p.splice(hi.0..hi.1, hi_new);
                p.splice(lo.0..lo.1, lo_new);
            }
            _ => {
                // copy the field into another group
                let o2 = *rng.pick(&opens);
                if let Some((close2, _)) = group(p, o2) {
                    let empty = close2 == o2 + 1;
                    let mut ins: Vec<(String, String)> = vec![];
                    if !empty {
                        ins.push(("".to_string(), ",".to_string()));
                    }
                    for (k, x) in field.iter().enumerate() {
                        ins.push((if k == 0 { " ".to_string() } else { x.0.clone() }, x.1.clone()));
                    }
                    for (k, x) in ins.into_iter().enumerate() {
                        p.insert(close2 + k, x);
                    }
                }
            }
        }
        return true;
    }
    false
}

fn gen_text(rng: &mut Rng, seeds: &Seeds) -> (String, &'static str) {
    let mode = rng.below(100);
    if mode < 8 {
        // random bytes, made valid UTF-8 lossily
        let n = rng.below(200) as usize;
        // half full-range bytes (lossy UTF-8: many U+FFFD and multi-byte scalars), half ASCII
        // incl. control characters
        let hi = if rng.chance(1, 2) { 256 } else { 128 };
        let bytes: Vec<u8> = (0..n).map(|_| rng.below(hi) as u8).collect();
        return (String::from_utf8_lossy(&bytes).into_owned(), if hi == 256 { "bytes" } else { "bytes-ascii" });
    }
    if mode < 14 {
        // random printable ASCII + a few multi-byte scalars and line structure
        let n = rng.below(300) as usize;
        let mut s = String::new();
        for _ in 0..n {
            let r = rng.below(40);
            if r == 0 {
                s.push('\n');
            } else if r == 1 && n % 2 == 0 {
                s.push(*rng.pick(&['é', 'λ', '→', '😀', '\u{0}', '\u{7f}', '\r', '\t']));
            } else if r == 1 {
                s.push(*rng.pick(&['\u{0}', '\u{7f}', '\r', '\t', '"', '\\', '\'']));
            } else {
                s.push((32 + rng.below(95) as u8) as char);
            }
        }
        return (s, "ascii");
    }
    if mode < 34 {
        // token soup with random indentation
        let n = 1 + rng.below(60) as usize;
        let levels: Vec<usize> = (0..4).map(|_| rng.below(10) as usize).collect();
        let mut s = " ".repeat(if rng.chance(1, 2) { 0 } else { *rng.pick(&levels) });
        let unicode = rng.chance(1, 2);
        for _ in 0..n {
            let w: &&str = rng.pick(SOUP_TEXT);
            let w: &str = if !unicode && !w.is_ascii() { "x" } else { w };
            s.push_str(w);
            if rng.chance(1, 4) {
                s.push('\n');
                s.push_str(&" ".repeat(*rng.pick(&levels)));
            } else if rng.chance(9, 10) {
                s.push(' ');
            }
        }
        return (s, "soup");
    }
    // grammar-aware mutation of a valid program
    // a quarter of the mutants start from the small programs with type fields / implicit arguments
    let seed = if rng.chance(1, 4) {
        let w: &&str = rng.pick(&SMALL[SMALL.len() - 7..]);
        w.to_string()
    } else {
        rng.pick(&seeds.texts).clone()
    };
    let maxw = if rng.chance(1, 3) { 4096 } else { 600 };
    let base = window(rng, &seed, maxw);
    if mode < 40 {
        return (base, "seed");
    }
    let (mut p, tail) = pieces(&base);
    if p.is_empty() {
        return (base, "seed");
    }
    let nmut = 1 + rng.below(3);
    let mut label = "mut";
    for _ in 0..nmut {
        if p.is_empty() {
            break;
        }
        let i = rng.below(p.len() as u64) as usize;
        match rng.below(10) {
            7 | 8 | 9 => {
                if mutate_record(rng, &mut p) {
                    label = "mut:record-field";
                }
            }
            0 => {
                p.remove(i);
                label = "mut:delete";
            }
            1 => {
                let x = p[i].clone();
                p.insert(i, x);
                label = "mut:dup";
            }
            2 => {
                let j = rng.below(p.len() as u64) as usize;
                let (a, b) = (p[i].1.clone(), p[j].1.clone());
                p[i].1 = b;
                p[j].1 = a;
                label = "mut:swap";
            }
            3 => {
                // re-indent the line the token starts (only if the gap holds a newline)
                let k = (0..p.len()).map(|d| (i + d) % p.len()).find(|k| p[*k].0.contains('\n'));
                if let Some(k) = k {
                    let g = p[k].0.clone();
                    let cut = g.rfind('\n').unwrap() + 1;
                    let ind = rng.below(13) as usize;
                    p[k].0 = format!("{}{}", &g[..cut], " ".repeat(ind));
                }
                label = "mut:reindent";
            }
            4 => {
                p.truncate(i);
                label = "mut:truncate";
                if rng.chance(1, 2) {
                    return (join(&p, ""), label);
                }
            }
            5 => {
                let w: &&str = rng.pick(SOUP_TEXT);
                p[i].1 = w.to_string();
                label = "mut:replace";
            }
            _ => {
                // move the token to a fresh line / join it to the previous line
                if p[i].0.contains('\n') {
                    p[i].0 = " ".to_string();
                } else {
                    p[i].0 = format!("\n{}", " ".repeat(rng.below(9) as usize));
                }
                label = "mut:linebreak";
            }
        }
    }
    (join(&p, &tail), label)
}

// ------------------------------------------------------------------------------------------
// Error-path family: per error variant, a generator of small ill-formed programs with varied
// data (names, field orders, value/type fields, direction of the unification, open/closed rows).
// ------------------------------------------------------------------------------------------

struct G<'a> {
    rng: &'a mut Rng,
}

impl<'a> G<'a> {
    fn id(&mut self) -> String {
        let w: &&str = self.rng.pick(&["x", "y", "z", "foo", "bar", "value", "f", "g", "n"]);
        w.to_string()
    }
    fn ids(&mut self, n: usize) -> Vec<String> {
        let pool = ["a", "b", "c", "d", "x", "y", "z", "w", "k", "v"];
        let start = self.rng.below(pool.len() as u64) as usize;
        (0..n).map(|i| pool[(start + i) % pool.len()].to_string()).collect()
    }
    fn tname(&mut self) -> String {
        let w: &&str = self.rng.pick(&["Test", "T", "Foo", "Elem", "Key", "Wrap"]);
        w.to_string()
    }
    /// (type text, literal of that type)
    fn ty(&mut self) -> (String, String) {
        match self.rng.below(5) {
            0 => ("Int".into(), format!("{}", self.rng.below(100))),
            1 => ("String".into(), "\"s\"".into()),
            2 => ("Float".into(), "1.5".into()),
            3 => ("Char".into(), "'c'".into()),
            _ => ("()".into(), "()".into()),
        }
    }
    fn shuffle<T>(&mut self, v: &mut Vec<T>) {
        for i in (1..v.len()).rev() {
            let j = self.rng.below(i as u64 + 1) as usize;
            v.swap(i, j);
        }
    }
    /// A record expression with the given type fields and value fields, in random order.
    fn record(&mut self, tfields: &[String], vfields: &[(String, String)]) -> String {
        let mut parts: Vec<String> = tfields.to_vec();
        for (n, v) in vfields {
            parts.push(if self.rng.chance(1, 6) { format!("{} = ({})", n, v) } else { format!("{} = {}", n, v) });
        }
        self.shuffle(&mut parts);
        if parts.is_empty() {
            "{}".into()
        } else {
            format!("{{ {} }}", parts.join(", "))
        }
    }
    /// Two things that must unify, placed in a random unifying position, in the given order.
    fn unify_site(&mut self, a: &str, b: &str) -> String {
        match self.rng.below(6) {
            0 => format!("[{}, {}]", a, b),
            1 => format!("if True then {} else {}", a, b),
            2 => format!("let f x y : a -> a -> a = x\nf ({}) ({})", a, b),
            3 => format!("let r = {}\nlet s = {}\n[r, s]", a, b),
            4 => format!("match 1 with\n| 0 -> {}\n| _ -> {}", a, b),
            _ => format!("let g h : (a -> Int) -> a -> a -> Int = \\x y -> h x\ng (\\_ -> 1) ({}) ({})", a, b),
        }
    }
}

/// One ill-formed program aimed at one error variant; returns (text, family, implicit prelude).
fn gen_error_program(rng: &mut Rng) -> (String, String, bool) {
    let mut g = G { rng };
    let fam = match g.rng.below(50) {
        n if n >= 46 => 29,
        n => n,
    };
    let (x, y) = (g.id(), g.tname());
    let (t1, l1) = g.ty();
    let (t2, l2) = g.ty();
    let fs = g.ids(4);
    let bool_decl = "type Bool = | False | True\n";
    let mut prelude = false;
    let (name, body): (&str, String) = match fam {
        0 => ("UndefinedVariable", format!("let {} = {}\n{}q", x, l1, x)),
        1 => ("NotAFunction", format!("let {} = {}\n{} {} {}", x, l1, x, l2, l1)),
        2 => ("UndefinedType", match g.rng.below(3) {
            0 => format!("let {} : {}q = {}\n{}", x, y, l1, x),
            1 => format!("type {} = {{ f : Missing{} }}\n1", y, y),
            _ => format!("let f v : {} -> Undefined a = v\nf", t1),
        }),
        3 => ("UndefinedField", match g.rng.below(3) {
            0 => format!("let r = {{ {} = {}, {} = {} }}\nr.{}", fs[0], l1, fs[1], l2, fs[2]),
            1 => format!("type {} = {}\nlet r = {{ {}, {} = {} }}\nr.{}", y, t1, y, fs[0], l1, fs[1]),
            _ => format!("let {{ {} }} = {{ {} = {} }}\n1", y, fs[0], l1),
        }),
        4 => ("PatternError", format!(
            "type {y} = | A {t1} | B\nmatch A {l1} with\n| A p q -> 1\n| B{extra} -> 2", y = y, t1 = t1, l1 = l1,
            extra = if g.rng.chance(1, 2) { " z" } else { "" })),
        5 => ("TypeMismatch", match g.rng.below(4) {
            0 => format!("let {} : {} = {}\n{}", x, if t1 == t2 { "Array Int".to_string() } else { t1.clone() }, l2, x),
            1 => format!("1 #Int+ {}", if l2.parse::<i64>().is_ok() { "\"s\"".to_string() } else { l2.clone() }),
            2 => format!("{}if {} then 1 else 2", bool_decl, l2),
            _ => format!("let f v : {} -> {} = v\nf {}", t1, t1, if t1 == t2 { "[1]".to_string() } else { l2.clone() }),
        }),
        6 | 7 | 8 | 9 => {
            // records that differ in value and/or TYPE fields, both directions, closed rows
            let nt = g.rng.below(3) as usize;
            let tnames: Vec<String> = ["Test", "Elem", "Key"].iter().take(nt).map(|s| s.to_string()).collect();
            let decls: String = tnames.iter().map(|t| format!("type {} = {}\n", t, t1)).collect();
            let nv = 1 + g.rng.below(3) as usize;
            let vf: Vec<(String, String)> = fs.iter().take(nv).map(|f| (f.clone(), l1.clone())).collect();
            let full = g.record(&tnames, &vf);
            // the other record: drop some type fields and/or value fields, or add one
            let mut t2v = tnames.clone();
            let mut v2 = vf.clone();
            match g.rng.below(5) {
                0 => { t2v.clear(); }
                1 => { t2v.pop(); }
                2 => { v2.pop(); }
                3 => { v2.push((fs[3].clone(), l2.clone())); }
                _ => { t2v.clear(); v2.push((fs[3].clone(), l2.clone())); }
            }
            let other = g.record(&t2v, &v2);
            let (a, b) = if g.rng.chance(1, 2) { (full, other) } else { (other, full) };
            ("MissingFields", format!("{}{}{}", bool_decl, decls, g.unify_site(&a, &b)))
        }
        10 => ("MissingFields:annotation", {
            let tdecl = format!("type {} = {}\n", y, t1);
            match g.rng.below(4) {
                0 => format!("{}let r : {{ {} : {} }} = {{ {}, {} = {} }}\nr", tdecl, fs[0], t1, y, fs[0], l1),
                1 => format!("{}let r : {{ {} : {}, {} : {} }} = {{ {} = {} }}\nr", tdecl, fs[0], t1, fs[1], t2, fs[0], l1),
                2 => format!("{}let f r : {{ {}, {} : {} }} -> Int = 1\nf {{ {} = {} }}", tdecl, y, fs[0], t1, fs[0], l1),
                _ => format!("{}let f r : {{ {} : {} }} -> Int = 1\nf {{ {}, {} = {} }}", tdecl, fs[0], t1, y, fs[0], l1),
            }
        }),
        11 => ("FieldMismatch", {
            let a = format!("{{ {} = {}, {} = {} }}", fs[0], l1, fs[1], l2);
            let b = format!("{{ {} = {}, {} = {} }}", fs[0], l1, fs[2], l2);
            format!("{}{}", bool_decl, g.unify_site(&a, &b))
        }),
        12 => ("OpenRows", match g.rng.below(3) {
            0 => format!("let f r : {{ {} : {} | r }} -> {} = r.{}\nf {{ {} = {} }}", fs[0], t1, t1, fs[0], fs[1], l1),
            1 => format!("let f r = r.{}\nf {{ {} = {} }}", fs[0], fs[1], l1),
            _ => format!("type {} = {}\nlet f r : {{ {}, {} : {} | r }} -> Int = 1\nf {{ {} = {}, {} = {} }}", y, t1, y, fs[0], t1, fs[0], l1, fs[1], l2),
        }),
        13 => ("SelfRecursiveAlias", match g.rng.below(2) {
            0 => format!("type {} = {}\nlet v : {} = {}\nv", y, y, y, l1),
            _ => format!("rec type A = B\ntype B = A\nin\nlet v : A = {}\nv", l1),
        }),
        14 => ("EscapingSkolem", match g.rng.below(6) {
            3 => "let g : forall a . (forall b . b -> a) -> a = \\f -> f 1\ng (\\v -> v)".to_string(),
            4 => "type T = { id : forall a . a -> a }\nlet mk v : b -> T = { id = \\w -> v }\nmk".to_string(),
            5 => "let f : (forall a . a -> a) -> Int = \\g -> g 1\nlet r = \\v -> f v\nr".to_string(),
            0 => format!("let f v : forall a . a -> a = {}\nf", l1),
            1 => "let f g : (forall a . a -> a) -> Int = g 1\nlet h v : Int -> Int = v\nf h".to_string(),
            _ => format!("let k : forall a . a = {}\nk", l1),
        }),
        15 => ("Occurs", match g.rng.below(3) {
            0 => "\\v -> v v".to_string(),
            1 => format!("let f {} = f\nf", x),
            _ => "let f v = [v, [v]]\nf".to_string(),
        }),
        16 => ("KindError", match g.rng.below(4) {
            0 => format!("let v : {} {} = {}\nv", t1, t2, l1),
            1 => format!("type {} a = a {}\nlet v : {} Int = 1\nv", y, t1, y),
            2 => format!("type {} a = | A a\nlet v : {} = A 1\nv", y, y),
            _ => format!("type {} = | A Array\n1", y),
        }),
        17 => ("RecursionCheck", match g.rng.below(6) {
            3 => format!("let f v = v\nrec let {} = f {}\n{}", x, x, x),
            4 => format!("rec let {} = match {} with | _ -> 1\n{}", x, x, x),
            5 => format!("rec let {} = {{ a = 1 #Int+ {}.a }}\n{}", x, x, x),
            0 => format!("rec let {} = {}\n{}", x, x, x),
            1 => "rec let a = b\nlet b = a\na".to_string(),
            _ => format!("rec let {} =\n    let q = {}\n    q\n{}", x, x, x),
        }),
        18 => ("DuplicateTypeDefinition", format!("rec\ntype {} = {}\ntype {} = {}\nin 1", y, t1, y, t2)),
        19 => ("DuplicateField", match g.rng.below(3) {
            0 => format!("{{ {} = {}, {} = {} }}", fs[0], l1, fs[0], l2),
            1 => format!("let {{ {}, {} }} = {{ {} = {} }}\n1", fs[0], fs[0], fs[0], l1),
            _ => format!("type {} = {}\n{{ {}, {}, {} = {} }}", y, t1, y, y, fs[0], l1),
        }),
        20 => ("InvalidProjection", format!("let v = {}\nv.{}", l1, fs[0])),
        21 => ("UndefinedRecord", match g.rng.below(2) {
            0 => format!("let {{ {}qq, {}rr }} = 1\n1", fs[0], fs[1]),
            _ => format!("\\{{ {}zz }} -> 1", fs[0]),
        }),
        22 => ("EmptyCase", "match 1 with\n".to_string()),
        23 => ("MissingImplicit", format!(
            "type Show a = {{ show : a -> String }}\nlet show ?s : [Show a] -> a -> String = s.show\nshow {}", l1)),
        24 => ("AmbiguousImplicit", format!(
            "#[implicit]\ntype Show a = {{ show : a -> String }}\nlet show ?s : [Show a] -> a -> String = s.show\nlet i1 : Show {t} = {{ show = \\_ -> \"1\" }}\nlet i2 : Show {t} = {{ show = \\_ -> \"2\" }}\nshow {l}", t = t1, l = l1)),
        25 => ("LoopInImplicitResolution", "#[implicit]\ntype Show a = { show : a -> String }\nlet show ?s : [Show a] -> a -> String = s.show\ntype L a = | N | C a (L a)\nlet list_show ?d : [Show (L a)] -> Show (L a) = { show = \\_ -> \"\" }\nshow (C 1 N)".to_string()),
        26 => ("TypeConstructorReturnsWrongType", format!("type {} a = | A : Int -> Other{} a\nA 1", y, y)),
        27 => ("ExtraArgument", format!("let f v : {} -> {} = v\nf {} {} {}", t1, t1, l1, l2, l1)),
        28 => ("UndefinedFlatMapInDo", format!("do {} = {}\n{}", x, l1, x)),
        29 => ("Token", {
            let w: &&str = g.rng.pick(&["''", "'ab'", "\"abc", "\"\\q\"", "'\\q'", "r#x", "99999999999999999999", "0x8000000000000000",
                "-0x8000000000000001", "10x1", "0x", "0xg", "3bs", "12.3a", "1x", "/* open", "'", "'a", "\u{7f}", "`"]);
            format!("let {} = {}\n{}", x, w, x)
        }),
        30 => ("Layout", format!("let {} =\n        let q = 1\n    q\n  {}", x, x)),
        31 => ("UnexpectedToken", {
            let w: &&str = g.rng.pick(&["let = 1", "type = Int", "1 +", "( 1", "{ x = }", "[1, ]", "\\ -> 1", "match with", "if then else", "let x 1", ") 1", "in 1", "| A"]);
            w.to_string()
        }),
        32 => ("Infix", match g.rng.below(4) {
            0 => "#[infix(left, 4)]\nlet (+++) a b = a\n#[infix(right, 4)]\nlet (***) a b = a\n1 +++ 2 *** 3".to_string(),
            1 => "let (+++) a b = a\n1 +++ 2".to_string(),
            2 => "#[infix(up, 4)]\nlet (+++) a b = a\n1 +++ 2".to_string(),
            _ => "#[infix(left, x)]\nlet (+++) a b = a\n1 +++ 2".to_string(),
        }),
        33 => ("Import", {
            let w: &&str = g.rng.pick(&["import! std.does_not_exist", "import! 1", "import!", "import! std.int std.float", "import! \"std/nothing.glu\""]);
            format!("let m = {}\nm", w)
        }),
        34 => ("Derive", {
            let w: &&str = g.rng.pick(&["#[derive(Nothing)]\ntype T = | A\n1", "#[derive(Show)]\ntype T = Int\n1", "#[derive(Eq)]\ntype T = { f : Int -> Int }\n1",
                "#[derive(Show, Show)]\ntype T = | A Int\n1", "#[derive]\ntype T = | A\n1"]);
            w.to_string()
        }),
        35 => ("Attribute", {
            let w: &&str = g.rng.pick(&["#[doc]\nlet x = 1\nx", "#[infix]\nlet x = 1\nx", "#[implicit(1)]\ntype T = Int\n1", "#[unknown(a, b)]\nlet x = 1\nx"]);
            w.to_string()
        }),
        36 => ("VariantPattern", format!(
            "type {y} = | A {t} | B\nlet v = A {l}\nmatch v with\n| C q -> 1\n| A {{ f }} -> 2\n| \"s\" -> 3", y = y, t = t1, l = l1)),
        37 => ("RecordPatternTypeField", match g.rng.below(3) {
            0 => format!("type {y} = {t}\nlet r = {{ {y}, {f} = {l} }}\nlet {{ {y}, {f}, {g2} }} = r\n{f}", y = y, t = t1, f = fs[0], g2 = fs[1], l = l1),
            1 => format!("let r = {{ {f} = {l} }}\nlet {{ {y}, {f} }} = r\n{f}", y = y, f = fs[0], l = l1),
            _ => format!("type {y} = {t}\nlet r = {{ {y}, {f} = {l} }}\nlet {{ {y} = Other, {f} }} = r\n{f}", y = y, t = t1, f = fs[0], l = l1),
        }),
        38 => ("AliasMismatch", format!(
            "type {y} a = {{ v : a }}\nlet p : {y} {t1} = {{ v = {l2} }}\nlet q : {y} {t2} = p\nq", y = y, t1 = t1, t2 = if t1 == t2 { "(Array Int)".to_string() } else { t2.clone() }, l2 = l2)),
        39 => ("VariantMismatch", format!(
            "type A = | X {t} | Y\ntype B = | X2 {t} | Y2\nlet f v : A -> Int = 1\nf (X2 {l})\n", t = t1, l = l1)),
        40 => ("ArrayMismatch", format!("[{}, {}, [{}]]", l1, if l1 == l2 { "\"q\"".to_string() } else { l2.clone() }, l1)),
        41 => ("GeneralizeAnnotation", match g.rng.below(2) {
            0 => "let f v : a -> b = v\nf".to_string(),
            _ => "let mk _ : () -> (forall a . a -> a) = \\v -> 1\nmk".to_string(),
        }),
        42 => {
            prelude = true;
            ("PreludeImplicit", match g.rng.below(3) {
                0 => "let f v = v == v\nf (\\w -> w)".to_string(),
                1 => format!("show (\\{} -> 1)", x),
                _ => "1 + \"s\"".to_string(),
            })
        }
        43 => ("ProjectionOnType", format!("type {y} = {{ f : {t} }}\nlet v : {y} = {{ f = {l} }}\nv.g.h", y = y, t = t1, l = l1)),
        44 => ("CyclicType", "rec type A = { b : B }\ntype B = | MkB A C\nin\nlet v : A = 1\nv".to_string()),
        _ => ("ForallMisuse", format!("let f : forall a a . a -> {} = \\v -> {}\nf {}", t1, l2, l1)),
    };
    (body, format!("err:{}", name), prelude)
}

fn clip(mut s: String) -> String {
    if s.len() > 4096 {
        let mut i = 4096;
        while !s.is_char_boundary(i) {
            i -= 1;
        }
        s.truncate(i);
    }
    s
}

// ------------------------------------------------------------------------------------------
// Part 2: front-end oracle, child side
// ------------------------------------------------------------------------------------------

fn hex(b: &[u8]) -> String {
    let mut s = String::with_capacity(b.len() * 2);
    for x in b {
        s.push_str(&format!("{:02x}", x));
    }
    s
}

fn unhex(s: &str) -> Vec<u8> {
    (0..s.len() / 2)
        .map(|i| u8::from_str_radix(&s[2 * i..2 * i + 2], 16).unwrap_or(0))
        .collect()
}

thread_local! {
    static LAST_PANIC: std::cell::RefCell<String> = std::cell::RefCell::new(String::new());
}

fn install_panic_hook() {
    // fingerprint of a panic = source file + message (not the line: lines shift with every edit)
    std::panic::set_hook(Box::new(|info| {
        let file = info
            .location()
            .map(|l| {
                let f = l.file();
                f.rsplit("/repo/").next().unwrap_or(f).to_string()
            })
            .unwrap_or_else(|| "?".into());
        let msg = if let Some(s) = info.payload().downcast_ref::<String>() {
            s.clone()
        } else if let Some(s) = info.payload().downcast_ref::<&str>() {
            s.to_string()
        } else {
            "panic".to_string()
        };
        LAST_PANIC.with(|p| *p.borrow_mut() = format!("{}:{}", file, short(&msg)));
    }));
}

fn variant_name<T: std::fmt::Debug>(t: &T) -> String {
    let s = format!("{:?}", t);
    s.chars()
        .take_while(|c| c.is_ascii_alphanumeric() || *c == '_')
        .take(40)
        .collect()
}

/// Check one span against the code map; returns a violation kind or None.
fn span_problem(map: &base::source::CodeMap, span: Span<BytePos>) -> Option<&'static str> {
    let file = match map.get(span.start()) {
        Some(f) => f,
        None => return Some("start-outside-any-file"),
    };
    let fs = file.span();
    if span.start() < fs.start() || span.end() > fs.end() {
        return Some("outside-file");
    }
    if span.start() > span.end() {
        return Some("start-after-end");
    }
    let src = file.source();
    let a = span.start().to_usize() - fs.start().to_usize();
    let b = span.end().to_usize() - fs.start().to_usize();
    if !src.is_char_boundary(a) || !src.is_char_boundary(b) {
        return Some("not-on-char-boundary");
    }
    None
}

#[derive(Default)]
struct ErrReport {
    n: usize,
    kinds: BTreeSet<String>,
    problems: Vec<(String, String)>, // (fingerprint tail, description)
    variants: BTreeMap<String, u64>,  // structural error-variant label -> count
}

fn check_infile<E>(
    stage: &str,
    e: &base::error::InFile<E>,
    rep: &mut ErrReport,
    label: &dyn Fn(&E) -> Vec<String>,
) where
    E: std::fmt::Display + std::fmt::Debug + base::error::AsDiagnostic,
{
    for sp in e.errors().iter() {
        rep.n += 1;
        let kind = variant_name(&sp.value);
        rep.kinds.insert(format!("{}:{}", stage, kind));
        let labels = label(&sp.value);
        for l in &labels {
            *rep.variants.entry(l.clone()).or_insert(0) += 1;
        }
        if let Some(p) = span_problem(e.source(), sp.span) {
            rep.problems.push((
                format!("span:{}:{}:{}", stage, kind, p),
                format!(
                    "{} error `{}` has span {}..{} which is {}",
                    stage,
                    kind,
                    sp.span.start().to_usize(),
                    sp.span.end().to_usize(),
                    p
                ),
            ));
        }
        // every single error must render on its own: Display and the diagnostic (labels, help)
        let first = labels.first().cloned().unwrap_or_else(|| format!("{}:{}", stage, kind));
        if let Err(p) = gv::catch(|| sp.value.to_string().len()) {
            rep.problems.push((
                format!("render-panic:{}:{}", first, LAST_PANIC.with(|l| l.borrow().clone())),
                format!("Display of a {} error ({}) panicked: {}", stage, first, p),
            ));
        }
        if let Err(p) = gv::catch(|| {
            let d = base::error::AsDiagnostic::as_diagnostic(sp, e.source());
            d.message.len() + d.labels.iter().map(|l| l.message.len()).sum::<usize>() + d.notes.len()
        }) {
            rep.problems.push((
                format!("render-panic:{}:{}", first, LAST_PANIC.with(|l| l.borrow().clone())),
                format!("as_diagnostic of a {} error ({}) panicked: {}", stage, first, p),
            ));
        }
    }
    // rendering: codespan diagnostics and Display
    match gv::catch(|| e.emit_string()) {
        Ok(Ok(s)) => {
            if s.is_empty() && e.errors().len() > 0 {
                rep.problems
                    .push((format!("render:{}:empty", stage), format!("{} error renders to the empty string", stage)));
            }
        }
        Ok(Err(err)) => rep.problems.push((
            format!("render:{}:{}", stage, variant_name(&err)),
            format!("{} error cannot be rendered: {}", stage, err),
        )),
        Err(p) => rep.problems.push((
            format!("render-panic:{}:{}", stage, LAST_PANIC.with(|l| l.borrow().clone())),
            format!("rendering a {} error panicked: {}", stage, p),
        )),
    }
}

fn label_parse(e: &gluon_parser::Error) -> Vec<String> {
    use gluon_parser::Error as P;
    vec![match e {
        P::Token(t) => format!("parse:Token:{}", variant_name(t)),
        P::Layout(t) => format!("parse:Layout:{}", variant_name(t)),
        P::Infix(t) => format!("parse:Infix:{}", variant_name(t)),
        other => format!("parse:{}", variant_name(other)),
    }]
}

fn label_unify<E: std::fmt::Debug, T>(prefix: &str, e: &gluon_check::unify::Error<E, T>) -> String {
    use gluon_check::unify::Error as U;
    match e {
        U::TypeMismatch(..) => format!("{}:TypeMismatch", prefix),
        U::Substitution(s) => format!("{}:Substitution:{}", prefix, {
            match s {
                gluon_check::substitution::Error::Occurs(..) => "Occurs",
            }
        }),
        U::Other(o) => format!("{}:Other:{}", prefix, variant_name(o)),
    }
}

fn label_typecheck(h: &gluon_check::typecheck::HelpError<base::symbol::Symbol>) -> Vec<String> {
    use gluon_check::typecheck::TypeError as T;
    let mut v = vec![];
    match &h.error {
        T::Unification(_, _, errs) => {
            for e in errs {
                v.push(label_unify("tc:Unification", e));
            }
            if errs.is_empty() {
                v.push("tc:Unification:<empty>".to_string());
            }
        }
        T::KindError(e) => v.push(label_unify("tc:KindError", e)),
        T::UnableToResolveImplicit(e) => v.push(format!("tc:Implicit:{}", variant_name(&e.kind))),
        T::RecursionCheck(e) => v.push(format!("tc:RecursionCheck:{}", variant_name(e))),
        other => v.push(format!("tc:{}", variant_name(other))),
    }
    if let Some(help) = &h.help {
        v.push(format!("help:{}", variant_name(help)));
    }
    v
}

fn label_macro(e: &gluon::vm::macros::Error) -> Vec<String> {
    // boxed `dyn Error`: classify by the first words of the message, identifiers/paths dropped
    let msg = e.to_string();
    let words: Vec<String> = msg
        .split_whitespace()
        .filter(|w| w.chars().all(|c| c.is_ascii_alphabetic()))
        .take(4)
        .map(|w| w.to_lowercase())
        .collect();
    vec![format!("macro:{}", words.join("_"))]
}

/// The variants (structural labels) the error-path generators aim at; what was not reached in a
/// run is listed in the evidence (`unreached_error_variants`).
/// Variants that no code path constructs any more (grep over check/src and parser/src: only the
/// enum definition and the Display arm mention them) or that a `From` impl always converts away
/// (kindcheck `Other(UndefinedType/UndefinedField)` -> `TypeError::UndefinedType/UndefinedField`,
/// check/src/typecheck/error.rs:65-72); LALRPOP's `InvalidToken`/`ExtraToken` cannot arise with the
/// external lexer and a grammar that reads to EOF.  Listed in the evidence, not expected.
const NEVER_CONSTRUCTED: &[&str] = &[
    "tc:NotAFunction", "tc:UndefinedRecord", "tc:Unification:Other:UnableToGeneralize",
    "tc:KindError:Other:UndefinedType", "tc:KindError:Other:UndefinedField", "parse:InvalidToken", "parse:ExtraToken",
];

const EXPECTED_VARIANTS: &[&str] = &[
    "tc:UndefinedVariable", "tc:NotAFunction", "tc:UndefinedType", "tc:UndefinedField", "tc:PatternError",
    "tc:Unification:TypeMismatch", "tc:Unification:Substitution:Occurs", "tc:Unification:Other:UndefinedType",
    "tc:Unification:Other:FieldMismatch", "tc:Unification:Other:SelfRecursiveAlias",
    "tc:Unification:Other:UnableToGeneralize", "tc:Unification:Other:MissingFields",
    "tc:Unification:Other:EscapingSkolem", "tc:KindError:TypeMismatch", "tc:KindError:Substitution:Occurs",
    "tc:KindError:Other:UndefinedType", "tc:KindError:Other:UndefinedField",
    "tc:RecursionCheck:InvalidRecursion", "tc:RecursionCheck:LastExprMustBeConstructor",
    "tc:DuplicateTypeDefinition", "tc:DuplicateField", "tc:InvalidProjection", "tc:UndefinedRecord",
    "tc:EmptyCase", "tc:Message", "tc:Implicit:MissingImplicit", "tc:Implicit:LoopInImplicitResolution",
    "tc:Implicit:AmbiguousImplicit", "tc:TypeConstructorReturnsWrongType", "help:UndefinedFlatMapInDo",
    "help:ExtraArgument", "parse:Token:EmptyCharLiteral", "parse:Token:UnexpectedChar", "parse:Token:UnexpectedEof",
    "parse:Token:UnexpectedEscapeCode", "parse:Token:UnterminatedCharLiteral",
    "parse:Token:UnterminatedStringLiteral", "parse:Token:InvalidRawStringDelimiter",
    "parse:Token:NonParseableInt", "parse:Token:HexLiteralOverflow", "parse:Token:HexLiteralUnderflow",
    "parse:Token:HexLiteralWrongPrefix", "parse:Token:HexLiteralIncomplete", "parse:Layout:UnindentedTooFar",
    "parse:InvalidToken", "parse:UnexpectedToken", "parse:UnexpectedEof", "parse:ExtraToken",
    "parse:Infix:ConflictingFixities", "parse:Infix:UndefinedFixity", "parse:Infix:InvalidFixity",
    "parse:Infix:InvalidPrecedence", "parse:Message",
];

fn check_error(e: &gluon::Error, rep: &mut ErrReport) {
    match e {
        gluon::Error::Parse(x) => check_infile("parse", x, rep, &label_parse),
        gluon::Error::Typecheck(x) => check_infile("typecheck", x, rep, &label_typecheck),
        gluon::Error::Macro(x) => check_infile("macro", x, rep, &label_macro),
        gluon::Error::Multiple(xs) => {
            for x in xs.iter() {
                check_error(x, rep);
            }
        }
        other => {
            rep.n += 1;
            rep.kinds.insert(format!("nospan:{}", variant_name(other)));
        }
    }
}

/// Run one input through the front end; one JSON line.
fn front_end_one(vm: &gluon::RootedThread, src: &str) -> serde_json::Value {
    let mut rep = ErrReport::default();
    let mut status = vec![];
    // 1. parse_partial_expr
    let tc = base::types::TypeCache::default();
    let r = gv::catch(|| vm.parse_partial_expr(&tc, "c09_input", src));
    match r {
        Err(p) => rep.problems.push((
            format!("panic:front-end:{}", LAST_PANIC.with(|l| l.borrow().clone())),
            format!("parse_partial_expr panicked: {}", p),
        )),
        Ok(Ok(_)) => status.push("parse:ok".to_string()),
        Ok(Err(salv)) => {
            status.push(
                if salv.value.is_some() {
                    "parse:partial"
                } else {
                    "parse:error"
                }
                .to_string(),
            );
            check_infile("parse", &salv.error, &mut rep, &label_parse);
        }
    }
    // 2. the whole pipeline
    let r = gv::catch(|| vm.typecheck_str("c09_input", src, None));
    match r {
        Err(p) => rep.problems.push((
            format!("panic:front-end:{}", LAST_PANIC.with(|l| l.borrow().clone())),
            format!("typecheck_str panicked: {}", p),
        )),
        Ok(Ok(_)) => status.push("check:ok".to_string()),
        Ok(Err(e)) => {
            status.push("check:error".to_string());
            check_error(&e, &mut rep);
            match gv::catch(|| (e.emit_string().map(|s| s.len()), e.to_string().len())) {
                Ok((Ok(_), _)) => {}
                Ok((Err(err), _)) => rep.problems.push((
                    format!("render:emit_string:{}", variant_name(&err)),
                    format!("Error::emit_string failed: {}", err),
                )),
                Err(p) => rep.problems.push((
                    format!("render-panic:emit_string:{}", LAST_PANIC.with(|l| l.borrow().clone())),
                    format!("Error::emit_string / Display panicked: {}", p),
                )),
            }
        }
    }
    serde_json::json!({
        "status": status,
        "nerr": rep.n,
        "kinds": rep.kinds.into_iter().collect::<Vec<_>>(),
        "variants": rep.variants,
        "problems": rep.problems,
    })
}

/// `--child front <prelude 0|1>`: stdin = one hex-encoded input per line; for each prints
/// `S <i>` when starting and `R <i> <json>` when done.
fn child_front(prelude: bool) {
    install_panic_hook();
    let fresh = || {
        let vm = gv::vm::new_vm();
        vm.get_database_mut().set_implicit_prelude(prelude);
        // warm up (loads the prelude once) so that the per-input watchdog measures the input
        println!("W start");
        let _ = gv::catch(|| vm.typecheck_str("c09_warm", "1", None));
        println!("W done");
        vm
    };
    let mut vm = fresh();
    let stdin = std::io::stdin();
    let mut i = 0usize;
    for line in stdin.lock().lines() {
        let line = match line {
            Ok(l) => l,
            Err(_) => break,
        };
        let bytes = unhex(line.trim());
        let src = String::from_utf8_lossy(&bytes).into_owned();
        println!("S {}", i);
        let _ = std::io::stdout().flush();
        let v = front_end_one(&vm, &src);
        let panicked = v["problems"]
            .as_array()
            .map(|a| a.iter().any(|p| p[0].as_str().map(|s| s.contains("panic")).unwrap_or(false)))
            .unwrap_or(false);
        if panicked {
            // a panic inside the compiler poisons its mutexes: every later input on this VM
            // would fail for that reason only, so continue on a fresh VM
            vm = fresh();
        }
        println!("R {} {}", i, v);
        let _ = std::io::stdout().flush();
        i += 1;
    }
}

// ------------------------------------------------------------------------------------------
// Part 2: parent side — batches, per-input watchdog
// ------------------------------------------------------------------------------------------

#[derive(Debug, Clone)]
enum FrontOutcome {
    Done(serde_json::Value),
    Timeout,
    Crash(String, String), // class, stderr tail
}

const WATCHDOG: Duration = Duration::from_secs(5);

/// Run `inputs` in one child; returns outcomes for a prefix (stops after the first
/// timeout/crash: the caller restarts with the rest).
fn run_front_child(inputs: &[String], prelude: bool, watchdog: Duration) -> Vec<FrontOutcome> {
    let exe = std::env::current_exe().unwrap();
    let mut ch = Command::new(exe)
        .args(["--child", "front", if prelude { "1" } else { "0" }])
        .stdin(Stdio::piped())
        .stdout(Stdio::piped())
        .stderr(Stdio::piped())
        .spawn()
        .expect("spawn");
    let mut si = ch.stdin.take().unwrap();
    let payload: String = inputs.iter().map(|s| format!("{}\n", hex(s.as_bytes()))).collect();
    let writer = std::thread::spawn(move || {
        let _ = si.write_all(payload.as_bytes());
    });
    let so = ch.stdout.take().unwrap();
    let mut se = ch.stderr.take().unwrap();
    let (tx, rx) = mpsc::channel::<String>();
    let reader = std::thread::spawn(move || {
        for l in BufReader::new(so).lines() {
            match l {
                Ok(l) => {
                    if tx.send(l).is_err() {
                        break;
                    }
                }
                Err(_) => break,
            }
        }
    });
    let errt = std::thread::spawn(move || {
        let mut s = Vec::new();
        let _ = se.read_to_end(&mut s);
        let s = String::from_utf8_lossy(&s).into_owned();
        let n = s.len();
        let mut i = n.saturating_sub(600);
        while !s.is_char_boundary(i) {
            i += 1;
        }
        s[i..].to_string()
    });
    let mut res = vec![];
    let mut limit = Duration::from_secs(60); // VM creation + prelude
    let mut failed: Option<FrontOutcome> = None;
    loop {
        if res.len() == inputs.len() {
            break;
        }
        match rx.recv_timeout(limit) {
            Ok(l) => {
                if l.starts_with("W start") {
                    limit = Duration::from_secs(60);
                } else if l.starts_with("W done") {
                    limit = watchdog;
                } else if l.starts_with("S ") {
                    limit = watchdog;
                } else if let Some(rest) = l.strip_prefix("R ") {
                    let mut it = rest.splitn(2, ' ');
                    let _i = it.next();
                    let v: serde_json::Value =
                        serde_json::from_str(it.next().unwrap_or("null")).unwrap_or(serde_json::Value::Null);
                    res.push(FrontOutcome::Done(v));
                }
            }
            Err(mpsc::RecvTimeoutError::Timeout) => {
                let _ = ch.kill();
                failed = Some(FrontOutcome::Timeout);
                break;
            }
            Err(mpsc::RecvTimeoutError::Disconnected) => {
                break;
            }
        }
    }
    let _ = ch.kill();
    let st = ch.wait().ok();
    let _ = writer.join();
    let _ = reader.join();
    let err = errt.join().unwrap_or_default();
    if res.len() < inputs.len() {
        let f = failed.unwrap_or_else(|| {
            use std::os::unix::process::ExitStatusExt;
            let class = match st {
                Some(s) => match (s.signal(), s.code()) {
                    (Some(sig), _) => format!("signal{}", sig),
                    (_, Some(c)) => format!("exit{}", c),
                    _ => "unknown".into(),
                },
                None => "unknown".into(),
            };
            FrontOutcome::Crash(class, err.clone())
        });
        res.push(f);
    }
    res
}

#[derive(Clone)]
struct FrontCase {
    text: String,
    origin: String,
    prelude: bool,
}

/// Run all cases (parallel workers; a worker restarts its child after a failure).
fn run_front_all(cases: &[FrontCase], workers: usize, watchdog: Duration) -> Vec<FrontOutcome> {
    let n = cases.len();
    let mut results: Vec<Option<FrontOutcome>> = vec![None; n];
    let mut chunks: Vec<Vec<usize>> = vec![vec![]; workers * 2];
    let (mut a, mut b) = (0, 0);
    for (i, c) in cases.iter().enumerate() {
        if c.prelude {
            chunks[a % workers].push(i);
            a += 1;
        } else {
            chunks[workers + b % workers].push(i);
            b += 1;
        }
    }
    chunks.retain(|c| !c.is_empty());
    let (tx, rx) = mpsc::channel::<(usize, FrontOutcome)>();
    std::thread::scope(|sc| {
        for chunk in &chunks {
            let tx = tx.clone();
            sc.spawn(move || {
                let prelude = cases[chunk[0]].prelude;
                let mut at = 0;
                while at < chunk.len() {
                    let texts: Vec<String> = chunk[at..].iter().map(|i| cases[*i].text.clone()).collect();
                    let out = run_front_child(&texts, prelude, watchdog);
                    if out.is_empty() {
                        let _ = tx.send((chunk[at], FrontOutcome::Crash("nostart".into(), String::new())));
                        at += 1;
                        continue;
                    }
                    let k = out.len();
                    for (j, o) in out.into_iter().enumerate() {
                        let _ = tx.send((chunk[at + j], o));
                    }
                    at += k;
                }
            });
        }
        drop(tx);
        for (i, o) in rx {
            results[i] = Some(o);
        }
    });
    results
        .into_iter()
        .map(|o| o.unwrap_or(FrontOutcome::Crash("missing".into(), String::new())))
        .collect()
}

fn predicted_layout_hang(text: &str) -> bool {
    let toks = lex(text);
    matches!(run_real_layout(&toks, eof_for(text)).1, LayoutEnd::Hang)
}

/// Turn the outcome of one front-end case into oracle records / statistics.
/// Failures (timeout / crash) must already be confirmed by a solo re-run.
fn account_front(out: &mut Out, c: &FrontCase, o: &FrontOutcome, what: &str) {
    let replay = serde_json::json!({"kind": "text", "text": c.text, "prelude": c.prelude, "origin": c.origin});
    out.count(&format!("front:origin:{}", c.origin));
    match o {
        FrontOutcome::Done(v) => {
            let status: Vec<String> = v["status"]
                .as_array()
                .map(|a| a.iter().filter_map(|x| x.as_str().map(|s| s.to_string())).collect())
                .unwrap_or_default();
            for s in &status {
                out.count(&format!("front:{}", s));
            }
            let kinds: Vec<String> = v["kinds"]
                .as_array()
                .map(|a| a.iter().filter_map(|x| x.as_str().map(|s| s.to_string())).collect())
                .unwrap_or_default();
            for k in &kinds {
                out.count(&format!("front:error-kind:{}", k));
            }
            out.add("front:errors-checked", v["nerr"].as_u64().unwrap_or(0));
            if let Some(m) = v["variants"].as_object() {
                for (k, n) in m {
                    out.add(&format!("errvariant:{}", k), n.as_u64().unwrap_or(0));
                }
            }
            if let Some(ps) = v["problems"].as_array() {
                let mut seen = BTreeSet::new();
                for p in ps {
                    let fp = p[0].as_str().unwrap_or("?");
                    let d = p[1].as_str().unwrap_or("?");
                    if seen.insert(fp.to_string()) {
                        out.count(&format!("front:problem:{}", fp));
                        out.oracle_fail(fp, &d.chars().take(400).collect::<String>(), replay.clone());
                    }
                }
            }
            let toks = lex(&c.text);
            let ks: BTreeSet<K> = toks.iter().map(|t| t.k).collect();
            if ks.len() >= 2 {
                let shape: Vec<&str> = toks.iter().take(20).map(|t| t.k.name()).collect();
                out.class(format!("F:{:x}:{}:{}", fnv(&format!("{:?}", shape)), status.join(","), kinds.join(",")));
            }
            if (fnv(&c.text) % 97) == 0 {
                out.sample(serde_json::json!({"text": c.text.chars().take(200).collect::<String>(), "origin": c.origin, "result": v}));
            }
        }
        FrontOutcome::Timeout => {
            let fp = if predicted_layout_hang(&c.text) {
                "hang:layout:scan_continue_block".to_string()
            } else {
                format!("hang:front-end:{}", what)
            };
            out.count("front:timeout");
            out.oracle_fail(
                &fp,
                &format!("the front end did not return within the watchdog (5 s in a batch, then 60 s alone) on a {}-byte input ({})", c.text.len(), c.origin),
                replay,
            );
        }
        FrontOutcome::Crash(class, err) => {
            let so = err.contains("overflowed its stack");
            let fp = if so {
                // coarse call shape: mutual recursion groups (`rec`) vs everything else
                let has_rec = lex(&c.text).iter().any(|t| t.k == K::Rec);
                let has_forall = c.text.contains("forall");
                format!(
                    "stackoverflow:{}:{}",
                    what,
                    if has_rec {
                        "rec"
                    } else if has_forall {
                        "forall"
                    } else {
                        "plain"
                    }
                )
            } else {
                format!("abort:{}:{}", class, what)
            };
            out.count("front:crash");
            out.oracle_fail(
                &fp,
                &format!("the front end killed the process ({}) on a {}-byte input ({}): {}", class, c.text.len(), c.origin, err.chars().rev().take(200).collect::<String>().chars().rev().collect::<String>()),
                replay,
            );
        }
    }
}

/// Re-run a failed case alone (12x watchdog = 60 s: a valid program that imports much of std
/// needs ~7 s in this debug build on an idle machine, far more under load); returns the
/// confirmed outcome.
fn confirm(c: &FrontCase) -> FrontOutcome {
    let r = run_front_child(&[c.text.clone()], c.prelude, WATCHDOG * 12);
    r.into_iter().next().unwrap_or(FrontOutcome::Crash("nostart".into(), String::new()))
}

// ------------------------------------------------------------------------------------------
// Part 3: nesting probes
// ------------------------------------------------------------------------------------------

const SHAPES: &[&str] = &["paren", "array", "record", "lambda", "let-in", "let-seq", "app", "infix", "if", "match", "block-comment", "type-fn"];
const DEPTHS: &[usize] = &[10, 50, 100, 200, 500, 1000, 2000];

fn nest(shape: &str, d: usize) -> String {
    match shape {
        "paren" => format!("{}1{}", "(".repeat(d), ")".repeat(d)),
        "array" => format!("{}1{}", "[".repeat(d), "]".repeat(d)),
        "record" => format!("{}1{}", "{ a = ".repeat(d), " }".repeat(d)),
        "lambda" => format!("{}1", "\\x -> ".repeat(d)),
        "let-in" => format!("{}1{}", "let x = ".repeat(d), " in x".repeat(d)),
        "let-seq" => format!("{}x", "let x = 1\n".repeat(d)),
        "app" => format!("let f x = x\n{}1{}", "f (".repeat(d), ")".repeat(d)),
        "infix" => format!("1{}", " #Int+ 1".repeat(d)),
        "if" => format!("{}1{}", "if True then 1 else ".repeat(d), ""),
        "match" => format!("{}1", "match 1 with | _ -> ".repeat(d)),
        "block-comment" => format!("{}{} 1", "/* ".repeat(d), "*/ ".repeat(d)),
        "type-fn" => format!("let f x : {}Int = x\n1", "Int -> ".repeat(d)),
        _ => "1".into(),
    }
}

// ------------------------------------------------------------------------------------------

fn ltok_json(t: &LTok) -> serde_json::Value {
    serde_json::json!([t.k.name(), t.line, t.col, t.s, t.e])
}

fn kind_by_name(n: &str) -> K {
    const ALL: &[K] = &[
        K::Shebang, K::Doc, K::AttrOpen, K::Rec, K::Else, K::If, K::In, K::Let, K::Do, K::Seq, K::Match, K::Then,
        K::Type, K::With, K::Comma, K::Equals, K::Lambda, K::Pipe, K::RArrow, K::LBrace, K::LBracket, K::LParen,
        K::RBrace, K::RBracket, K::RParen, K::OpenBlock, K::CloseBlock, K::Semi, K::Eof, K::Other, K::LexErr,
    ];
    *ALL.iter().find(|k| k.name() == n).unwrap_or(&K::Other)
}

/// Parse `(k l c s e)` groups out of a request line (replay of layout cases).
fn parse_request(req: &str) -> Vec<LTok> {
    let mut v = vec![];
    for g in req.split('(').skip(1) {
        let g = g.trim().trim_end_matches(')').trim();
        let f: Vec<&str> = g.split_whitespace().collect();
        if f.len() == 5 {
            v.push(LTok {
                k: kind_by_name(f[0]),
                line: f[1].parse().unwrap_or(0),
                col: f[2].parse().unwrap_or(1),
                s: f[3].parse().unwrap_or(1),
                e: f[4].trim_end_matches(')').parse().unwrap_or(1),
            });
        }
    }
    v
}

fn replay(out: &mut Out, file: &std::path::Path) {
    let v: serde_json::Value = serde_json::from_str(&std::fs::read_to_string(file).expect("replay file")).expect("json");
    let case = if v.get("case").is_some() { v["case"].clone() } else { v.clone() };
    match case["kind"].as_str().unwrap_or("") {
        "lex" => {
            let text = case["text"].as_str().unwrap_or("");
            let r = toklex::run_real(text);
            println!("replay lex ({} bytes): panic={:?} fuel={} {}", text.len(), r.panic, r.fuel, r.payload);
            toklex::tok_case(out, text, "replay");
        }
        "layout" => {
            let mut toks = parse_request(case["request"].as_str().unwrap_or(""));
            let eof = toks.pop().expect("eof token");
            let end = layout_case(out, &toks, eof, "replay");
            println!("replay layout: {} tokens -> {:?}", toks.len(), end);
        }
        _ => {
            let c = FrontCase {
                text: case["text"].as_str().unwrap_or("").to_string(),
                origin: case["origin"].as_str().unwrap_or("replay").to_string(),
                prelude: case["prelude"].as_bool().unwrap_or(false),
            };
            let o = confirm(&c);
            println!("replay text ({} bytes, prelude={}): {:?}", c.text.len(), c.prelude, o);
            let what = case["what"].as_str().unwrap_or("replay").to_string();
            account_front(out, &c, &o, &what);
        }
    }
}

fn main() {
    let a: Vec<String> = std::env::args().collect();
    if a.len() >= 3 && a[1] == "--child" {
        match a[2].as_str() {
            "front" => child_front(a.get(3).map(|s| s == "1").unwrap_or(false)),
            _ => {}
        }
        return;
    }
    gv::quiet_panics();
    let args = Args::parse();
    let mut out = Out::new(&args.out);
    if let Some(f) = &args.replay {
        replay(&mut out, f);
        out.finish();
        return;
    }
    let thorough = args.thorough();
    let seeds = load_seeds();
    out.stats.insert("seed_files".into(), (seeds.texts.len() as u64).into());

    // ---- corpus: minimised past failures first ------------------------------------------------
    let mut corpus_cases: Vec<FrontCase> = vec![];
    if let Ok(rd) = std::fs::read_dir("/verif/corpus/C09") {
        let mut es: Vec<_> = rd.filter_map(|e| e.ok()).map(|e| e.path()).collect();
        es.sort();
        for p in es {
            if let Ok(s) = std::fs::read_to_string(&p) {
                if let Ok(v) = serde_json::from_str::<serde_json::Value>(&s) {
                    if v["kind"] == "text" {
                        corpus_cases.push(FrontCase {
                            text: v["text"].as_str().unwrap_or("").to_string(),
                            origin: "corpus".into(),
                            prelude: v["prelude"].as_bool().unwrap_or(false),
                        });
                    }
                }
            }
        }
    }

    // debugging aid: GV_C09_PART=lex runs only the tokenizer correspondence
    let only_lex = std::env::var("GV_C09_PART").map(|v| v == "lex").unwrap_or(false);

    // ---- Part 1: layout correspondence ----------------------------------------------------------
    let mut rng = Rng::new(args.seed, 901);
    if !only_lex {
    for c in &corpus_cases {
        layout_case(&mut out, &lex(&c.text), eof_for(&c.text), "corpus");
    }
    // every truncation of the small programs at a token boundary
    for p in SMALL {
        let toks = lex(p);
        for i in 0..=toks.len() {
            let cut = if i == toks.len() { p.len() } else { (toks[i].s - 1) as usize };
            let text = &p[..cut];
            layout_case(&mut out, &lex(text), eof_for(text), "small-truncation");
        }
    }
    let n_soup = if thorough { 40000 } else { 3000 };
    for _ in 0..n_soup {
        let ml = if rng.chance(1, 5) { 60 } else { 16 };
        let (t, e) = gen_soup(&mut rng, ml);
        layout_case(&mut out, &t, e, "soup");
    }
    let n_lexed = if thorough { 12000 } else { 1200 };
    let mut rng_t = Rng::new(args.seed, 902);
    for _ in 0..n_lexed {
        let (text, origin) = gen_text(&mut rng_t, &seeds);
        let text = clip(text);
        layout_case(&mut out, &lex(&text), eof_for(&text), &format!("text:{}", origin));
    }
    }

    // ---- Part 1b: tokenizer correspondence (real token.rs vs GluonModel.Tokenizer) -------------
    for c in &corpus_cases {
        toklex::tok_case(&mut out, &c.text, "corpus");
    }
    for p in SMALL {
        toklex::tok_case(&mut out, p, "small");
    }
    for w in ["", "#!", "r", "r#", "'", "\"", "/*", "/**/", "0x", "-", "7T", "'a\u{e9}", "\u{e9}", "#foo+ bar"] {
        toklex::tok_case(&mut out, w, "fixed");
    }
    let n_lex = if thorough { 40000 } else { 3000 };
    let mut rng_l = Rng::new(args.seed, 905);
    for i in 0..n_lex {
        if i % 8 == 7 {
            // the texts of the front-end oracle (seed programs, their mutations, random bytes)
            let (text, _) = gen_text(&mut rng_l, &seeds);
            toklex::tok_case(&mut out, &clip(text), "front-end-text");
        } else {
            let (text, origin) = toklex::gen_lex_text(&mut rng_l);
            toklex::tok_case(&mut out, &clip(text), origin);
        }
    }

    if only_lex {
        out.finish();
        return;
    }

    // ---- Part 2: front-end oracle ---------------------------------------------------------------
    let n_front = if thorough { 12000 } else { 900 };
    let mut rng_f = Rng::new(args.seed, 903);
    let mut cases: Vec<FrontCase> = vec![];
    let mut predicted: Vec<FrontCase> = vec![];
    for c in &corpus_cases {
        if predicted_layout_hang(&c.text) {
            predicted.push(c.clone());
        } else {
            cases.push(c.clone());
        }
    }
    for p in SMALL {
        cases.push(FrontCase { text: p.to_string(), origin: "small".into(), prelude: false });
    }
    for _ in 0..n_front {
        let (text, origin) = gen_text(&mut rng_f, &seeds);
        let text = clip(text);
        let c = FrontCase { text, origin: origin.to_string(), prelude: rng_f.chance(1, 3) };
        if predicted_layout_hang(&c.text) {
            predicted.push(c);
        } else {
            cases.push(c);
        }
    }
    // error-path family (per error variant a generator of ill-formed programs)
    let n_err = if thorough { 6000 } else { 700 };
    let mut rng_e = Rng::new(args.seed, 904);
    for _ in 0..n_err {
        let (text, fam, prelude) = gen_error_program(&mut rng_e);
        cases.push(FrontCase { text: clip(text), origin: fam, prelude });
    }
    let workers = std::thread::available_parallelism().map(|n| n.get()).unwrap_or(4).min(8).max(2);
    let t0 = Instant::now();
    let results = run_front_all(&cases, workers, WATCHDOG);
    let mut confirmed = 0;
    for (c, o) in cases.iter().zip(results.iter()) {
        match o {
            FrontOutcome::Done(_) => account_front(&mut out, c, o, "fuzz"),
            _ => {
                // a failure is only reported when it reproduces alone
                if confirmed >= 12 {
                    out.count("skipped:failure-not-confirmed");
                    continue;
                }
                let o2 = confirm(c);
                confirmed += 1;
                match (&o2, o) {
                    (FrontOutcome::Done(_), _) => {
                        out.count("front:failure-not-reproduced");
                        account_front(&mut out, c, &o2, "fuzz");
                    }
                    _ => account_front(&mut out, c, &o2, "fuzz"),
                }
            }
        }
    }
    // inputs on which the real Layout (run in-process on the lexed tokens) already showed the
    // endless scan: confirm a few on the real front end, count the rest
    out.add("front:predicted-layout-hang", predicted.len() as u64);
    for c in predicted.iter().take(if thorough { 4 } else { 1 }) {
        let o = run_front_child(&[c.text.clone()], c.prelude, WATCHDOG)
            .into_iter()
            .next()
            .unwrap_or(FrontOutcome::Crash("nostart".into(), String::new()));
        account_front(&mut out, c, &o, "fuzz");
    }
    out.add("skipped:predicted-layout-hang-not-rerun", predicted.len().saturating_sub(if thorough { 4 } else { 1 }) as u64);
    out.stats.insert("front_wall_ms".into(), (t0.elapsed().as_millis() as u64).into());

    // ---- Part 3: nesting probes -----------------------------------------------------------------
    let mut depth_report = serde_json::Map::new();
    let shape_results: Vec<(String, Vec<(usize, FrontOutcome)>)> = std::thread::scope(|sc| {
        let hs: Vec<_> = SHAPES
            .iter()
            .map(|shape| {
                sc.spawn(move || {
                    let mut res = vec![];
                    let ds: Vec<usize> = DEPTHS.iter().cloned().filter(|d| nest(shape, *d).len() <= 4096).collect();
                    let mut at = 0;
                    while at < ds.len() {
                        let texts: Vec<String> = ds[at..].iter().map(|d| nest(shape, *d)).collect();
                        let o = run_front_child(&texts, false, WATCHDOG * 4);
                        if o.is_empty() {
                            break;
                        }
                        let k = o.len();
                        for (j, x) in o.into_iter().enumerate() {
                            res.push((ds[at + j], x));
                        }
                        at += k;
                    }
                    (shape.to_string(), res)
                })
            })
            .collect();
        hs.into_iter().map(|h| h.join().unwrap()).collect()
    });
    for (shape, res) in shape_results {
        let mut line = vec![];
        for (d, o) in res {
            let c = FrontCase { text: nest(&shape, d), origin: format!("depth:{}:{}", shape, d), prelude: false };
            match &o {
                FrontOutcome::Done(v) => {
                    line.push(format!("{}:ok", d));
                    out.count("depth:returned");
                    if let Some(ps) = v["problems"].as_array() {
                        for p in ps {
                            out.oracle_fail(
                                p[0].as_str().unwrap_or("?"),
                                p[1].as_str().unwrap_or("?"),
                                serde_json::json!({"kind": "text", "text": c.text, "prelude": false, "origin": c.origin}),
                            );
                        }
                    }
                    out.class(format!("D:{}:{}:ok", shape, d));
                }
                FrontOutcome::Timeout => {
                    line.push(format!("{}:timeout", d));
                    if d <= 200 {
                        account_front(&mut out, &c, &o, &format!("{}:moderate-depth", shape));
                    } else {
                        out.count(&format!("depth:recorded-only:timeout:{}", shape));
                    }
                }
                FrontOutcome::Crash(class, err) => {
                    let so = err.contains("overflowed its stack");
                    line.push(format!("{}:{}", d, if so { "stack-overflow".to_string() } else { class.clone() }));
                    if d <= 200 {
                        account_front(&mut out, &c, &o, &format!("{}:moderate-depth", shape));
                    } else {
                        out.count(&format!("depth:recorded-only:{}:{}", if so { "stack-overflow" } else { "crash" }, shape));
                    }
                    out.class(format!("D:{}:{}:crash", shape, d));
                }
            }
        }
        depth_report.insert(shape, serde_json::Value::String(line.join(" ")));
    }
    out.stats.insert("depth_probes".into(), serde_json::Value::Object(depth_report));
    let unreached: Vec<serde_json::Value> = EXPECTED_VARIANTS
        .iter()
        .filter(|v| !NEVER_CONSTRUCTED.contains(v))
        .filter(|v| !out.stats.contains_key(&format!("errvariant:{}", v)))
        .map(|v| serde_json::Value::String(v.to_string()))
        .collect();
    out.stats.insert("unreached_error_variants".into(), serde_json::Value::Array(unreached));
    out.stats.insert(
        "never_constructed_error_variants".into(),
        serde_json::Value::Array(NEVER_CONSTRUCTED.iter().map(|v| serde_json::Value::String(v.to_string())).collect()),
    );
    out.finish();
}
