//! C09 — the front end is total.
//!
//! Three parts, all driven by `--seed`:
//!  1. **Layout correspondence.**  The REAL `/repo/parser/src/layout.rs` is compiled into this
//!     binary with `#[path]` (the module is private in gluon_parser; `crate::base`, `crate::token`,
//!     `crate::Error`, `debug!`, `quick_error!` are supplied by small shims below, so no hook in
//!     /repo is needed and any edit of layout.rs is picked up by the next `cargo build`).  Token
//!     streams (kind + line/column/absolute) are fed to `Layout` exactly like the `Tokenizer`
//!     feeds it (EOF for ever after the last token) and to the Lean model `LayoutAlgo.layout`.
//!  2. **Front-end oracle** (model independent): random bytes / UTF-8, token soups with random
//!     indentation and grammar-aware mutations of real programs, ≤ 4 KiB, through
//!     `parse_partial_expr` and `typecheck_str` in child processes with a per-input watchdog;
//!     every error is rendered (`emit_string` + `Display`) and every span is checked to lie in
//!     its file on char boundaries.
//!  3. **Nesting probes** 10…2000 in child processes running on an ordinary 8 MB main stack.
#![allow(dead_code, unused_macros, unused_imports, unused_variables)]

extern crate gluon_base as base;

macro_rules! debug {
    ($($t:tt)*) => {{}};
}
// Shim for the single use of `quick_error!` in layout.rs (unit variants with a display string).
macro_rules! quick_error {
    ( $(#[$m:meta])* pub enum $name:ident { $( $v:ident { display($s:expr) } )* } ) => {
        $(#[$m])*
        pub enum $name { $( $v ),* }
        impl std::fmt::Display for $name {
            fn fmt(&self, f: &mut std::fmt::Formatter) -> std::fmt::Result {
                match self { $( $name::$v => write!(f, $s) ),* }
            }
        }
    };
}

/// What layout.rs imports from `crate::token` (parser/src/token.rs:234-238).
pub mod token {
    use crate::base::pos::{Location, Spanned};
    pub use gluon_parser::Token;
    pub use gluon_parser::TokenizeError as Error;
    pub type BorrowedToken<'input> = Token<&'input str>;
    pub type SpannedToken<'input> = Spanned<Token<&'input str>, Location>;
    pub type SpError = Spanned<Error, Location>;
    pub type Result<T, E = SpError> = std::result::Result<T, E>;
}

/// What layout.rs needs from `crate::Error` (parser/src/lib.rs:145): `From` both error types.
#[derive(Debug)]
pub enum Error {
    Token(token::Error),
    Layout(layout::Error),
}
impl From<token::Error> for Error {
    fn from(e: token::Error) -> Error {
        Error::Token(e)
    }
}
impl From<layout::Error> for Error {
    fn from(e: layout::Error) -> Error {
        Error::Layout(e)
    }
}

#[path = "/repo/parser/src/layout.rs"]
mod layout;

use base::metadata::{Comment, CommentType};
use base::pos::{self, BytePos, Column, Line, Location, Span, Spanned};
use gluon::ThreadExt;
use gv::rng::Rng;
use gv::{quote, Args, Out};
use std::collections::{BTreeMap, BTreeSet};
use std::io::{BufRead, BufReader, Read, Write};
use std::process::{Command, Stdio};
use std::sync::mpsc;
use std::time::{Duration, Instant};
use token::Token;

// ------------------------------------------------------------------------------------------
// Token kinds (names = constructors of `GluonModel.LayoutAlgo.Kind`)
// ------------------------------------------------------------------------------------------

#[derive(Clone, Copy, Debug, PartialEq, Eq, PartialOrd, Ord)]
enum K {
    Shebang,
    Doc,
    AttrOpen,
    Rec,
    Else,
    If,
    In,
    Let,
    Do,
    Seq,
    Match,
    Then,
    Type,
    With,
    Comma,
    Equals,
    Lambda,
    Pipe,
    RArrow,
    LBrace,
    LBracket,
    LParen,
    RBrace,
    RBracket,
    RParen,
    OpenBlock,
    CloseBlock,
    Semi,
    Eof,
    Other,
    LexErr,
}

impl K {
    fn name(self) -> &'static str {
        match self {
            K::Shebang => "shebang",
            K::Doc => "doc",
            K::AttrOpen => "attrOpen",
            K::Rec => "rec",
            K::Else => "else",
            K::If => "if",
            K::In => "in",
            K::Let => "let",
            K::Do => "do",
            K::Seq => "seq",
            K::Match => "match",
            K::Then => "then",
            K::Type => "type",
            K::With => "with",
            K::Comma => "comma",
            K::Equals => "equals",
            K::Lambda => "lambda",
            K::Pipe => "pipe",
            K::RArrow => "rarrow",
            K::LBrace => "lbrace",
            K::LBracket => "lbracket",
            K::LParen => "lparen",
            K::RBrace => "rbrace",
            K::RBracket => "rbracket",
            K::RParen => "rparen",
            K::OpenBlock => "openBlock",
            K::CloseBlock => "closeBlock",
            K::Semi => "semi",
            K::Eof => "eof",
            K::Other => "other",
            K::LexErr => "lexErr",
        }
    }
    fn token(self) -> Token<&'static str> {
        match self {
            K::Shebang => Token::ShebangLine(""),
            K::Doc => Token::DocComment(Comment {
                typ: CommentType::Line,
                content: "",
            }),
            K::AttrOpen => Token::AttributeOpen,
            K::Rec => Token::Rec,
            K::Else => Token::Else,
            K::If => Token::If,
            K::In => Token::In,
            K::Let => Token::Let,
            K::Do => Token::Do,
            K::Seq => Token::Seq,
            K::Match => Token::Match,
            K::Then => Token::Then,
            K::Type => Token::Type,
            K::With => Token::With,
            K::Comma => Token::Comma,
            K::Equals => Token::Equals,
            K::Lambda => Token::Lambda,
            K::Pipe => Token::Pipe,
            K::RArrow => Token::RArrow,
            K::LBrace => Token::LBrace,
            K::LBracket => Token::LBracket,
            K::LParen => Token::LParen,
            K::RBrace => Token::RBrace,
            K::RBracket => Token::RBracket,
            K::RParen => Token::RParen,
            K::OpenBlock => Token::OpenBlock,
            K::CloseBlock => Token::CloseBlock,
            K::Semi => Token::Semi,
            K::Eof => Token::EOF,
            K::Other | K::LexErr => Token::Identifier("x"),
        }
    }
    fn of(t: &Token<&str>) -> K {
        match t {
            Token::ShebangLine(_) => K::Shebang,
            Token::DocComment(_) => K::Doc,
            Token::AttributeOpen => K::AttrOpen,
            Token::Rec => K::Rec,
            Token::Else => K::Else,
            Token::If => K::If,
            Token::In => K::In,
            Token::Let => K::Let,
            Token::Do => K::Do,
            Token::Seq => K::Seq,
            Token::Match => K::Match,
            Token::Then => K::Then,
            Token::Type => K::Type,
            Token::With => K::With,
            Token::Comma => K::Comma,
            Token::Equals => K::Equals,
            Token::Lambda => K::Lambda,
            Token::Pipe => K::Pipe,
            Token::RArrow => K::RArrow,
            Token::LBrace => K::LBrace,
            Token::LBracket => K::LBracket,
            Token::LParen => K::LParen,
            Token::RBrace => K::RBrace,
            Token::RBracket => K::RBracket,
            Token::RParen => K::RParen,
            Token::OpenBlock => K::OpenBlock,
            Token::CloseBlock => K::CloseBlock,
            Token::Semi => K::Semi,
            Token::EOF => K::Eof,
            _ => K::Other,
        }
    }
}

/// A token as the layout algorithm sees it: kind, start (line, column, absolute), absolute end.
#[derive(Clone, Copy, Debug, PartialEq)]
struct LTok {
    k: K,
    line: u32,
    col: u32,
    s: u32,
    e: u32,
}

impl LTok {
    fn sexp(&self) -> String {
        format!("({} {} {} {} {})", self.k.name(), self.line, self.col, self.s, self.e)
    }
    fn start(&self) -> Location {
        Location {
            line: Line::from(self.line),
            column: Column::from(self.col),
            absolute: BytePos::from(self.s),
        }
    }
    fn end(&self) -> Location {
        Location {
            line: Line::from(self.line),
            column: Column::from(self.col + (self.e - self.s)),
            absolute: BytePos::from(self.e),
        }
    }
}

// ------------------------------------------------------------------------------------------
// Part 1: the real Layout on a token stream
// ------------------------------------------------------------------------------------------

/// How many EOFs the feed hands out before it gives up with the marker error.  The real
/// `Tokenizer` hands out EOF for ever (token.rs:847); `Layout` asks for at most a handful unless
/// `scan_continue_block` is in its endless loop.
const EOF_LIMIT: usize = 64;

struct Feed<'a> {
    toks: &'a [LTok],
    eof: LTok,
    i: usize,
    eofs: usize,
}

impl<'a> Iterator for Feed<'a> {
    type Item = token::Result<token::SpannedToken<'static>>;
    fn next(&mut self) -> Option<Self::Item> {
        if self.i < self.toks.len() {
            let t = self.toks[self.i];
            self.i += 1;
            if t.k == K::LexErr {
                return Some(Err(pos::spanned2(
                    t.start(),
                    t.end(),
                    token::Error::UnterminatedStringLiteral,
                )));
            }
            return Some(Ok(pos::spanned2(t.start(), t.end(), t.k.token())));
        }
        self.eofs += 1;
        if self.eofs > EOF_LIMIT {
            let l = self.eof.start();
            return Some(Err(pos::spanned2(l, l, token::Error::UnexpectedEof)));
        }
        let l = self.eof.start();
        Some(Ok(pos::spanned2(l, l, Token::EOF)))
    }
}

#[derive(Debug, Clone, PartialEq)]
enum LayoutEnd {
    Ok,
    Unindented(u32),
    Lex(u32, u32),
    Hang,
    Panic(String),
    Fuel,
}

/// The bound proved in Lean (`layout_total`: at most 40n+7 calls of layout_next_token for n
/// input tokens); a real Layout that needs more is a violation (`hang:layout:unbounded-output`).
fn layout_fuel(n: usize) -> usize {
    40 * n + 7
}

fn run_real_layout(toks: &[LTok], eof: LTok) -> (Vec<(K, u32, u32)>, LayoutEnd) {
    let fuel = layout_fuel(toks.len());
    let mut outv = vec![];
    let res = gv::catch(|| {
        let feed = Feed {
            toks,
            eof,
            i: 0,
            eofs: 0,
        };
        let mut l = layout::Layout::new(feed);
        let mut v = vec![];
        for _ in 0..fuel {
            match l.next() {
                None => return (v, LayoutEnd::Ok),
                Some(Ok((s, t, e))) => v.push((K::of(&t), s.to_usize() as u32, e.to_usize() as u32)),
                Some(Err(sp)) => {
                    let end = match sp.value {
                        Error::Layout(layout::Error::UnindentedTooFar) => {
                            LayoutEnd::Unindented(sp.span.start().to_usize() as u32)
                        }
                        Error::Token(token::Error::UnexpectedEof) => LayoutEnd::Hang,
                        Error::Token(_) => LayoutEnd::Lex(
                            sp.span.start().to_usize() as u32,
                            sp.span.end().to_usize() as u32,
                        ),
                    };
                    return (v, end);
                }
            }
        }
        (v, LayoutEnd::Fuel)
    });
    match res {
        Ok((v, e)) => {
            outv = v;
            (outv, e)
        }
        Err(p) => (outv, LayoutEnd::Panic(p)),
    }
}

fn layout_case(out: &mut Out, toks: &[LTok], eof: LTok, origin: &str) -> LayoutEnd {
    let mut req = format!("layout {}", layout_fuel(toks.len()));
    for t in toks {
        req.push(' ');
        req.push_str(&t.sexp());
    }
    req.push(' ');
    req.push_str(&eof.sexp());
    let (v, end) = run_real_layout(toks, eof);
    let endtxt = match &end {
        LayoutEnd::Ok => "ok".to_string(),
        LayoutEnd::Unindented(a) => format!("(err unindented {})", a),
        LayoutEnd::Lex(s, e) => format!("(err lex {} {})", s, e),
        LayoutEnd::Hang => "hang".to_string(),
        LayoutEnd::Panic(_) => "panic".to_string(),
        LayoutEnd::Fuel => "fuel".to_string(),
    };
    let mut payload = format!("({}", endtxt);
    for (k, s, e) in &v {
        payload.push_str(&format!(" ({} {} {})", k.name(), s, e));
    }
    payload.push(')');
    // Property oracle at this level (independent of the model): returns, no panic, and every
    // emitted token / error carries the span of some input token.
    let replay = serde_json::json!({"kind": "layout", "request": req});
    match &end {
        LayoutEnd::Hang => out.oracle_fail(
            "hang:layout:scan_continue_block",
            "Layout::scan_continue_block did not return within 64 EOFs of look-ahead (regression of commit 3521415: inside `rec`, an attribute not closed before the end of input made the `for i in 0..` loop peek EOF for ever)",
            replay.clone(),
        ),
        LayoutEnd::Panic(p) => out.oracle_fail(
            &format!("panic:layout:{}", short(p)),
            &format!("Layout panicked: {}", p),
            replay.clone(),
        ),
        LayoutEnd::Fuel => out.oracle_fail(
            "hang:layout:unbounded-output",
            "Layout produced more than 40n+7 tokens for n input tokens (the bound proved for the model)",
            replay.clone(),
        ),
        _ => {}
    }
    let spans: BTreeSet<(u32, u32)> = toks.iter().chain(Some(&eof)).map(|t| (t.s, t.e)).collect();
    if v.iter().any(|(_, s, e)| !spans.contains(&(*s, *e))) {
        out.oracle_fail(
            "span:layout:token",
            "Layout emitted a token whose span is not the span of an input token",
            replay.clone(),
        );
    }
    if let LayoutEnd::Unindented(a) = end {
        if !toks.iter().chain(Some(&eof)).any(|t| t.s == a) {
            out.oracle_fail(
                "span:layout:unindented",
                "UnindentedTooFar reported at a position that is not the start of a token",
                replay.clone(),
            );
        }
    }
    out.count(&format!("layout:end:{}", endtxt.split(' ').next().unwrap().trim_matches('(')));
    out.count(&format!("layout:origin:{}", origin));
    // statistics for `layout_blocks_covered` (not an oracle: the property does not speak of blocks)
    {
        let (mut o, mut c, mut early) = (0i64, 0i64, false);
        for (k, _, _) in &v {
            match k {
                K::OpenBlock => o += 1,
                K::CloseBlock => c += 1,
                _ => {}
            }
            if c > o {
                early = true;
            }
        }
        if early {
            out.count("layout:blocks:close-emitted-before-its-queued-open");
        }
        if matches!(end, LayoutEnd::Ok) {
            out.count(if c <= o { "layout:blocks:final-closes<=opens" } else { "layout:blocks:final-closes>opens" });
        }
        if v.len() > 5 * toks.len().max(1) + 2 {
            out.count("layout:output>5n+2");
        }
    }
    let inserted: BTreeSet<&str> = v
        .iter()
        .zip(0..)
        .filter(|((k, _, _), _)| matches!(k, K::OpenBlock | K::CloseBlock | K::Semi | K::In))
        .map(|((k, _, _), _)| k.name())
        .collect();
    let kinds: BTreeSet<K> = toks.iter().map(|t| t.k).collect();
    if kinds.len() >= 2 && toks.len() >= 3 {
        let shape: Vec<&str> = toks.iter().take(24).map(|t| t.k.name()).collect();
        let cols: Vec<u32> = toks.iter().take(24).map(|t| t.col.min(9)).collect();
        out.class(format!("L:{:x}:{}", fnv(&format!("{:?}{:?}", shape, cols)), endtxt));
    }
    for k in &inserted {
        out.count(&format!("layout:inserted:{}", k));
    }
    if out.n_cases % 997 == 3 {
        out.sample(serde_json::json!({"request": req.chars().take(400).collect::<String>(), "impl": payload.chars().take(400).collect::<String>()}));
    }
    out.case(&req, &payload);
    end
}

fn fnv(s: &str) -> u64 {
    let mut h = 0xcbf29ce484222325u64;
    for b in s.bytes() {
        h ^= b as u64;
        h = h.wrapping_mul(0x100000001b3);
    }
    h
}

fn short(p: &str) -> String {
    let s: String = p
        .chars()
        .filter(|c| c.is_ascii_alphanumeric() || *c == ' ' || *c == '_')
        .take(48)
        .collect();
    s.trim().replace(' ', "_")
}

// ------------------------------------------------------------------------------------------
// A lexer good enough to get kinds + positions of real programs (positions follow
// token.rs `CharLocations`: line 0-based, column 1-based in bytes, absolute = 1 + byte offset).
// It also yields the byte range of every token, which the text mutators use.
// ------------------------------------------------------------------------------------------

fn lex(src: &str) -> Vec<LTok> {
    let b = src.as_bytes();
    let n = b.len();
    // line / column of each byte offset
    let mut line = vec![0u32; n + 1];
    let mut col = vec![1u32; n + 1];
    let (mut l, mut c) = (0u32, 1u32);
    for i in 0..n {
        line[i] = l;
        col[i] = c;
        if b[i] == b'\n' {
            l += 1;
            c = 1;
        } else {
            c += 1;
        }
    }
    line[n] = l;
    col[n] = c;
    let mut v = vec![];
    let mut i = 0;
    let is_id0 = |c: u8| c == b'_' || c.is_ascii_alphabetic();
    let is_id = |c: u8| c == b'_' || c.is_ascii_alphanumeric() || c == b'\'';
    let mut push = |k: K, s: usize, e: usize, v: &mut Vec<LTok>| {
        v.push(LTok {
            k,
            line: line[s],
            col: col[s],
            s: s as u32 + 1,
            e: e as u32 + 1,
        })
    };
    while i < n {
        let c = b[i];
        let s = i;
        match c {
            b',' => {
                i += 1;
                push(K::Comma, s, i, &mut v)
            }
            b'\\' => {
                i += 1;
                push(K::Lambda, s, i, &mut v)
            }
            b'{' => {
                i += 1;
                push(K::LBrace, s, i, &mut v)
            }
            b'[' => {
                i += 1;
                push(K::LBracket, s, i, &mut v)
            }
            b'(' => {
                i += 1;
                push(K::LParen, s, i, &mut v)
            }
            b'}' => {
                i += 1;
                push(K::RBrace, s, i, &mut v)
            }
            b']' => {
                i += 1;
                push(K::RBracket, s, i, &mut v)
            }
            b')' => {
                i += 1;
                push(K::RParen, s, i, &mut v)
            }
            b'?' => {
                i += 1;
                push(K::Other, s, i, &mut v)
            }
            b'"' => {
                i += 1;
                while i < n && b[i] != b'"' {
                    if b[i] == b'\\' {
                        i += 1;
                    }
                    i += 1;
                }
                i = (i + 1).min(n);
                push(K::Other, s, i, &mut v)
            }
            b'r' if i + 1 < n && (b[i + 1] == b'"' || b[i + 1] == b'#') => {
                let mut j = i + 1;
                let mut d = 0;
                while j < n && b[j] == b'#' {
                    d += 1;
                    j += 1;
                }
                if j < n && b[j] == b'"' {
                    j += 1;
                    // find `"` followed by d `#`
                    let mut end = n;
                    let mut k = j;
                    while k < n {
                        if b[k] == b'"' && k + d < n + 0 && b[k + 1..].len() >= d && b[k + 1..k + 1 + d].iter().all(|x| *x == b'#') {
                            end = k + 1 + d;
                            break;
                        }
                        k += 1;
                    }
                    i = end;
                    push(K::Other, s, i, &mut v)
                } else {
                    // `r#x`: the tokenizer reports InvalidRawStringDelimiter as an Err item
                    push(K::LexErr, s, j.min(n), &mut v);
                    i = n;
                }
            }
            b'\'' => {
                i += 1;
                if i < n && b[i] == b'\\' {
                    i += 1;
                }
                i = (i + 1).min(n);
                if i < n && b[i] == b'\'' {
                    i += 1;
                }
                push(K::Other, s, i, &mut v)
            }
            b'/' if i + 1 < n && b[i + 1] == b'/' => {
                while i < n && b[i] != b'\n' {
                    i += 1;
                }
                if src[s..i].starts_with("///") {
                    push(K::Doc, s, i, &mut v)
                }
            }
            b'/' if i + 1 < n && b[i + 1] == b'*' => {
                let mut j = i + 2;
                let mut closed = false;
                while j + 1 < n {
                    if b[j] == b'*' && b[j + 1] == b'/' {
                        closed = true;
                        break;
                    }
                    j += 1;
                }
                if closed {
                    i = j + 2;
                    if src[s..i].starts_with("/**") && i - s > 5 {
                        push(K::Doc, s, i, &mut v)
                    }
                } else {
                    push(K::LexErr, n, n, &mut v);
                    i = n;
                }
            }
            b'#' if i == 0 && i + 1 < n && b[i + 1] == b'!' => {
                while i < n && b[i] != b'\n' {
                    i += 1;
                }
                push(K::Shebang, s, i, &mut v)
            }
            b'#' if i + 1 < n && b[i + 1] == b'[' => {
                i += 2;
                push(K::AttrOpen, s, i, &mut v)
            }
            c if is_id0(c) => {
                while i < n && is_id(b[i]) {
                    i += 1;
                }
                if i < n && b[i] == b'!' {
                    i += 1;
                }
                let k = match &src[s..i] {
                    "rec" => K::Rec,
                    "else" => K::Else,
                    "if" => K::If,
                    "in" => K::In,
                    "let" => K::Let,
                    "do" => K::Do,
                    "seq" => K::Seq,
                    "match" => K::Match,
                    "then" => K::Then,
                    "type" => K::Type,
                    "with" => K::With,
                    _ => K::Other,
                };
                push(k, s, i, &mut v)
            }
            c if c.is_ascii_digit() || (c == b'-' && i + 1 < n && b[i + 1].is_ascii_digit()) => {
                i += 1;
                while i < n && (b[i].is_ascii_alphanumeric() || b[i] == b'.') {
                    i += 1;
                }
                push(K::Other, s, i, &mut v)
            }
            c if base::ast::is_operator_byte(c) => {
                while i < n && base::ast::is_operator_byte(b[i]) {
                    i += 1;
                }
                let k = match &src[s..i] {
                    "=" => K::Equals,
                    "|" => K::Pipe,
                    "->" => K::RArrow,
                    _ => K::Other,
                };
                push(k, s, i, &mut v)
            }
            _ => {
                i += 1;
            }
        }
    }
    v
}

fn eof_for(src: &str) -> LTok {
    let mut l = 0u32;
    let mut c = 1u32;
    for b in src.bytes() {
        if b == b'\n' {
            l += 1;
            c = 1;
        } else {
            c += 1;
        }
    }
    let a = src.len() as u32 + 1;
    LTok {
        k: K::Eof,
        line: l,
        col: c,
        s: a,
        e: a,
    }
}

// ------------------------------------------------------------------------------------------
// Generators
// ------------------------------------------------------------------------------------------

const SOUP_KINDS: &[(K, u32)] = &[
    (K::Other, 30),
    (K::Let, 10),
    (K::Equals, 10),
    (K::In, 5),
    (K::Rec, 4),
    (K::Type, 4),
    (K::If, 3),
    (K::Then, 3),
    (K::Else, 3),
    (K::Match, 3),
    (K::With, 3),
    (K::Pipe, 4),
    (K::RArrow, 5),
    (K::Lambda, 3),
    (K::Do, 2),
    (K::Seq, 1),
    (K::Comma, 4),
    (K::LBrace, 3),
    (K::RBrace, 3),
    (K::LParen, 3),
    (K::RParen, 3),
    (K::LBracket, 2),
    (K::RBracket, 3),
    (K::AttrOpen, 3),
    (K::Doc, 2),
    (K::LexErr, 1),
];

fn pick_kind(rng: &mut Rng, table: &[(K, u32)]) -> K {
    let total: u32 = table.iter().map(|x| x.1).sum();
    let mut r = rng.below(total as u64) as u32;
    for (k, w) in table {
        if r < *w {
            return *k;
        }
        r -= *w;
    }
    K::Other
}

/// Random token soup laid out with random indentation (a few indentation levels re-used, so
/// that Less / Equal / Greater against the enclosing contexts all occur).
fn gen_soup(rng: &mut Rng, max_len: usize) -> (Vec<LTok>, LTok) {
    let n = 1 + rng.below(max_len as u64) as usize;
    let levels: Vec<u32> = (0..4).map(|_| 1 + rng.below(10) as u32).collect();
    let small: Vec<(K, u32)> = {
        // a biased sub-alphabet makes deep states likelier than the uniform soup
        let mut t: Vec<(K, u32)> = SOUP_KINDS.to_vec();
        for e in t.iter_mut() {
            if rng.chance(1, 2) {
                e.1 = if e.0 == K::Other { 10 } else { 0 };
            }
        }
        t
    };
    let table: &[(K, u32)] = if rng.chance(1, 2) { SOUP_KINDS } else { &small };
    let (mut line, mut col, mut abs) = (0u32, *rng.pick(&levels), 1u32);
    if rng.chance(1, 3) {
        col = 1;
    }
    abs += col - 1;
    let mut v = vec![];
    if rng.chance(1, 40) {
        v.push(LTok {
            k: K::Shebang,
            line,
            col: 1,
            s: 1,
            e: 4,
        });
        line += 1;
        abs = 5 + col - 1;
    }
    for _ in 0..n {
        let k = pick_kind(rng, table);
        let w = 1 + rng.below(3) as u32;
        v.push(LTok {
            k,
            line,
            col,
            s: abs,
            e: abs + w,
        });
        if k == K::LexErr {
            break;
        }
        if rng.chance(1, 3) || k == K::Doc {
            line += 1;
            let c = if rng.chance(3, 4) {
                *rng.pick(&levels)
            } else {
                1 + rng.below(14) as u32
            };
            abs += w + 1 + (c - 1);
            col = c;
        } else {
            let sp = rng.below(2) as u32;
            col += w + sp;
            abs += w + sp;
        }
    }
    let eof = if rng.chance(1, 2) {
        LTok {
            k: K::Eof,
            line,
            col,
            s: abs,
            e: abs,
        }
    } else {
        LTok {
            k: K::Eof,
            line: line + 1,
            col: 1,
            s: abs + 1,
            e: abs + 1,
        }
    };
    (v, eof)
}

/// Hand-written programs covering every construct the layout algorithm distinguishes.
const SMALL: &[&str] = &[
    "let x = 1\nx",
    "let x = 1 in x",
    "let f x y =\n    let z = x\n    z\nf 1 2",
    "rec let f x = g x\nlet g x = f x\nf",
    "rec\nlet f x = g x\nlet g x = f x\nin f",
    "rec\n    #[inline]\n    let f x = 1\n    #[inline]\n    let g x = 2\nf",
    "type T = | A Int | B\nlet x = A 1\nmatch x with\n| A y -> y\n| B -> 0",
    "rec type A = { b : B }\ntype B = { a : Option A }\nin 1",
    "if x then\n    1\nelse if y then\n    2\nelse\n    3",
    "if x then 1 else 2",
    "let { a, b } = { a = 1, b = \"s\" }\na",
    "do x = Some 1\nseq f x\nlet y = x\nwrap y",
    "\\x y -> x #Int+ y",
    "let f = \\x ->\n        x\n    1\nf",
    "match x with\n| Some y ->\n    let z = y\n    z\n| None -> 0",
    "{ x = 1, y = { z = [1, 2, 3] }, f = \\a -> a }",
    "#[infix(left, 6)]\nlet (+) = (+)\n1 + 2 * 3",
    "/// doc\nlet x = 1\n/** block doc */\nlet y = 2\n// c\nx /* c */ + y",
    "#!/bin/gluon\nlet x = 1\nx",
    "let x =\n1\nx",
    "let io @ { ? } = import! std.io\nio.println \"a\"",
    "type Option a = | Some a | None\nlet map f x : (a -> b) -> Option a -> Option b =\n    match x with\n    | Some y -> Some (f y)\n    | None -> None\n{ Option, map }",
    "let x = (1, 'c', 2.0, 3b, r#\"raw\"#)\nx",
    "let f x : forall a . a -> a = x\nf",
    "(1 + 2",
    "let x = in",
    "rec let x = 1\n#[a]\nlet y = 2\nx",
];

struct Seeds {
    texts: Vec<String>,
}

fn load_seeds() -> Seeds {
    let mut files = vec![];
    fn walk(dir: &std::path::Path, out: &mut Vec<std::path::PathBuf>) {
        if let Ok(rd) = std::fs::read_dir(dir) {
            let mut es: Vec<_> = rd.filter_map(|e| e.ok()).map(|e| e.path()).collect();
            es.sort();
            for p in es {
                if p.is_dir() {
                    walk(&p, out);
                } else if p.extension().map(|e| e == "glu").unwrap_or(false) {
                    out.push(p);
                }
            }
        }
    }
    for d in ["/repo/std", "/repo/examples", "/repo/tests/pass"] {
        walk(std::path::Path::new(d), &mut files);
    }
    let mut texts: Vec<String> = SMALL.iter().map(|s| s.to_string()).collect();
    for f in files {
        if let Ok(s) = std::fs::read_to_string(&f) {
            texts.push(s);
        }
    }
    Seeds { texts }
}

/// Cut a window of whole lines of at most `max` bytes out of a seed.
fn window(rng: &mut Rng, s: &str, max: usize) -> String {
    if s.len() <= max {
        return s.to_string();
    }
    let lines: Vec<&str> = s.split_inclusive('\n').collect();
    let start = if rng.chance(1, 2) {
        0
    } else {
        rng.below(lines.len() as u64) as usize
    };
    let mut out = String::new();
    for l in &lines[start..] {
        if out.len() + l.len() > max {
            break;
        }
        out.push_str(l);
    }
    out
}

/// Pieces of a text: (whitespace/comment gap before the token, token text).
fn pieces(src: &str) -> (Vec<(String, String)>, String) {
    let toks = lex(src);
    let mut v = vec![];
    let mut last = 0usize;
    for t in &toks {
        let (s, e) = ((t.s - 1) as usize, (t.e - 1) as usize);
        if s < last || e > src.len() || !src.is_char_boundary(s) || !src.is_char_boundary(e) {
            continue;
        }
        v.push((src[last..s].to_string(), src[s..e].to_string()));
        last = e;
    }
    (v, src[last..].to_string())
}

fn join(p: &[(String, String)], tail: &str) -> String {
    let mut s = String::new();
    for (g, t) in p {
        s.push_str(g);
        s.push_str(t);
    }
    s.push_str(tail);
    s
}

const SOUP_TEXT: &[&str] = &[
    "let", "rec", "type", "in", "if", "then", "else", "match", "with", "do", "seq", "forall", "=", "->", "|",
    "\\", ",", "{", "}", "(", ")", "[", "]", "#[", "x", "y", "f", "Some", "None", "1", "2.5", "3b", "'c'",
    "\"s\"", "+", "*", "<|", ".", "..", ":", "@", "?", "_", "///d\n", "// c\n", "/* c */", "import!", "std.io",
    "#Int+", "r#\"raw\"#", "0x1f", "-1", "é", "'", "\"", "/*", "#!", "\t", "λ", "1.", "1x", "0x", "r#x",
];

fn gen_text(rng: &mut Rng, seeds: &Seeds) -> (String, &'static str) {
    let mode = rng.below(100);
    if mode < 8 {
        // random bytes, made valid UTF-8 lossily
        let n = rng.below(200) as usize;
        // half full-range bytes (lossy UTF-8: many U+FFFD and multi-byte scalars), half ASCII
        // incl. control characters
        let hi = if rng.chance(1, 2) { 256 } else { 128 };
        let bytes: Vec<u8> = (0..n).map(|_| rng.below(hi) as u8).collect();
        return (String::from_utf8_lossy(&bytes).into_owned(), if hi == 256 { "bytes" } else { "bytes-ascii" });
    }
    if mode < 14 {
        // random printable ASCII + a few multi-byte scalars and line structure
        let n = rng.below(300) as usize;
        let mut s = String::new();
        for _ in 0..n {
            let r = rng.below(40);
            if r == 0 {
                s.push('\n');
            } else if r == 1 && n % 2 == 0 {
                s.push(*rng.pick(&['é', 'λ', '→', '😀', '\u{0}', '\u{7f}', '\r', '\t']));
            } else if r == 1 {
                s.push(*rng.pick(&['\u{0}', '\u{7f}', '\r', '\t', '"', '\\', '\'']));
            } else {
                s.push((32 + rng.below(95) as u8) as char);
            }
        }
        return (s, "ascii");
    }
    if mode < 34 {
        // token soup with random indentation
        let n = 1 + rng.below(60) as usize;
        let levels: Vec<usize> = (0..4).map(|_| rng.below(10) as usize).collect();
        let mut s = " ".repeat(if rng.chance(1, 2) { 0 } else { *rng.pick(&levels) });
        let unicode = rng.chance(1, 2);
        for _ in 0..n {
            let w: &&str = rng.pick(SOUP_TEXT);
            let w: &str = if !unicode && !w.is_ascii() { "x" } else { w };
            s.push_str(w);
            if rng.chance(1, 4) {
                s.push('\n');
                s.push_str(&" ".repeat(*rng.pick(&levels)));
            } else if rng.chance(9, 10) {
                s.push(' ');
            }
        }
        return (s, "soup");
    }
    // grammar-aware mutation of a valid program
    let seed = rng.pick(&seeds.texts).clone();
    let maxw = if rng.chance(1, 3) { 4096 } else { 600 };
    let base = window(rng, &seed, maxw);
    if mode < 40 {
        return (base, "seed");
    }
    let (mut p, tail) = pieces(&base);
    if p.is_empty() {
        return (base, "seed");
    }
    let nmut = 1 + rng.below(3);
    let mut label = "mut";
    for _ in 0..nmut {
        if p.is_empty() {
            break;
        }
        let i = rng.below(p.len() as u64) as usize;
        match rng.below(7) {
            0 => {
                p.remove(i);
                label = "mut:delete";
            }
            1 => {
                let x = p[i].clone();
                p.insert(i, x);
                label = "mut:dup";
            }
            2 => {
                let j = rng.below(p.len() as u64) as usize;
                let (a, b) = (p[i].1.clone(), p[j].1.clone());
                p[i].1 = b;
                p[j].1 = a;
                label = "mut:swap";
            }
            3 => {
                // re-indent the line the token starts (only if the gap holds a newline)
                let k = (0..p.len()).map(|d| (i + d) % p.len()).find(|k| p[*k].0.contains('\n'));
                if let Some(k) = k {
                    let g = p[k].0.clone();
                    let cut = g.rfind('\n').unwrap() + 1;
                    let ind = rng.below(13) as usize;
                    p[k].0 = format!("{}{}", &g[..cut], " ".repeat(ind));
                }
                label = "mut:reindent";
            }
            4 => {
                p.truncate(i);
                label = "mut:truncate";
                if rng.chance(1, 2) {
                    return (join(&p, ""), label);
                }
            }
            5 => {
                let w: &&str = rng.pick(SOUP_TEXT);
                p[i].1 = w.to_string();
                label = "mut:replace";
            }
            _ => {
                // move the token to a fresh line / join it to the previous line
                if p[i].0.contains('\n') {
                    p[i].0 = " ".to_string();
                } else {
                    p[i].0 = format!("\n{}", " ".repeat(rng.below(9) as usize));
                }
                label = "mut:linebreak";
            }
        }
    }
    (join(&p, &tail), label)
}

fn clip(mut s: String) -> String {
    if s.len() > 4096 {
        let mut i = 4096;
        while !s.is_char_boundary(i) {
            i -= 1;
        }
        s.truncate(i);
    }
    s
}

// ------------------------------------------------------------------------------------------
// Part 2: front-end oracle, child side
// ------------------------------------------------------------------------------------------

fn hex(b: &[u8]) -> String {
    let mut s = String::with_capacity(b.len() * 2);
    for x in b {
        s.push_str(&format!("{:02x}", x));
    }
    s
}

fn unhex(s: &str) -> Vec<u8> {
    (0..s.len() / 2)
        .map(|i| u8::from_str_radix(&s[2 * i..2 * i + 2], 16).unwrap_or(0))
        .collect()
}

thread_local! {
    static LAST_PANIC: std::cell::RefCell<String> = std::cell::RefCell::new(String::new());
}

fn install_panic_hook() {
    // fingerprint of a panic = source file + message (not the line: lines shift with every edit)
    std::panic::set_hook(Box::new(|info| {
        let file = info
            .location()
            .map(|l| {
                let f = l.file();
                f.rsplit("/repo/").next().unwrap_or(f).to_string()
            })
            .unwrap_or_else(|| "?".into());
        let msg = if let Some(s) = info.payload().downcast_ref::<String>() {
            s.clone()
        } else if let Some(s) = info.payload().downcast_ref::<&str>() {
            s.to_string()
        } else {
            "panic".to_string()
        };
        LAST_PANIC.with(|p| *p.borrow_mut() = format!("{}:{}", file, short(&msg)));
    }));
}

fn variant_name<T: std::fmt::Debug>(t: &T) -> String {
    let s = format!("{:?}", t);
    s.chars()
        .take_while(|c| c.is_ascii_alphanumeric() || *c == '_')
        .take(40)
        .collect()
}

/// Check one span against the code map; returns a violation kind or None.
fn span_problem(map: &base::source::CodeMap, span: Span<BytePos>) -> Option<&'static str> {
    let file = match map.get(span.start()) {
        Some(f) => f,
        None => return Some("start-outside-any-file"),
    };
    let fs = file.span();
    if span.start() < fs.start() || span.end() > fs.end() {
        return Some("outside-file");
    }
    if span.start() > span.end() {
        return Some("start-after-end");
    }
    let src = file.source();
    let a = span.start().to_usize() - fs.start().to_usize();
    let b = span.end().to_usize() - fs.start().to_usize();
    if !src.is_char_boundary(a) || !src.is_char_boundary(b) {
        return Some("not-on-char-boundary");
    }
    None
}

#[derive(Default)]
struct ErrReport {
    n: usize,
    kinds: BTreeSet<String>,
    problems: Vec<(String, String)>, // (fingerprint tail, description)
}

fn check_infile<E>(stage: &str, e: &base::error::InFile<E>, rep: &mut ErrReport)
where
    E: std::fmt::Display + std::fmt::Debug + base::error::AsDiagnostic,
{
    for sp in e.errors().iter() {
        rep.n += 1;
        let kind = variant_name(&sp.value);
        rep.kinds.insert(format!("{}:{}", stage, kind));
        if let Some(p) = span_problem(e.source(), sp.span) {
            rep.problems.push((
                format!("span:{}:{}:{}", stage, kind, p),
                format!(
                    "{} error `{}` has span {}..{} which is {}",
                    stage,
                    kind,
                    sp.span.start().to_usize(),
                    sp.span.end().to_usize(),
                    p
                ),
            ));
        }
    }
    // rendering: codespan diagnostics and Display
    match gv::catch(|| e.emit_string()) {
        Ok(Ok(s)) => {
            if s.is_empty() && e.errors().len() > 0 {
                rep.problems
                    .push((format!("render:{}:empty", stage), format!("{} error renders to the empty string", stage)));
            }
        }
        Ok(Err(err)) => rep.problems.push((
            format!("render:{}:{}", stage, variant_name(&err)),
            format!("{} error cannot be rendered: {}", stage, err),
        )),
        Err(p) => rep.problems.push((
            format!("render-panic:{}:{}", stage, LAST_PANIC.with(|l| l.borrow().clone())),
            format!("rendering a {} error panicked: {}", stage, p),
        )),
    }
}

fn check_error(e: &gluon::Error, rep: &mut ErrReport) {
    match e {
        gluon::Error::Parse(x) => check_infile("parse", x, rep),
        gluon::Error::Typecheck(x) => check_infile("typecheck", x, rep),
        gluon::Error::Macro(x) => check_infile("macro", x, rep),
        gluon::Error::Multiple(xs) => {
            for x in xs.iter() {
                check_error(x, rep);
            }
        }
        other => {
            rep.n += 1;
            rep.kinds.insert(format!("nospan:{}", variant_name(other)));
        }
    }
}

/// Run one input through the front end; one JSON line.
fn front_end_one(vm: &gluon::RootedThread, src: &str) -> serde_json::Value {
    let mut rep = ErrReport::default();
    let mut status = vec![];
    // 1. parse_partial_expr
    let tc = base::types::TypeCache::default();
    let r = gv::catch(|| vm.parse_partial_expr(&tc, "c09_input", src));
    match r {
        Err(p) => rep.problems.push((
            format!("panic:front-end:{}", LAST_PANIC.with(|l| l.borrow().clone())),
            format!("parse_partial_expr panicked: {}", p),
        )),
        Ok(Ok(_)) => status.push("parse:ok".to_string()),
        Ok(Err(salv)) => {
            status.push(
                if salv.value.is_some() {
                    "parse:partial"
                } else {
                    "parse:error"
                }
                .to_string(),
            );
            check_infile("parse", &salv.error, &mut rep);
        }
    }
    // 2. the whole pipeline
    let r = gv::catch(|| vm.typecheck_str("c09_input", src, None));
    match r {
        Err(p) => rep.problems.push((
            format!("panic:front-end:{}", LAST_PANIC.with(|l| l.borrow().clone())),
            format!("typecheck_str panicked: {}", p),
        )),
        Ok(Ok(_)) => status.push("check:ok".to_string()),
        Ok(Err(e)) => {
            status.push("check:error".to_string());
            check_error(&e, &mut rep);
            match gv::catch(|| (e.emit_string().map(|s| s.len()), e.to_string().len())) {
                Ok((Ok(_), _)) => {}
                Ok((Err(err), _)) => rep.problems.push((
                    format!("render:emit_string:{}", variant_name(&err)),
                    format!("Error::emit_string failed: {}", err),
                )),
                Err(p) => rep.problems.push((
                    format!("render-panic:emit_string:{}", LAST_PANIC.with(|l| l.borrow().clone())),
                    format!("Error::emit_string / Display panicked: {}", p),
                )),
            }
        }
    }
    serde_json::json!({
        "status": status,
        "nerr": rep.n,
        "kinds": rep.kinds.into_iter().collect::<Vec<_>>(),
        "problems": rep.problems,
    })
}

/// `--child front <prelude 0|1>`: stdin = one hex-encoded input per line; for each prints
/// `S <i>` when starting and `R <i> <json>` when done.
fn child_front(prelude: bool) {
    install_panic_hook();
    let fresh = || {
        let vm = gv::vm::new_vm();
        vm.get_database_mut().set_implicit_prelude(prelude);
        // warm up (loads the prelude once) so that the per-input watchdog measures the input
        println!("W start");
        let _ = gv::catch(|| vm.typecheck_str("c09_warm", "1", None));
        println!("W done");
        vm
    };
    let mut vm = fresh();
    let stdin = std::io::stdin();
    let mut i = 0usize;
    for line in stdin.lock().lines() {
        let line = match line {
            Ok(l) => l,
            Err(_) => break,
        };
        let bytes = unhex(line.trim());
        let src = String::from_utf8_lossy(&bytes).into_owned();
        println!("S {}", i);
        let _ = std::io::stdout().flush();
        let v = front_end_one(&vm, &src);
        let panicked = v["problems"]
            .as_array()
            .map(|a| a.iter().any(|p| p[0].as_str().map(|s| s.contains("panic")).unwrap_or(false)))
            .unwrap_or(false);
        if panicked {
            // a panic inside the compiler poisons its mutexes: every later input on this VM
            // would fail for that reason only, so continue on a fresh VM
            vm = fresh();
        }
        println!("R {} {}", i, v);
        let _ = std::io::stdout().flush();
        i += 1;
    }
}

// ------------------------------------------------------------------------------------------
// Part 2: parent side — batches, per-input watchdog
// ------------------------------------------------------------------------------------------

#[derive(Debug, Clone)]
enum FrontOutcome {
    Done(serde_json::Value),
    Timeout,
    Crash(String, String), // class, stderr tail
}

const WATCHDOG: Duration = Duration::from_secs(5);

/// Run `inputs` in one child; returns outcomes for a prefix (stops after the first
/// timeout/crash: the caller restarts with the rest).
fn run_front_child(inputs: &[String], prelude: bool, watchdog: Duration) -> Vec<FrontOutcome> {
    let exe = std::env::current_exe().unwrap();
    let mut ch = Command::new(exe)
        .args(["--child", "front", if prelude { "1" } else { "0" }])
        .stdin(Stdio::piped())
        .stdout(Stdio::piped())
        .stderr(Stdio::piped())
        .spawn()
        .expect("spawn");
    let mut si = ch.stdin.take().unwrap();
    let payload: String = inputs.iter().map(|s| format!("{}\n", hex(s.as_bytes()))).collect();
    let writer = std::thread::spawn(move || {
        let _ = si.write_all(payload.as_bytes());
    });
    let so = ch.stdout.take().unwrap();
    let mut se = ch.stderr.take().unwrap();
    let (tx, rx) = mpsc::channel::<String>();
    let reader = std::thread::spawn(move || {
        for l in BufReader::new(so).lines() {
            match l {
                Ok(l) => {
                    if tx.send(l).is_err() {
                        break;
                    }
                }
                Err(_) => break,
            }
        }
    });
    let errt = std::thread::spawn(move || {
        let mut s = Vec::new();
        let _ = se.read_to_end(&mut s);
        let s = String::from_utf8_lossy(&s).into_owned();
        let n = s.len();
        let mut i = n.saturating_sub(600);
        while !s.is_char_boundary(i) {
            i += 1;
        }
        s[i..].to_string()
    });
    let mut res = vec![];
    let mut limit = Duration::from_secs(60); // VM creation + prelude
    let mut failed: Option<FrontOutcome> = None;
    loop {
        if res.len() == inputs.len() {
            break;
        }
        match rx.recv_timeout(limit) {
            Ok(l) => {
                if l.starts_with("W start") {
                    limit = Duration::from_secs(60);
                } else if l.starts_with("W done") {
                    limit = watchdog;
                } else if l.starts_with("S ") {
                    limit = watchdog;
                } else if let Some(rest) = l.strip_prefix("R ") {
                    let mut it = rest.splitn(2, ' ');
                    let _i = it.next();
                    let v: serde_json::Value =
                        serde_json::from_str(it.next().unwrap_or("null")).unwrap_or(serde_json::Value::Null);
                    res.push(FrontOutcome::Done(v));
                }
            }
            Err(mpsc::RecvTimeoutError::Timeout) => {
                let _ = ch.kill();
                failed = Some(FrontOutcome::Timeout);
                break;
            }
            Err(mpsc::RecvTimeoutError::Disconnected) => {
                break;
            }
        }
    }
    let _ = ch.kill();
    let st = ch.wait().ok();
    let _ = writer.join();
    let _ = reader.join();
    let err = errt.join().unwrap_or_default();
    if res.len() < inputs.len() {
        let f = failed.unwrap_or_else(|| {
            use std::os::unix::process::ExitStatusExt;
            let class = match st {
                Some(s) => match (s.signal(), s.code()) {
                    (Some(sig), _) => format!("signal{}", sig),
                    (_, Some(c)) => format!("exit{}", c),
                    _ => "unknown".into(),
                },
                None => "unknown".into(),
            };
            FrontOutcome::Crash(class, err.clone())
        });
        res.push(f);
    }
    res
}

#[derive(Clone)]
struct FrontCase {
    text: String,
    origin: String,
    prelude: bool,
}

/// Run all cases (parallel workers; a worker restarts its child after a failure).
fn run_front_all(cases: &[FrontCase], workers: usize, watchdog: Duration) -> Vec<FrontOutcome> {
    let n = cases.len();
    let mut results: Vec<Option<FrontOutcome>> = vec![None; n];
    let mut chunks: Vec<Vec<usize>> = vec![vec![]; workers * 2];
    let (mut a, mut b) = (0, 0);
    for (i, c) in cases.iter().enumerate() {
        if c.prelude {
            chunks[a % workers].push(i);
            a += 1;
        } else {
            chunks[workers + b % workers].push(i);
            b += 1;
        }
    }
    chunks.retain(|c| !c.is_empty());
    let (tx, rx) = mpsc::channel::<(usize, FrontOutcome)>();
    std::thread::scope(|sc| {
        for chunk in &chunks {
            let tx = tx.clone();
            sc.spawn(move || {
                let prelude = cases[chunk[0]].prelude;
                let mut at = 0;
                while at < chunk.len() {
                    let texts: Vec<String> = chunk[at..].iter().map(|i| cases[*i].text.clone()).collect();
                    let out = run_front_child(&texts, prelude, watchdog);
                    if out.is_empty() {
                        let _ = tx.send((chunk[at], FrontOutcome::Crash("nostart".into(), String::new())));
                        at += 1;
                        continue;
                    }
                    let k = out.len();
                    for (j, o) in out.into_iter().enumerate() {
                        let _ = tx.send((chunk[at + j], o));
                    }
                    at += k;
                }
            });
        }
        drop(tx);
        for (i, o) in rx {
            results[i] = Some(o);
        }
    });
    results
        .into_iter()
        .map(|o| o.unwrap_or(FrontOutcome::Crash("missing".into(), String::new())))
        .collect()
}

fn predicted_layout_hang(text: &str) -> bool {
    let toks = lex(text);
    matches!(run_real_layout(&toks, eof_for(text)).1, LayoutEnd::Hang)
}

/// Turn the outcome of one front-end case into oracle records / statistics.
/// Failures (timeout / crash) must already be confirmed by a solo re-run.
fn account_front(out: &mut Out, c: &FrontCase, o: &FrontOutcome, what: &str) {
    let replay = serde_json::json!({"kind": "text", "text": c.text, "prelude": c.prelude, "origin": c.origin});
    out.count(&format!("front:origin:{}", c.origin));
    match o {
        FrontOutcome::Done(v) => {
            let status: Vec<String> = v["status"]
                .as_array()
                .map(|a| a.iter().filter_map(|x| x.as_str().map(|s| s.to_string())).collect())
                .unwrap_or_default();
            for s in &status {
                out.count(&format!("front:{}", s));
            }
            let kinds: Vec<String> = v["kinds"]
                .as_array()
                .map(|a| a.iter().filter_map(|x| x.as_str().map(|s| s.to_string())).collect())
                .unwrap_or_default();
            for k in &kinds {
                out.count(&format!("front:error-kind:{}", k));
            }
            out.add("front:errors-checked", v["nerr"].as_u64().unwrap_or(0));
            if let Some(ps) = v["problems"].as_array() {
                let mut seen = BTreeSet::new();
                for p in ps {
                    let fp = p[0].as_str().unwrap_or("?");
                    let d = p[1].as_str().unwrap_or("?");
                    if seen.insert(fp.to_string()) {
                        out.count(&format!("front:problem:{}", fp));
                        out.oracle_fail(fp, &d.chars().take(400).collect::<String>(), replay.clone());
                    }
                }
            }
            let toks = lex(&c.text);
            let ks: BTreeSet<K> = toks.iter().map(|t| t.k).collect();
            if ks.len() >= 2 {
                let shape: Vec<&str> = toks.iter().take(20).map(|t| t.k.name()).collect();
                out.class(format!("F:{:x}:{}:{}", fnv(&format!("{:?}", shape)), status.join(","), kinds.join(",")));
            }
            if (fnv(&c.text) % 97) == 0 {
                out.sample(serde_json::json!({"text": c.text.chars().take(200).collect::<String>(), "origin": c.origin, "result": v}));
            }
        }
        FrontOutcome::Timeout => {
            let fp = if predicted_layout_hang(&c.text) {
                "hang:layout:scan_continue_block".to_string()
            } else {
                format!("hang:front-end:{}", what)
            };
            out.count("front:timeout");
            out.oracle_fail(
                &fp,
                &format!("the front end did not return within the watchdog (5 s in a batch, then 60 s alone) on a {}-byte input ({})", c.text.len(), c.origin),
                replay,
            );
        }
        FrontOutcome::Crash(class, err) => {
            let so = err.contains("overflowed its stack");
            let fp = if so {
                // coarse call shape: mutual recursion groups (`rec`) vs everything else
                let has_rec = lex(&c.text).iter().any(|t| t.k == K::Rec);
                format!("stackoverflow:{}:{}", what, if has_rec { "rec" } else { "plain" })
            } else {
                format!("abort:{}:{}", class, what)
            };
            out.count("front:crash");
            out.oracle_fail(
                &fp,
                &format!("the front end killed the process ({}) on a {}-byte input ({}): {}", class, c.text.len(), c.origin, err.chars().rev().take(200).collect::<String>().chars().rev().collect::<String>()),
                replay,
            );
        }
    }
}

/// Re-run a failed case alone (12x watchdog = 60 s: a valid program that imports much of std
/// needs ~7 s in this debug build on an idle machine, far more under load); returns the
/// confirmed outcome.
fn confirm(c: &FrontCase) -> FrontOutcome {
    let r = run_front_child(&[c.text.clone()], c.prelude, WATCHDOG * 12);
    r.into_iter().next().unwrap_or(FrontOutcome::Crash("nostart".into(), String::new()))
}

// ------------------------------------------------------------------------------------------
// Part 3: nesting probes
// ------------------------------------------------------------------------------------------

const SHAPES: &[&str] = &["paren", "array", "record", "lambda", "let-in", "let-seq", "app", "infix", "if", "match", "block-comment", "type-fn"];
const DEPTHS: &[usize] = &[10, 50, 100, 200, 500, 1000, 2000];

fn nest(shape: &str, d: usize) -> String {
    match shape {
        "paren" => format!("{}1{}", "(".repeat(d), ")".repeat(d)),
        "array" => format!("{}1{}", "[".repeat(d), "]".repeat(d)),
        "record" => format!("{}1{}", "{ a = ".repeat(d), " }".repeat(d)),
        "lambda" => format!("{}1", "\\x -> ".repeat(d)),
        "let-in" => format!("{}1{}", "let x = ".repeat(d), " in x".repeat(d)),
        "let-seq" => format!("{}x", "let x = 1\n".repeat(d)),
        "app" => format!("let f x = x\n{}1{}", "f (".repeat(d), ")".repeat(d)),
        "infix" => format!("1{}", " #Int+ 1".repeat(d)),
        "if" => format!("{}1{}", "if True then 1 else ".repeat(d), ""),
        "match" => format!("{}1", "match 1 with | _ -> ".repeat(d)),
        "block-comment" => format!("{}{} 1", "/* ".repeat(d), "*/ ".repeat(d)),
        "type-fn" => format!("let f x : {}Int = x\n1", "Int -> ".repeat(d)),
        _ => "1".into(),
    }
}

// ------------------------------------------------------------------------------------------

fn ltok_json(t: &LTok) -> serde_json::Value {
    serde_json::json!([t.k.name(), t.line, t.col, t.s, t.e])
}

fn kind_by_name(n: &str) -> K {
    const ALL: &[K] = &[
        K::Shebang, K::Doc, K::AttrOpen, K::Rec, K::Else, K::If, K::In, K::Let, K::Do, K::Seq, K::Match, K::Then,
        K::Type, K::With, K::Comma, K::Equals, K::Lambda, K::Pipe, K::RArrow, K::LBrace, K::LBracket, K::LParen,
        K::RBrace, K::RBracket, K::RParen, K::OpenBlock, K::CloseBlock, K::Semi, K::Eof, K::Other, K::LexErr,
    ];
    *ALL.iter().find(|k| k.name() == n).unwrap_or(&K::Other)
}

/// Parse `(k l c s e)` groups out of a request line (replay of layout cases).
fn parse_request(req: &str) -> Vec<LTok> {
    let mut v = vec![];
    for g in req.split('(').skip(1) {
        let g = g.trim().trim_end_matches(')').trim();
        let f: Vec<&str> = g.split_whitespace().collect();
        if f.len() == 5 {
            v.push(LTok {
                k: kind_by_name(f[0]),
                line: f[1].parse().unwrap_or(0),
                col: f[2].parse().unwrap_or(1),
                s: f[3].parse().unwrap_or(1),
                e: f[4].trim_end_matches(')').parse().unwrap_or(1),
            });
        }
    }
    v
}

fn replay(out: &mut Out, file: &std::path::Path) {
    let v: serde_json::Value = serde_json::from_str(&std::fs::read_to_string(file).expect("replay file")).expect("json");
    let case = if v.get("case").is_some() { v["case"].clone() } else { v.clone() };
    match case["kind"].as_str().unwrap_or("") {
        "layout" => {
            let mut toks = parse_request(case["request"].as_str().unwrap_or(""));
            let eof = toks.pop().expect("eof token");
            let end = layout_case(out, &toks, eof, "replay");
            println!("replay layout: {} tokens -> {:?}", toks.len(), end);
        }
        _ => {
            let c = FrontCase {
                text: case["text"].as_str().unwrap_or("").to_string(),
                origin: case["origin"].as_str().unwrap_or("replay").to_string(),
                prelude: case["prelude"].as_bool().unwrap_or(false),
            };
            let o = confirm(&c);
            println!("replay text ({} bytes, prelude={}): {:?}", c.text.len(), c.prelude, o);
            let what = case["what"].as_str().unwrap_or("replay").to_string();
            account_front(out, &c, &o, &what);
        }
    }
}

fn main() {
    let a: Vec<String> = std::env::args().collect();
    if a.len() >= 3 && a[1] == "--child" {
        match a[2].as_str() {
            "front" => child_front(a.get(3).map(|s| s == "1").unwrap_or(false)),
            _ => {}
        }
        return;
    }
    gv::quiet_panics();
    let args = Args::parse();
    let mut out = Out::new(&args.out);
    if let Some(f) = &args.replay {
        replay(&mut out, f);
        out.finish();
        return;
    }
    let thorough = args.thorough();
    let seeds = load_seeds();
    out.stats.insert("seed_files".into(), (seeds.texts.len() as u64).into());

    // ---- corpus: minimised past failures first ------------------------------------------------
    let mut corpus_cases: Vec<FrontCase> = vec![];
    if let Ok(rd) = std::fs::read_dir("/verif/corpus/C09") {
        let mut es: Vec<_> = rd.filter_map(|e| e.ok()).map(|e| e.path()).collect();
        es.sort();
        for p in es {
            if let Ok(s) = std::fs::read_to_string(&p) {
                if let Ok(v) = serde_json::from_str::<serde_json::Value>(&s) {
                    if v["kind"] == "text" {
                        corpus_cases.push(FrontCase {
                            text: v["text"].as_str().unwrap_or("").to_string(),
                            origin: "corpus".into(),
                            prelude: v["prelude"].as_bool().unwrap_or(false),
                        });
                    }
                }
            }
        }
    }

    // ---- Part 1: layout correspondence ----------------------------------------------------------
    let mut rng = Rng::new(args.seed, 901);
    for c in &corpus_cases {
        layout_case(&mut out, &lex(&c.text), eof_for(&c.text), "corpus");
    }
    // every truncation of the small programs at a token boundary
    for p in SMALL {
        let toks = lex(p);
        for i in 0..=toks.len() {
            let cut = if i == toks.len() { p.len() } else { (toks[i].s - 1) as usize };
            let text = &p[..cut];
            layout_case(&mut out, &lex(text), eof_for(text), "small-truncation");
        }
    }
    let n_soup = if thorough { 40000 } else { 3000 };
    for _ in 0..n_soup {
        let ml = if rng.chance(1, 5) { 60 } else { 16 };
        let (t, e) = gen_soup(&mut rng, ml);
        layout_case(&mut out, &t, e, "soup");
    }
    let n_lexed = if thorough { 12000 } else { 1200 };
    let mut rng_t = Rng::new(args.seed, 902);
    for _ in 0..n_lexed {
        let (text, origin) = gen_text(&mut rng_t, &seeds);
        let text = clip(text);
        layout_case(&mut out, &lex(&text), eof_for(&text), &format!("text:{}", origin));
    }

    // ---- Part 2: front-end oracle ---------------------------------------------------------------
    let n_front = if thorough { 12000 } else { 900 };
    let mut rng_f = Rng::new(args.seed, 903);
    let mut cases: Vec<FrontCase> = vec![];
    let mut predicted: Vec<FrontCase> = vec![];
    for c in &corpus_cases {
        if predicted_layout_hang(&c.text) {
            predicted.push(c.clone());
        } else {
            cases.push(c.clone());
        }
    }
    for p in SMALL {
        cases.push(FrontCase { text: p.to_string(), origin: "small".into(), prelude: false });
    }
    for _ in 0..n_front {
        let (text, origin) = gen_text(&mut rng_f, &seeds);
        let text = clip(text);
        let c = FrontCase { text, origin: origin.to_string(), prelude: rng_f.chance(1, 3) };
        if predicted_layout_hang(&c.text) {
            predicted.push(c);
        } else {
            cases.push(c);
        }
    }
    let workers = std::thread::available_parallelism().map(|n| n.get()).unwrap_or(4).min(8).max(2);
    let t0 = Instant::now();
    let results = run_front_all(&cases, workers, WATCHDOG);
    let mut confirmed = 0;
    for (c, o) in cases.iter().zip(results.iter()) {
        match o {
            FrontOutcome::Done(_) => account_front(&mut out, c, o, "fuzz"),
            _ => {
                // a failure is only reported when it reproduces alone
                if confirmed >= 12 {
                    out.count("skipped:failure-not-confirmed");
                    continue;
                }
                let o2 = confirm(c);
                confirmed += 1;
                match (&o2, o) {
                    (FrontOutcome::Done(_), _) => {
                        out.count("front:failure-not-reproduced");
                        account_front(&mut out, c, &o2, "fuzz");
                    }
                    _ => account_front(&mut out, c, &o2, "fuzz"),
                }
            }
        }
    }
    // inputs on which the real Layout (run in-process on the lexed tokens) already showed the
    // endless scan: confirm a few on the real front end, count the rest
    out.add("front:predicted-layout-hang", predicted.len() as u64);
    for c in predicted.iter().take(if thorough { 4 } else { 1 }) {
        let o = run_front_child(&[c.text.clone()], c.prelude, WATCHDOG)
            .into_iter()
            .next()
            .unwrap_or(FrontOutcome::Crash("nostart".into(), String::new()));
        account_front(&mut out, c, &o, "fuzz");
    }
    out.add("skipped:predicted-layout-hang-not-rerun", predicted.len().saturating_sub(if thorough { 4 } else { 1 }) as u64);
    out.stats.insert("front_wall_ms".into(), (t0.elapsed().as_millis() as u64).into());

    // ---- Part 3: nesting probes -----------------------------------------------------------------
    let mut depth_report = serde_json::Map::new();
    let shape_results: Vec<(String, Vec<(usize, FrontOutcome)>)> = std::thread::scope(|sc| {
        let hs: Vec<_> = SHAPES
            .iter()
            .map(|shape| {
                sc.spawn(move || {
                    let mut res = vec![];
                    let ds: Vec<usize> = DEPTHS.iter().cloned().filter(|d| nest(shape, *d).len() <= 4096).collect();
                    let mut at = 0;
                    while at < ds.len() {
                        let texts: Vec<String> = ds[at..].iter().map(|d| nest(shape, *d)).collect();
                        let o = run_front_child(&texts, false, WATCHDOG * 4);
                        if o.is_empty() {
                            break;
                        }
                        let k = o.len();
                        for (j, x) in o.into_iter().enumerate() {
                            res.push((ds[at + j], x));
                        }
                        at += k;
                    }
                    (shape.to_string(), res)
                })
            })
            .collect();
        hs.into_iter().map(|h| h.join().unwrap()).collect()
    });
    for (shape, res) in shape_results {
        let mut line = vec![];
        for (d, o) in res {
            let c = FrontCase { text: nest(&shape, d), origin: format!("depth:{}:{}", shape, d), prelude: false };
            match &o {
                FrontOutcome::Done(v) => {
                    line.push(format!("{}:ok", d));
                    out.count("depth:returned");
                    if let Some(ps) = v["problems"].as_array() {
                        for p in ps {
                            out.oracle_fail(
                                p[0].as_str().unwrap_or("?"),
                                p[1].as_str().unwrap_or("?"),
                                serde_json::json!({"kind": "text", "text": c.text, "prelude": false, "origin": c.origin}),
                            );
                        }
                    }
                    out.class(format!("D:{}:{}:ok", shape, d));
                }
                FrontOutcome::Timeout => {
                    line.push(format!("{}:timeout", d));
                    if d <= 200 {
                        account_front(&mut out, &c, &o, &format!("{}:moderate-depth", shape));
                    } else {
                        out.count(&format!("depth:recorded-only:timeout:{}", shape));
                    }
                }
                FrontOutcome::Crash(class, err) => {
                    let so = err.contains("overflowed its stack");
                    line.push(format!("{}:{}", d, if so { "stack-overflow".to_string() } else { class.clone() }));
                    if d <= 200 {
                        account_front(&mut out, &c, &o, &format!("{}:moderate-depth", shape));
                    } else {
                        out.count(&format!("depth:recorded-only:{}:{}", if so { "stack-overflow" } else { "crash" }, shape));
                    }
                    out.class(format!("D:{}:{}:crash", shape, d));
                }
            }
        }
        depth_report.insert(shape, serde_json::Value::String(line.join(" ")));
    }
    out.stats.insert("depth_probes".into(), serde_json::Value::Object(depth_report));
    out.finish();
}
