//! `#[derive(Eq, Show)]` on randomly generated algebraic types: one gluon program per batch declares
//! 1–3 types (variants with 0–4 arguments, records, optional type parameter, self recursion, references
//! to earlier types, Option / Array fields) and evaluates `show x`, `show y`, `x == y` for generated
//! pairs, many of which differ in exactly one (often the LAST) constructor argument.
use super::Drv;
use gluon::ThreadExt;
use gv::rng::Rng;
use gv::{quote, Out};
use serde_json::json;

#[derive(Clone, Debug, PartialEq)]
pub enum V {
    Int(i64),
    Str(String),
    Bool(bool),
    Ctor(String, Vec<V>),
    Rec(Vec<(String, V)>),
    Arr(Vec<V>),
}

#[derive(Clone, Debug)]
pub enum FT {
    Int,
    Str,
    Bool,
    SelfT,
    Ref(usize),
    OptInt,
    OptStr,
    ArrInt,
    ArrStr,
    Param,
}

#[derive(Clone, Debug)]
pub enum Body {
    Variant(Vec<(String, Vec<FT>)>),
    Record(Vec<(String, FT)>),
}

#[derive(Clone, Debug)]
pub struct TD {
    pub name: String,
    pub param: bool,
    pub body: Body,
}

fn ft_text(types: &[TD], me: &TD, ft: &FT) -> String {
    match ft {
        FT::Int => "Int".into(),
        FT::Str => "String".into(),
        FT::Bool => "Bool".into(),
        FT::SelfT => {
            if me.param {
                format!("({} a)", me.name)
            } else {
                me.name.clone()
            }
        }
        FT::Ref(j) => {
            if types[*j].param {
                format!("({} Int)", types[*j].name)
            } else {
                types[*j].name.clone()
            }
        }
        FT::OptInt => "(Option Int)".into(),
        FT::OptStr => "(Option String)".into(),
        FT::ArrInt => "(Array Int)".into(),
        FT::ArrStr => "(Array String)".into(),
        FT::Param => "a".into(),
    }
}

fn gen_ft(rng: &mut Rng, idx: usize, param: bool, allow_self: bool) -> FT {
    loop {
        let ft = match rng.below(12) {
            0 | 1 => FT::Int,
            2 => FT::Str,
            3 => FT::Bool,
            4 | 5 => FT::SelfT,
            6 | 7 => FT::Ref(rng.below(idx.max(1) as u64) as usize),
            8 => FT::OptInt,
            9 => if rng.chance(1, 2) { FT::OptStr } else { FT::ArrStr },
            10 => FT::ArrInt,
            _ => FT::Param,
        };
        match ft {
            FT::SelfT if !allow_self => continue,
            FT::Ref(_) if idx == 0 => continue,
            FT::Param if !param => continue,
            _ => return ft,
        }
    }
}

pub fn gen_types(rng: &mut Rng) -> Vec<TD> {
    let n = rng.range(1, 3) as usize;
    let mut types: Vec<TD> = vec![];
    for t in 0..n {
        let param = rng.chance(1, 4);
        let name = format!("T{}", t);
        let body = if rng.chance(2, 3) {
            let nc = rng.range(1, 4) as usize;
            let ctors = (0..nc)
                .map(|c| {
                    // constructor 0 never mentions the type itself, so finite values exist
                    let na = rng.below(5) as usize;
                    let args = (0..na).map(|_| gen_ft(rng, t, param, c > 0)).collect();
                    (format!("K{}x{}", t, c), args)
                })
                .collect();
            Body::Variant(ctors)
        } else {
            let nf = rng.range(1, 4) as usize;
            Body::Record((0..nf).map(|f| (format!("f{}x{}", t, f), gen_ft(rng, t, param, false))).collect())
        };
        types.push(TD { name, param, body });
    }
    types
}

const STR_ALPHA: &[char] = &['a', 'b', 'x', ' ', '"', '(', ')', ',', '\\', '\n', 'é', '😀', '=', '{'];

fn gen_str(rng: &mut Rng) -> String {
    (0..rng.below(5)).map(|_| *rng.pick(STR_ALPHA)).collect()
}
fn gen_int(rng: &mut Rng) -> i64 {
    match rng.below(6) {
        0 => 0,
        1 => rng.range(-3, 3),
        2 => i64::MAX - rng.range(0, 2),
        _ => rng.range(-99, 99),
    }
}

fn gen_field(rng: &mut Rng, types: &[TD], me: usize, ft: &FT, depth: u32) -> V {
    match ft {
        FT::Int | FT::Param => V::Int(gen_int(rng)),
        FT::Str => V::Str(gen_str(rng)),
        FT::Bool => V::Bool(rng.chance(1, 2)),
        FT::SelfT => gen_val(rng, types, me, depth.saturating_sub(1)),
        FT::Ref(j) => gen_val(rng, types, *j, depth),
        FT::OptInt => if rng.chance(1, 3) { V::Ctor("None".into(), vec![]) } else { V::Ctor("Some".into(), vec![V::Int(gen_int(rng))]) },
        FT::OptStr => if rng.chance(1, 3) { V::Ctor("None".into(), vec![]) } else { V::Ctor("Some".into(), vec![V::Str(gen_str(rng))]) },
        FT::ArrInt => V::Arr((0..rng.below(4)).map(|_| V::Int(gen_int(rng))).collect()),
        FT::ArrStr => V::Arr((0..rng.below(3)).map(|_| V::Str(gen_str(rng))).collect()),
    }
}

pub fn gen_val(rng: &mut Rng, types: &[TD], t: usize, depth: u32) -> V {
    match &types[t].body {
        Body::Variant(ctors) => {
            let c = if depth == 0 { 0 } else { rng.below(ctors.len() as u64) as usize };
            let (n, args) = &ctors[c];
            V::Ctor(n.clone(), args.iter().map(|ft| gen_field(rng, types, t, ft, depth)).collect())
        }
        Body::Record(fs) => V::Rec(fs.iter().map(|(n, ft)| (n.clone(), gen_field(rng, types, t, ft, depth))).collect()),
    }
}

/// change exactly one place of `v` (biased to the LAST argument / field)
fn mutate_field(rng: &mut Rng, types: &[TD], me: usize, ft: &FT, v: &V) -> V {
    match (ft, v) {
        (FT::Int, V::Int(i)) | (FT::Param, V::Int(i)) => V::Int(if *i > 1000 { i - 1 } else { i + 1 }),
        (FT::Str, V::Str(s)) => {
            let mut s = s.clone();
            if s.is_empty() || rng.chance(1, 2) { s.push(*rng.pick(STR_ALPHA)) } else { s.pop(); }
            V::Str(s)
        }
        (FT::Bool, V::Bool(b)) => V::Bool(!b),
        (FT::SelfT, v) => mutate(rng, types, me, v),
        (FT::Ref(j), v) => mutate(rng, types, *j, v),
        (FT::OptInt, V::Ctor(n, a)) => {
            if n == "None" { V::Ctor("Some".into(), vec![V::Int(0)]) }
            else if rng.chance(1, 3) { V::Ctor("None".into(), vec![]) }
            else { V::Ctor("Some".into(), vec![mutate_field(rng, types, me, &FT::Int, &a[0])]) }
        }
        (FT::OptStr, V::Ctor(n, a)) => {
            if n == "None" { V::Ctor("Some".into(), vec![V::Str(String::new())]) }
            else if rng.chance(1, 3) { V::Ctor("None".into(), vec![]) }
            else { V::Ctor("Some".into(), vec![mutate_field(rng, types, me, &FT::Str, &a[0])]) }
        }
        (FT::ArrInt, V::Arr(xs)) | (FT::ArrStr, V::Arr(xs)) => {
            let el = if matches!(ft, FT::ArrInt) { FT::Int } else { FT::Str };
            let mut xs = xs.clone();
            if xs.is_empty() || rng.chance(1, 3) {
                xs.push(if matches!(ft, FT::ArrInt) { V::Int(5) } else { V::Str("a".into()) });
            } else if rng.chance(1, 2) {
                xs.pop();
            } else {
                let k = if rng.chance(1, 2) { xs.len() - 1 } else { rng.below(xs.len() as u64) as usize };
                xs[k] = mutate_field(rng, types, me, &el, &xs[k]);
            }
            V::Arr(xs)
        }
        _ => v.clone(),
    }
}

pub fn mutate(rng: &mut Rng, types: &[TD], t: usize, v: &V) -> V {
    match (&types[t].body, v) {
        (Body::Variant(ctors), V::Ctor(n, args)) => {
            let (_, fts) = ctors.iter().find(|c| &c.0 == n).unwrap();
            if args.is_empty() || (ctors.len() > 1 && rng.chance(1, 6)) {
                // another constructor
                for _ in 0..8 {
                    let w = gen_val(rng, types, t, 2);
                    if &w != v {
                        return w;
                    }
                }
                return v.clone();
            }
            let k = if rng.chance(2, 5) { args.len() - 1 } else { rng.below(args.len() as u64) as usize };
            let mut args = args.clone();
            args[k] = mutate_field(rng, types, t, &fts[k], &args[k]);
            V::Ctor(n.clone(), args)
        }
        (Body::Record(fts), V::Rec(fs)) => {
            let k = if rng.chance(2, 5) { fs.len() - 1 } else { rng.below(fs.len() as u64) as usize };
            let mut fs = fs.clone();
            fs[k].1 = mutate_field(rng, types, t, &fts[k].1, &fs[k].1);
            V::Rec(fs)
        }
        _ => v.clone(),
    }
}

fn str_lit(s: &str) -> String {
    let mut o = String::from("\"");
    for c in s.chars() {
        match c {
            '"' => o.push_str("\\\""),
            '\\' => o.push_str("\\\\"),
            '\n' => o.push_str("\\n"),
            c => o.push(c),
        }
    }
    o.push('"');
    o
}

pub fn expr(v: &V) -> String {
    match v {
        V::Int(i) => if *i < 0 { format!("(0 - {})", -i) } else { i.to_string() },
        V::Str(s) => str_lit(s),
        V::Bool(b) => if *b { "True".into() } else { "False".into() },
        V::Ctor(n, a) => {
            if a.is_empty() { n.clone() } else { format!("({}{})", n, a.iter().map(|x| format!(" {}", expr(x))).collect::<String>()) }
        }
        V::Rec(fs) => format!("{{ {} }}", fs.iter().map(|(n, v)| format!("{} = {}", n, expr(v))).collect::<Vec<_>>().join(", ")),
        V::Arr(xs) => format!("[{}]", xs.iter().map(expr).collect::<Vec<_>>().join(", ")),
    }
}

pub fn sexp(v: &V) -> String {
    match v {
        V::Int(i) => format!("(i {})", i),
        V::Str(s) => format!("(s {})", quote(s)),
        V::Bool(b) => format!("(b {})", if *b { "T" } else { "F" }),
        V::Ctor(n, a) => format!("(c {}{})", quote(n), a.iter().map(|x| format!(" {}", sexp(x))).collect::<String>()),
        V::Rec(fs) => format!("(r{})", fs.iter().map(|(n, v)| format!(" ({} {})", quote(n), sexp(v))).collect::<String>()),
        V::Arr(xs) => format!("(a{})", xs.iter().map(|x| format!(" {}", sexp(x))).collect::<String>()),
    }
}

/// "A faithful rendering", written from the documentation of the derive macro (book: constructor
/// followed by each argument in parentheses; records as `{ field = value, … }`).
pub fn ref_show(v: &V) -> String {
    match v {
        V::Int(i) => i.to_string(),
        V::Str(s) => format!("\"{}\"", s),
        V::Bool(b) => if *b { "True".into() } else { "False".into() },
        V::Ctor(n, a) => format!("{}{}", n, a.iter().map(|x| format!(" ({})", ref_show(x))).collect::<String>()),
        V::Rec(fs) => format!("{{ {} }}", fs.iter().map(|(n, v)| format!("{} = {}", n, ref_show(v))).collect::<Vec<_>>().join(", ")),
        V::Arr(xs) => format!("[{}]", xs.iter().map(ref_show).collect::<Vec<_>>().join(", ")),
    }
}

pub fn decls(types: &[TD]) -> String {
    let mut s = String::new();
    for t in types {
        s.push_str("#[derive(Eq, Show)]\n");
        let head = if t.param { format!("{} a", t.name) } else { t.name.clone() };
        match &t.body {
            Body::Variant(cs) => {
                s.push_str(&format!("type {} =\n", head));
                for (n, args) in cs {
                    s.push_str(&format!("    | {}{}\n", n, args.iter().map(|a| format!(" {}", ft_text(types, t, a))).collect::<String>()));
                }
            }
            Body::Record(fs) => {
                s.push_str(&format!(
                    "type {} = {{ {} }}\n",
                    head,
                    fs.iter().map(|(n, a)| format!("{} : {}", n, ft_text(types, t, a))).collect::<Vec<_>>().join(", ")
                ));
            }
        }
    }
    s
}

fn shape_sig(types: &[TD]) -> String {
    types
        .iter()
        .map(|t| match &t.body {
            Body::Variant(cs) => format!("V{}{}", if t.param { "p" } else { "" }, cs.iter().map(|c| c.1.len().to_string()).collect::<String>()),
            Body::Record(fs) => format!("R{}{}", if t.param { "p" } else { "" }, fs.len()),
        })
        .collect::<Vec<_>>()
        .join("-")
}

pub struct Batch {
    pub decls: String,
    pub sig: String,
    /// (type annotation, x, y)
    pub pairs: Vec<(String, V, V)>,
}

pub fn program(b: &Batch) -> String {
    let mut s = String::new();
    s.push_str("let { ? } = import! std.array\nlet { Option, ? } = import! std.option\n");
    s.push_str(&b.decls);
    for (i, (ty, x, y)) in b.pairs.iter().enumerate() {
        s.push_str(&format!("let x{} : {} = {}\nlet y{} : {} = {}\n", i, ty, expr(x), i, ty, expr(y)));
    }
    s.push_str("[\n");
    for i in 0..b.pairs.len() {
        s.push_str(&format!("    show x{}, show y{}, (if x{} == y{} then \"T\" else \"F\"),\n", i, i, i, i));
    }
    s.push_str("]\n");
    s
}

pub fn run_batch(drv: &mut Drv, out: &mut Out, b: &Batch, verbose: bool) {
    let src = program(b);
    let replay = json!({
        "area": "derive", "decls": b.decls, "sig": b.sig,
        "pairs": b.pairs.iter().map(|(t, x, y)| json!([t, to_json(x), to_json(y)])).collect::<Vec<_>>(),
    });
    if verbose {
        println!("{}", src);
    }
    let res = drv.root.run_expr::<Vec<String>>("c19_derive", &src).map(|x| x.0).map_err(|e| e.to_string());
    if verbose {
        println!("{:?}", res);
    }
    out.count("derive:programs");
    let res = match res {
        Ok(r) if r.len() == 3 * b.pairs.len() => r,
        Ok(_) => {
            out.oracle_fail("derive:result-shape", "program returned the wrong number of results", replay);
            return;
        }
        Err(e) => {
            out.oracle_fail(
                "derive:program-rejected",
                &format!("a program deriving Eq/Show for a generated type does not compile or run: {}", e.lines().find(|l| l.contains("error")).unwrap_or(e.lines().next().unwrap_or(""))),
                replay,
            );
            return;
        }
    };
    let mut seen: std::collections::HashMap<(String, String), V> = Default::default();
    for (i, (ty, x, y)) in b.pairs.iter().enumerate() {
        let (sx, sy, e) = (&res[3 * i], &res[3 * i + 1], &res[3 * i + 2]);
        let one = json!({"area": "derive", "decls": b.decls, "sig": b.sig, "pairs": [[ty, to_json(x), to_json(y)]]});
        if sx != &ref_show(x) || sy != &ref_show(y) {
            out.oracle_fail("derive:show-unfaithful", "derived Show is not `Ctor (arg) … (arg)` / `{ f = v, … }` of the value", one.clone());
        }
        if (e == "T") != (x == y) {
            out.oracle_fail(
                if x == y { "derive:eq-false-on-equal" } else { "derive:eq-true-on-different" },
                "derived Eq is not structural equality",
                one.clone(),
            );
        }
        for (s, v) in [(sx, x), (sy, y)] {
            if let Some(w) = seen.insert((ty.clone(), s.clone()), v.clone()) {
                if &w != v {
                    out.oracle_fail("derive:show-not-injective", "two different values of one type have the same rendering", one.clone());
                }
            }
        }
        out.count(if x == y { "derive:pair-equal" } else { "derive:pair-different" });
        out.class(format!("derive:{}:{}:{}", b.sig, ty, e));
        if out.n_cases % 500 == 7 {
            out.sample(json!({"decls": b.decls, "x": expr(x), "show": sx, "eq": e}));
        }
        out.case(
            &format!("derive {} {}", sexp(x), sexp(y)),
            &format!("({} {} {})", quote(sx), quote(sy), e),
        );
    }
}

pub fn to_json(v: &V) -> serde_json::Value {
    match v {
        V::Int(i) => json!({"i": i}),
        V::Str(s) => json!({"s": s}),
        V::Bool(b) => json!({"b": b}),
        V::Ctor(n, a) => json!({"c": n, "a": a.iter().map(to_json).collect::<Vec<_>>()}),
        V::Rec(fs) => json!({"r": fs.iter().map(|(n, v)| json!([n, to_json(v)])).collect::<Vec<_>>()}),
        V::Arr(xs) => json!({"arr": xs.iter().map(to_json).collect::<Vec<_>>()}),
    }
}

pub fn from_json(j: &serde_json::Value) -> V {
    if let Some(i) = j.get("i") {
        V::Int(i.as_i64().unwrap_or(0))
    } else if let Some(s) = j.get("s") {
        V::Str(s.as_str().unwrap_or("").into())
    } else if let Some(b) = j.get("b") {
        V::Bool(b.as_bool().unwrap_or(false))
    } else if let Some(c) = j.get("c") {
        V::Ctor(c.as_str().unwrap_or("").into(), j["a"].as_array().map(|a| a.iter().map(from_json).collect()).unwrap_or_default())
    } else if let Some(r) = j.get("r") {
        V::Rec(r.as_array().map(|a| a.iter().map(|f| (f[0].as_str().unwrap_or("").to_string(), from_json(&f[1]))).collect()).unwrap_or_default())
    } else {
        V::Arr(j["arr"].as_array().map(|a| a.iter().map(from_json).collect()).unwrap_or_default())
    }
}

pub fn replay(drv: &mut Drv, out: &mut Out, case: &serde_json::Value) {
    let b = Batch {
        decls: case["decls"].as_str().unwrap_or("").into(),
        sig: case["sig"].as_str().unwrap_or("").into(),
        pairs: case["pairs"]
            .as_array()
            .map(|a| a.iter().map(|p| (p[0].as_str().unwrap_or("").to_string(), from_json(&p[1]), from_json(&p[2]))).collect())
            .unwrap_or_default(),
    };
    run_batch(drv, out, &b, true);
}

pub fn run(drv: &mut Drv, out: &mut Out, seed: u64, big: bool) {
    let mut rng = Rng::new(seed, 1906);
    let n_prog = if big { 400 } else { 45 };
    for _ in 0..n_prog {
        let types = gen_types(&mut rng);
        let mut pairs = vec![];
        for (t, td) in types.iter().enumerate() {
            let ty = if td.param { format!("{} Int", td.name) } else { td.name.clone() };
            let n = if t + 1 == types.len() { 14 } else { 5 };
            for _ in 0..n {
                let x = gen_val(&mut rng, &types, t, 3);
                let y = match rng.below(5) {
                    0 => x.clone(),
                    1 => gen_val(&mut rng, &types, t, 3),
                    _ => mutate(&mut rng, &types, t, &x),
                };
                pairs.push((ty.clone(), x, y));
            }
        }
        let b = Batch { decls: decls(&types), sig: shape_sig(&types), pairs };
        run_batch(drv, out, &b, false);
    }
}
