//! Typed JSON round trips through the DERIVED `Serialize` / `Deserialize` instances of the record and
//! variant types declared in driver.glu (`Rec`, `Var`, `Nest`) and the std instances for Int, String,
//! Bool, Float, Option, Array, Map (std/json/ser.glu, std/json/de.glu).
use super::{bits_decode, bits_encode, gen_string, mask_floats, Drv, FLOAT_FP, FLOAT_WHAT};
use gluon::vm::api::FunctionRef;
use gv::rng::Rng;
use gv::Out;
use serde_json::{json, Value};

/// `risky` = arbitrary bit patterns (many significant digits: the inexact path of serde_json's float
/// parser); otherwise short decimals every JSON reader gets exactly.
fn gen_float(rng: &mut Rng, risky: bool) -> f64 {
    match if risky { rng.below(6) } else { rng.below(5) } {
        0 => 0.0,
        1 => -0.0,
        2 => rng.range(-5, 5) as f64,
        3 => 1e21,
        4 => rng.range(-1000, 1000) as f64 / 8.0,
        _ => loop {
            let f = f64::from_bits(rng.next());
            if f.is_finite() {
                break f;
            }
        },
    }
}

fn gen_rec(rng: &mut Rng, risky: bool) -> Value {
    let c = if rng.chance(1, 3) { Value::Null } else { json!(rng.range(-50, 50)) };
    let d: Vec<i64> = (0..rng.below(4)).map(|_| if rng.chance(1, 8) { rng.next() as i64 } else { rng.range(-9, 9) }).collect();
    json!({"a": if rng.chance(1, 8) { i64::MIN + rng.range(0, 1) } else { rng.range(-99, 99) }, "b": gen_string(rng, 6), "c": c, "d": d,
           "e": gen_float(rng, risky), "f": rng.chance(1, 2)})
}

fn gen_nest(rng: &mut Rng, risky: bool) -> Value {
    let vs: Vec<Value> = (0..rng.below(5))
        .map(|_| match rng.below(3) {
            0 => json!(rng.range(-99, 99)),
            1 => json!(gen_string(rng, 4)),
            _ => gen_rec(rng, risky),
        })
        .collect();
    let mut m = serde_json::Map::new();
    for _ in 0..rng.below(6) {
        let k = if rng.chance(1, 3) { gen_string(rng, 3) } else { rng.pick(&["k", "a", "b", "zz", "", "é"]).to_string() };
        m.insert(k, json!(rng.range(-9, 9)));
    }
    let o = if rng.chance(1, 2) { Value::Null } else { gen_rec(rng, risky) };
    let l: Vec<Value> = (0..rng.below(4)).map(|_| if rng.chance(1, 2) { Value::Null } else { json!(gen_string(rng, 3)) }).collect();
    json!({"r": gen_rec(rng, risky), "vs": vs, "m": m, "o": o, "l": l})
}

pub fn run_one(drv: &mut Drv, out: &mut Out, v: &Value, int_floats: bool, risky: bool, verbose: bool) {
    let replay = json!({"area": "typed", "value": bits_encode(v), "int_floats": int_floats, "risky": risky});
    let expected = serde_json::to_string(v).unwrap();
    // optionally write integral floats as JSON integers: `de.float` accepts them (std/json/de.glu:106)
    let input = if int_floats {
        fn conv(v: &Value) -> Value {
            match v {
                Value::Number(n) if n.is_f64() => {
                    let f = n.as_f64().unwrap();
                    if f.fract() == 0.0 && f.abs() < 1e15 && !(f == 0.0 && f.is_sign_negative()) { json!(f as i64) } else { v.clone() }
                }
                Value::Array(a) => Value::Array(a.iter().map(conv).collect()),
                Value::Object(o) => Value::Object(o.iter().map(|(k, v)| (k.clone(), conv(v))).collect()),
                _ => v.clone(),
            }
        }
        // only the `e` fields are floats in the types, every other number is an Int field already
        serde_json::to_string_pretty(&conv(v)).unwrap()
    } else {
        expected.clone()
    };
    let res: Result<Vec<String>, String> = {
        let f: Result<FunctionRef<fn(String) -> Vec<String>>, _> = drv.th.get_global("c19drv.typed_rt");
        match f {
            Ok(mut f) => f.call(input.clone()).map_err(|e| e.to_string()),
            Err(e) => Err(e.to_string()),
        }
    };
    if verbose {
        println!("input {}\nresult {:?}", input, res);
    }
    out.count("json:typed-roundtrip");
    match res {
        Err(e) => {
            drv.th = drv.root.new_thread().unwrap();
            drv.resets += 1;
            out.oracle_fail("json:typed-error", &format!("typed round trip failed: {}", e.lines().next().unwrap_or("")), replay);
        }
        Ok(r) => {
            let float_only = r.len() == 2 && r[0] != expected && mask_floats(&r[0]) == mask_floats(&expected);
            if float_only {
                out.oracle_fail(FLOAT_FP, FLOAT_WHAT, replay.clone());
            } else if r.len() != 2 || r[0] != expected {
                out.oracle_fail("json:typed-ser-text", "ser (de t) is not the canonical text of the value (a field was dropped, reordered or changed)", replay.clone());
            }
            // a float that is read back differently also makes the derived Eq say False: same finding
            if r.len() == 2 && r[1] != "T" && risky {
                if !float_only {
                    out.oracle_fail(FLOAT_FP, FLOAT_WHAT, replay.clone());
                }
            } else if r.len() != 2 || r[1] != "T" {
                out.oracle_fail("json:typed-roundtrip", "de (ser x) /= x under the derived Eq", replay);
            }
            let nv = v["vs"].as_array().map(|a| a.len()).unwrap_or(0);
            out.count(if risky { "json:typed:arbitrary-floats" } else { "json:typed:short-floats" });
            out.class(format!("typed:{}:{}:{}:{}", nv.min(3), v["m"].as_object().map(|m| m.len()).unwrap_or(0).min(3), v["o"].is_null(), int_floats));
        }
    }
}

pub fn replay(drv: &mut Drv, out: &mut Out, case: &Value) {
    run_one(drv, out, &bits_decode(&case["value"]), case["int_floats"].as_bool().unwrap_or(false), case["risky"].as_bool().unwrap_or(false), true);
}

pub fn run(drv: &mut Drv, out: &mut Out, seed: u64, big: bool) {
    let mut rng = Rng::new(seed, 1907);
    for _ in 0..(if big { 5000 } else { 400 }) {
        let risky = rng.chance(1, 6);
        let v = gen_nest(&mut rng, risky);
        let int_floats = rng.chance(1, 4);
        run_one(drv, out, &v, int_floats, risky, false);
    }
}
